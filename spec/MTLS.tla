-------------------------------- MODULE MTLS --------------------------------
(***************************************************************************)
(* AutoMTLS (client.go Start / loadServerCert, server.go, mtls.go,         *)
(* grpc_broker.go): which credential each listener of a host/plugin pair   *)
(* demands and which each dialer presents and trusts.  The host generates  *)
(* key pair H and passes H's certificate in PLUGIN_CLIENT_CERT; the plugin *)
(* generates P and announces P's certificate in the handshake line.  Every *)
(* listener (the plugin's main listener, listeners the plugin opens for    *)
(* brokered ids, listeners the host opens for brokered ids) must require a *)
(* client certificate signed by the other side's certificate, and every    *)
(* dialer must accept only the other side's certificate.                   *)
(* A connection attempt is (listener, who dials, credential presented).    *)
(***************************************************************************)
EXTENDS Integers, FiniteSets, TLC

Listeners == {"main", "plugin_brokered", "host_brokered"}
Protos == {"netrpc", "grpc", "grpcmux"}
\* what an intruder (or the legitimate peer) brings
Creds == {"peer_keypair", "plaintext", "tls_nocert", "tls_selfsigned", "tls_samename_otherkey"}

\* which listeners exist: brokered ones only under gRPC (socket files of their own without
\* multiplexing; streams inside the main socket with it -- only the peer can reach those, and its
\* brokered connections must still be mutually authenticated)
HasListener(l, p) == l = "main" \/ p \in {"grpc", "grpcmux"}
\* the owner of a listener and the only key pair it may serve
Owner(l) == IF l = "host_brokered" THEN "host" ELSE "plugin"

\* the TLS requirement the code installs on a listener under AutoMTLS
Requirement(l, p) == "require_and_verify_peer_cert"     \* all three: tls.NewListener / grpc.Creds / broker server options

\* is a connection with this credential served?
Served(l, p, cred) == Requirement(l, p) = "require_and_verify_peer_cert" /\ cred = "peer_keypair"

\* What a program launched by an AutoMTLS host may do instead of playing along: announce
\* certificate A and serve with key pair B ("othercert"), or ignore the request altogether --
\* announce no certificate and serve in plaintext ("nocert").  The host uses a plugin only if it
\* announced a certificate and serves with exactly that one.
\* "chain": announce A, serve with key pair B and append A's (public) certificate to the chain presented.
\* What counts is the key the peer proves possession of: the leaf's.
\* "replay": announce a fresh certificate, serve with the key pair an earlier, honest launch from the same client
\* configuration announced and used -- what an earlier launch was trusted with does not carry over.
ImpostorModes == {"othercert", "nocert", "chain", "replay"}
Announced(m) == IF m = "nocert" THEN "none" ELSE "A"
Presented(m) == IF m = "nocert" THEN "plaintext" ELSE "B"      \* the leaf key
HostUses(announced, presented) == announced # "none" /\ announced = presented
HostAccepts(announced, presented) == HostUses(announced, presented)
ASSUME \A m \in ImpostorModes : ~HostUses(Announced(m), Presented(m))
ASSUME HostUses("A", "A")

VARIABLES lis, proto, cred, served
mv == <<lis, proto, cred, served>>
MInit == /\ lis \in Listeners /\ proto \in Protos /\ HasListener(lis, proto) /\ cred \in Creds /\ served = "unknown"
MTry == /\ served = "unknown" /\ served' = (IF Served(lis, proto, cred) THEN "yes" ELSE "no") /\ UNCHANGED <<lis, proto, cred>>
MSpec == MInit /\ [][MTry]_mv
OnlyThePeer == (served = "yes") => cred = "peer_keypair"
PeerIsServed == (served # "unknown" /\ cred = "peer_keypair") => served = "yes"
=============================================================================
