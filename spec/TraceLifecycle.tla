--------------------------- MODULE TraceLifecycle ---------------------------
(***************************************************************************)
(* Trace validation for Lifecycle: a log of call sequences executed on a   *)
(* real plugin.Client (custom runner).  Many cases are packed in one log,  *)
(* each starting with a "reset" line; all cases of one log share the Plan. *)
(* Sequential cases must be behaviours of Lifecycle (every call's observed *)
(* result, launch count, kill count and socket directory presence must be  *)
(* what the model yields); the process going away and the wait goroutine   *)
(* are silent steps.  Concurrent cases are only held to the invariants     *)
(* the property states (at most one launch, same address, same client).    *)
(***************************************************************************)
EXTENDS Lifecycle, Json, IOUtils

Trace == ndJsonDeserialize(IOEnv.VERIF_TRACE)
VARIABLES l, loose
tvars == <<vars, l, loose>>
E == Trace[l]

TraceInit == Init /\ l = 1 /\ loose = FALSE

Reset == /\ E.ev = "reset" /\ ResetAll /\ loose' = E.concurrent

Matches == /\ last' = <<E.op, E.res>>
           /\ launches' = E.launches /\ tmpdirs' = E.tmpdirs /\ kills' = E.kills
           /\ (tmpdir' = "present") = E.tmp_present

Call(op) == CASE op = "Start" -> Start [] op = "Protocol" -> Protocol [] op = "ClientCall" -> ClientCall
              [] op = "ReattachConfig" -> ReattachConfig [] op = "ID" -> ID [] op = "Exited" -> Exited
              [] op = "Kill" -> Kill [] op = "Crash" -> Crash /\ UNCHANGED ncalls [] OTHER -> FALSE

BadResults == {"ok-different-address", "different-client", "panic"}

Ret == /\ E.ev = "ret"
       /\ IF loose
          THEN /\ E.launches <= 1 /\ E.tmpdirs <= 1 /\ E.res \notin BadResults
               /\ UNCHANGED vars
          ELSE IF E.op = "Crash" THEN (Crash \/ (proc # "alive" /\ UNCHANGED vars))
               ELSE /\ Call(E.op) /\ Matches
                    \* Kill of a live, connected plugin asks it to quit before anything else
                    /\ (E.op = "Kill" /\ runnerSet /\ addrSet /\ proc = "alive") => E.quit_seen
       /\ UNCHANGED loose

End == /\ E.ev = "end" /\ E.launches <= 1 /\ E.tmpdirs <= 1 /\ ~E.tmp_present
       /\ UNCHANGED <<vars, loose>>

Silent == /\ l <= Len(Trace) /\ ~loose /\ (ProcGone \/ WaitMarkExited) /\ UNCHANGED <<l, loose>>

TraceNext ==
  \/ /\ l <= Len(Trace) /\ l' = l + 1 /\ (Reset \/ Ret \/ End)
  \/ Silent
TraceSpec == TraceInit /\ [][TraceNext]_tvars

HighWater == TLCSet(1, IF l > TLCGet(1) THEN l ELSE TLCGet(1))
TraceConstraint == HighWater
TraceAccepted == /\ PrintT(<<"HIGHWATER", TLCGet(1), Len(Trace)>>)
                 /\ TLCGet(1) = Len(Trace) + 1
ASSUME TLCSet(1, 0)
=============================================================================
