------------------------------- MODULE MCMux -------------------------------
(* Model-checking instances of MuxBroker.  Calls are strings; Tab gives     *)
(* <<side of the caller, id>>.                                              *)
EXTENDS MuxBroker

Tab == [ dH1a |-> <<"H", 1>>, dH1b |-> <<"H", 1>>, dH2a |-> <<"H", 2>>, dP1a |-> <<"P", 1>>,
         aP1a |-> <<"P", 1>>, aP1b |-> <<"P", 1>>, aP2a |-> <<"P", 2>>, aH1a |-> <<"H", 1>>, aH3a |-> <<"H", 3>> ]
CSide(c) == Tab[c][1]
CId(c) == Tab[c][2]

NoAborts == {}
\* scenario E: the peer gives up on one stream before writing its id; a clean pair on another id
DialsE == {"dH1a", "dH2a"}
AcceptsE == {"aP2a"}
AbortsE == {"dH1a"}

\* scenario A: id 1 abused host->plugin (two dials, one accept), the same numeric id used once
\* in the other direction (the fresh pair).
DialsA == {"dH1a", "dH1b", "dP1a"}
AcceptsA == {"aP1a", "aH1a"}

\* scenario B: two ids in one direction, one of them dialled twice and never accepted,
\* the other a clean pair; plus an accept without dial in the other direction.
DialsB == {"dH1a", "dH1b", "dH2a"}
AcceptsB == {"aP2a", "aH3a"}

\* scenario C (small, for graph dumps): one dial, one accept, one stray dial
DialsC == {"dH1a", "dH1b"}
AcceptsC == {"aP1a"}

\* scenario D: contract violation -- two accepts on one id (NoPanic is expected to fail)
DialsD == {"dH1a", "dH1b"}
AcceptsD == {"aP1a", "aP1b"}
=============================================================================
