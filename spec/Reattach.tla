------------------------------ MODULE Reattach ------------------------------
(***************************************************************************)
(* Reattaching to a running plugin (client.go reattach, cmd_reattach.go,   *)
(* server.go test mode).  One plugin instance with a state cell; client c1 *)
(* launched it (or, in test mode, it is served in-process and c1 does not  *)
(* exist); c2 and c3 are built from its reattach configuration.  Every     *)
(* operation of a history is one action whose result is recorded in last.  *)
(***************************************************************************)
EXTENDS Integers, Sequences, FiniteSets, TLC

CONSTANTS TestMode, MaxOps
RClients == {"c2", "c3"}
Values == {1, 2}

VARIABLES inst, cell, haveCfg, c1, att, cancelled, nops, last,
          frozen      \* the plugin process is stopped (SIGSTOP): alive, listening, answering nothing
rv == <<inst, cell, haveCfg, c1, att, cancelled, nops, last, frozen>>

RInit == /\ inst = "none" /\ cell = 0 /\ haveCfg = FALSE /\ c1 = "new"
         /\ att = [c \in RClients |-> "no"] /\ cancelled = FALSE /\ nops = 0 /\ last = <<"-", "-", "-">> /\ frozen = FALSE
RReset == /\ inst' = "none" /\ cell' = 0 /\ haveCfg' = FALSE /\ c1' = "new"
          /\ att' = [c \in RClients |-> "no"] /\ cancelled' = FALSE /\ nops' = 0 /\ last' = <<"-", "-", "-">> /\ frozen' = FALSE
Cnt == nops < MaxOps /\ nops' = nops + 1

\* the plugin comes up (launched by c1, or served in-process in test mode) and its configuration is taken
Start == /\ Cnt /\ inst = "none"
         /\ inst' = "alive" /\ c1' = (IF TestMode THEN "none" ELSE "started") /\ haveCfg' = TRUE
         /\ last' = <<"Start", "-", "ok">> /\ UNCHANGED <<cell, att, cancelled, frozen>>

Reattach(c) == /\ c \in RClients /\ Cnt /\ haveCfg /\ att[c] \in {"no", "failed"} /\ ~frozen
               /\ IF inst = "alive"
                  THEN att' = [att EXCEPT ![c] = "yes"] /\ last' = <<"Reattach", c, "ok">>
                  ELSE att' = [att EXCEPT ![c] = "failed"] /\ last' = <<"Reattach", c, "notfound">>   \* nothing is listening: process-not-found error
               /\ UNCHANGED <<inst, cell, haveCfg, c1, cancelled, frozen>>

\* the client object whose reattach failed is asked again (Start / Client on the same value): a dead
\* plugin stays not found -- the failed attempt must not leave the client looking started
Again(c) == /\ c \in RClients /\ Cnt /\ att[c] = "failed" /\ inst # "alive"
            /\ last' = <<"Again", c, "notfound">>
            /\ UNCHANGED <<inst, cell, haveCfg, c1, att, cancelled, frozen>>

Usable(c) == IF c = "c1" THEN c1 = "started" ELSE att[c] = "yes"
AllClients == RClients \cup {"c1"}

\* After the test context was cancelled Serve has returned and nothing new can connect, but a
\* connection that already existed may still be answered (documented for net/rpc: only the listener
\* is closed).  The property does not say either way, so both are allowed there.
Lingering == TestMode /\ cancelled
Set(c, v) == /\ Cnt /\ Usable(c) /\ ~frozen
             /\ \/ /\ (inst = "alive" \/ Lingering) /\ cell' = v /\ last' = <<"Set", c, "ok">>
                \/ /\ inst # "alive" /\ UNCHANGED cell /\ last' = <<"Set", c, "err">>
             /\ UNCHANGED <<inst, haveCfg, c1, att, cancelled, frozen>>
\* the same live instance: whatever client wrote it, every client reads the value (and the same instance id)
Get(c) == /\ Cnt /\ Usable(c) /\ ~frozen
          /\ \/ /\ (inst = "alive" \/ Lingering) /\ last' = <<"Get", c, cell>>
             \/ /\ inst # "alive" /\ last' = <<"Get", c, -1>>
          /\ UNCHANGED <<inst, cell, haveCfg, c1, att, cancelled, frozen>>

Kill(c) == /\ Cnt /\ Usable(c)
           /\ IF c = "c1" THEN c1' = "killed" /\ UNCHANGED att ELSE att' = [att EXCEPT ![c] = "killed"] /\ UNCHANGED c1
           /\ inst' = (IF TestMode THEN inst ELSE "dead")        \* test mode: Kill never kills the serving process
           /\ frozen' = (IF TestMode THEN frozen ELSE FALSE)     \* a plugin that answers nothing is ended all the same
           /\ last' = <<"Kill", c, "done">> /\ UNCHANGED <<cell, haveCfg, cancelled>>

\* the plugin process dies without any shutdown (crash, SIGKILL from outside): nothing it created is
\* cleaned up -- in particular its Unix socket file stays on disk with nobody listening on it
Crash == /\ Cnt /\ ~TestMode /\ inst = "alive"
         /\ inst' = "dead" /\ last' = <<"Crash", "-", "killed">> /\ frozen' = FALSE
         /\ UNCHANGED <<cell, haveCfg, c1, att, cancelled>>

\* the plugin process is stopped (SIGSTOP): it stays alive and keeps its sockets but answers nothing --
\* neither a call nor the request to shut down
Freeze == /\ Cnt /\ ~TestMode /\ inst = "alive" /\ ~frozen
          /\ frozen' = TRUE /\ last' = <<"Freeze", "-", "stopped">>
          /\ UNCHANGED <<inst, cell, haveCfg, c1, att, cancelled>>

\* another host connects to the running plugin and goes away again without any shutdown request (it
\* crashed, or its connection was cut): the plugin keeps serving -- surviving its hosts is what
\* reattaching is for
Ghost == /\ Cnt /\ haveCfg /\ inst = "alive" /\ ~frozen
         /\ last' = <<"Ghost", "-", "gone">>
         /\ UNCHANGED <<inst, cell, haveCfg, c1, att, cancelled, frozen>>

Cancel == /\ Cnt /\ TestMode /\ inst = "alive" /\ ~cancelled       \* the test context is cancelled: serving stops
          /\ cancelled' = TRUE /\ inst' = "dead" /\ last' = <<"Cancel", "-", "stopped">>
          /\ UNCHANGED <<cell, haveCfg, c1, att, frozen>>

RNext == Start \/ Cancel \/ Crash \/ Freeze \/ Ghost \/ \E c \in AllClients : Kill(c) \/ Get(c) \/ Reattach(c) \/ Again(c) \/ (\E v \in Values : Set(c, v))
RSpec == RInit /\ [][RNext]_rv

TestModeNeverKills == [][(TestMode /\ last'[1] = "Kill") => inst' = inst]_rv
KillKills == (~TestMode /\ last[1] = "Kill") => inst = "dead"
StopsOnlyOnCancel == (TestMode /\ inst = "dead") => cancelled
NotFoundIffDead == (last[1] \in {"Reattach", "Again"}) => ((last[3] = "notfound") = (inst # "alive"))
=============================================================================
