SPECIFICATION ESpec
