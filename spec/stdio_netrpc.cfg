SPECIFICATION SSpec
CONSTANTS
  MaxWrites = 4
  OneFifo = FALSE
  CrossTag = FALSE
  Reuse = FALSE
INVARIANTS Prefix NoCrossing Complete
CHECK_DEADLOCK FALSE
