----------------------------- MODULE GRPCPlain -----------------------------
(***************************************************************************)
(* The gRPC broker without multiplexing (grpc_broker.go), one direction:   *)
(* the acceptor side A opens a listener for an id and sends its address as *)
(* a ConnInfo message down the broker stream; the dialer side D's Run loop *)
(* files every ConnInfo under its id in a 1-buffered slot that expires     *)
(* after W; Dial(id) waits up to W for the slot's message and connects to  *)
(* the address in it.  Several ids may be outstanding at once.  Messages   *)
(* carry <<id, listener>>; Shared = TRUE models a receive loop that        *)
(* reuses one message value for every ConnInfo (a realistic slip), which   *)
(* must break Routing.  Discrete time, maximal progress.                   *)
(***************************************************************************)
EXTENDS Integers, Sequences, FiniteSets, TLC

CONSTANTS Ids, W, IssueMax, MaxT, Shared

VARIABLES now, apc, astart, stream, lastMsg,
          rpc, rcur, slotMsg, slotGen, slotExists, tws,
          dpc, dstart, ddl, dgot, dres
vars == <<now, apc, astart, stream, lastMsg, rpc, rcur, slotMsg, slotGen, slotExists, tws, dpc, dstart, ddl, dgot, dres>>
None == 0

Init ==
  /\ now = 0
  /\ apc = [n \in Ids |-> "idle"] /\ astart = [n \in Ids |-> -1]
  /\ stream = <<>> /\ lastMsg = None
  /\ rpc = "recv" /\ rcur = None
  /\ slotMsg = [n \in Ids |-> None] /\ slotGen = [n \in Ids |-> 0] /\ slotExists = [n \in Ids |-> FALSE] /\ tws = {}
  /\ dpc = [n \in Ids |-> "idle"] /\ dstart = [n \in Ids |-> -1] /\ ddl = [n \in Ids |-> 0]
  /\ dgot = [n \in Ids |-> None] /\ dres = [n \in Ids |-> "none"]

\* getClientStream(id): the slot under the id, created if absent
Slot(n) == IF slotExists[n] THEN UNCHANGED <<slotExists, slotGen, slotMsg>>
           ELSE /\ slotExists' = [slotExists EXCEPT ![n] = TRUE] /\ slotGen' = [slotGen EXCEPT ![n] = @ + 1]
                /\ slotMsg' = [slotMsg EXCEPT ![n] = None]

\* AcceptAndServe(n): listener n is served by the server for n; its address goes down the stream
Accept(n) == /\ apc[n] = "idle" /\ now <= IssueMax
             /\ apc' = [apc EXCEPT ![n] = "sent"] /\ astart' = [astart EXCEPT ![n] = now]
             /\ stream' = Append(stream, n)         \* ConnInfo{ServiceId n, address of listener n}
             /\ UNCHANGED <<now, lastMsg, rpc, rcur, slotMsg, slotGen, slotExists, tws, dpc, dstart, ddl, dgot, dres>>

\* the dialer side's receive loop + Run
RunRecv == /\ rpc = "recv" /\ stream # <<>>
           /\ rcur' = Head(stream) /\ stream' = Tail(stream) /\ rpc' = "file"
           /\ lastMsg' = Head(stream)              \* the one message value a sharing receive loop keeps overwriting
           /\ UNCHANGED <<now, apc, astart, slotMsg, slotGen, slotExists, tws, dpc, dstart, ddl, dgot, dres>>
\* what a slot holds is the listener the message points at: its own (fresh message per receive) or,
\* with a shared message value, whatever was received last when it is read
RunFile == /\ rpc = "file"
           /\ IF slotExists[rcur]
              THEN /\ slotMsg' = [slotMsg EXCEPT ![rcur] = IF @ = None THEN rcur ELSE @] /\ UNCHANGED <<slotExists, slotGen>>
              ELSE /\ slotExists' = [slotExists EXCEPT ![rcur] = TRUE] /\ slotGen' = [slotGen EXCEPT ![rcur] = @ + 1]
                   /\ slotMsg' = [slotMsg EXCEPT ![rcur] = rcur]
           /\ tws' = tws \cup {<<rcur, now + W>>}
           /\ rpc' = "recv" /\ rcur' = None
           /\ UNCHANGED <<now, apc, astart, stream, lastMsg, dpc, dstart, ddl, dgot, dres>>
TWFire(t) == /\ t \in tws /\ now >= t[2] /\ tws' = tws \ {t}
             /\ slotExists' = [slotExists EXCEPT ![t[1]] = FALSE] /\ slotMsg' = [slotMsg EXCEPT ![t[1]] = None]
             /\ UNCHANGED <<now, apc, astart, stream, lastMsg, rpc, rcur, slotGen, dpc, dstart, ddl, dgot, dres>>

Dial(n) == /\ dpc[n] = "idle" /\ now <= IssueMax
           /\ Slot(n) /\ dpc' = [dpc EXCEPT ![n] = "wait"] /\ dstart' = [dstart EXCEPT ![n] = now] /\ ddl' = [ddl EXCEPT ![n] = now + W]
           /\ UNCHANGED <<now, apc, astart, stream, lastMsg, rpc, rcur, tws, dgot, dres>>
DialTake(n) == /\ dpc[n] = "wait" /\ slotExists[n] /\ slotMsg[n] # None
               /\ dgot' = [dgot EXCEPT ![n] = IF Shared THEN lastMsg ELSE slotMsg[n]]
               /\ slotMsg' = [slotMsg EXCEPT ![n] = None] /\ slotExists' = [slotExists EXCEPT ![n] = FALSE]  \* doneCh closed: the expiry handler deletes the slot
               /\ dpc' = [dpc EXCEPT ![n] = "done"] /\ dres' = [dres EXCEPT ![n] = "ok"]
               /\ UNCHANGED <<now, apc, astart, stream, lastMsg, rpc, rcur, slotGen, tws, dstart, ddl>>
DialTimeout(n) == /\ dpc[n] = "wait" /\ now >= ddl[n] /\ ~(slotExists[n] /\ slotMsg[n] # None)
                  /\ dpc' = [dpc EXCEPT ![n] = "done"] /\ dres' = [dres EXCEPT ![n] = "timeout"]
                  /\ UNCHANGED <<now, apc, astart, stream, lastMsg, rpc, rcur, slotMsg, slotGen, slotExists, tws, dstart, ddl, dgot>>

Instant == RunRecv \/ RunFile \/ (\E t \in tws : TWFire(t)) \/ (\E n \in Ids : DialTake(n) \/ DialTimeout(n))
Env == \E n \in Ids : Accept(n) \/ Dial(n)
Tick == /\ ~ENABLED Instant /\ now < MaxT /\ now' = now + 1
        /\ UNCHANGED <<apc, astart, stream, lastMsg, rpc, rcur, slotMsg, slotGen, slotExists, tws, dpc, dstart, ddl, dgot, dres>>
Next == Instant \/ Env \/ Tick
Spec == Init /\ [][Next]_vars /\ WF_vars(Instant) /\ WF_vars(Tick)

\* C07: the connection dialled for id n goes to the listener accepted for id n
Routing == \A n \in Ids : dgot[n] # None => dgot[n] = n
InWindow(n) == astart[n] >= 0 /\ dstart[n] >= 0 /\ astart[n] - dstart[n] < W /\ dstart[n] - astart[n] < W
Quiesced == now = MaxT /\ ~ENABLED Instant
\* accept and dial inside the window of each other, either order: the dial gets its connection
FirstCallOK == \A n \in Ids : (Quiesced /\ InWindow(n)) => dres[n] = "ok"
\* C09: every dial returns
DialsReturn == \A n \in Ids : (dpc[n] = "wait") ~> (dpc[n] = "done")
=============================================================================
