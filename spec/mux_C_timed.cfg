SPECIFICATION Spec
CONSTANTS
  Dials <- DialsC
  Accepts <- AcceptsC
  AbortDials <- NoAborts
  DSide <- CSide
  DId <- CId
  ASide <- CSide
  AId <- CId
  W = 2
  IssueMax = 3
  MaxT = 8
  MaxProgress = TRUE
  FixDrain = TRUE
  FixDrop = TRUE
  AllowDown = FALSE
  MaxNextId = 0
INVARIANTS TypeOK Routing AckMatches NoBadAck NoPanic NoWedge LockFree NoStuckAtEnd WindowSuccess AcceptBounded
PROPERTIES DialsReturn AcceptsReturn
CHECK_DEADLOCK FALSE
