----------------------------- MODULE Handshake -----------------------------
(***************************************************************************)
(* The stdout handshake of go-plugin as a decision procedure.              *)
(*                                                                         *)
(* A plugin's first stdout line is abstracted to a record of field classes *)
(* (Line); a client configuration to a record of the options that matter   *)
(* (Cfg).  Decide(l, c) is the client's decision, written the way          *)
(* Client.Start takes it (one check after the other, in the code's order); *)
(* WellFormed(l, c) is the condition the property C01 states.  TLC checks  *)
(* that the two agree on every class, that success reports exactly what    *)
(* the line says, and the conformance check (TraceHandshake) compares      *)
(* every outcome observed on the real Client.Start with Decide.            *)
(***************************************************************************)
EXTENDS Integers, Sequences, FiniteSets, TLC

\* ---- field classes --------------------------------------------------------
NParts  == 1..8                                        \* number of '|'-separated parts on the line
Core    == {"one", "otherInt", "nonInt", "empty"}     \* parts[1]: core protocol version
Ver     == {"offered", "unoffered", "nonInt", "empty"}\* parts[2]: application protocol version
Net     == {"tcp", "unix", "other", "empty"}          \* parts[3]
Addr    == {"ok", "bad"}                               \* parts[4]: resolvable or not (only tcp can be bad)
Proto   == {"netrpc", "grpc", "other", "empty"}       \* parts[5], when present
Cert    == {"empty", "short", "valid", "badB64", "badDER"} \* parts[6], when present ("short": <= 50 chars)
Mux     == {"true", "false", "garbage", "empty"}      \* parts[7], when present
Ws      == {"none", "crlf", "padded"}                  \* whitespace around the line

AllowedLists == {"unset", "netrpc", "grpc", "both", "emptylist"}
Tls     == {"none", "static", "auto"}

Lines == [n : NParts, core : Core, ver : Ver, net : Net, addr : Addr,
          proto : Proto, cert : Cert, mux : Mux, ws : Ws]
Cfgs  == [allowed : AllowedLists, tls : Tls, muxreq : BOOLEAN]

\* Classes that differ only in fields the line does not have are the same line.
Canonical(l) ==
  /\ (l.n < 7 => l.mux = "empty")
  /\ (l.n < 6 => l.cert = "empty")
  /\ (l.n < 5 => l.proto = "empty")
  /\ (l.n < 4 => l.addr = "ok")
  /\ (l.n < 3 => l.net = "empty")
  /\ (l.n < 2 => l.ver = "empty")
  /\ (l.net # "tcp" => l.addr = "ok")

AllowedSet(c) == CASE c.allowed = "unset"  -> {"netrpc"}
                   [] c.allowed = "netrpc" -> {"netrpc"}
                   [] c.allowed = "grpc"   -> {"grpc"}
                   [] c.allowed = "both"   -> {"netrpc", "grpc"}
                   [] OTHER                -> {}

\* the protocol the line announces (net/rpc when the field is missing, for old plugins)
LineProto(l) == IF l.n >= 5 THEN l.proto ELSE "netrpc"

Err == [ok |-> FALSE, proto |-> "-", net |-> "-"]
Ok(l) == [ok |-> TRUE, proto |-> LineProto(l), net |-> l.net]

(***************************************************************************)
(* Decide: the code's sequence of checks (client.go, Start).               *)
(***************************************************************************)
Decide(l, c) ==
  IF l.n < 4 THEN {Err}                                              \* unrecognized message
  ELSE IF l.core # "one" THEN {Err}                                  \* core protocol version
  ELSE IF l.ver # "offered" THEN {Err}                               \* application version
  ELSE IF l.net \notin {"tcp", "unix"} THEN {Err}                    \* unknown network
  ELSE IF l.addr # "ok" THEN {Err}                                   \* address does not resolve
  ELSE IF LineProto(l) \notin AllowedSet(c) THEN {Err}               \* protocol not allowed
  ELSE IF l.n >= 6 /\ l.cert \in {"badB64", "badDER"} THEN {Err}     \* long but unparsable certificate
  ELSE IF l.n >= 6 /\ l.cert = "valid" /\ c.tls = "none" THEN {Err}  \* certificate but no TLS on the client
  ELSE IF c.muxreq /\ LineProto(l) = "grpc" /\ (l.n < 7 \/ l.mux # "true") THEN {Err}
  ELSE {Ok(l)}

(***************************************************************************)
(* WellFormed: what the property says a line must satisfy to be accepted.  *)
(***************************************************************************)
WellFormed(l, c) ==
  /\ l.n >= 4
  /\ l.core = "one"                                       \* core protocol version 1
  /\ l.ver = "offered"                                    \* an application version the client offers
  /\ l.net \in {"tcp", "unix"} /\ l.addr = "ok"           \* tcp or unix with a resolvable address
  /\ LineProto(l) \in AllowedSet(c)                       \* a protocol in the client's allowed list
  /\ (l.n >= 6 => l.cert \in {"empty", "short", "valid"}) \* when present, a parseable certificate
  /\ ((c.muxreq /\ LineProto(l) = "grpc") => (l.n >= 7 /\ l.mux = "true")) \* mux flag consistent with the config

\* The one place where the property leaves the outcome open: a parseable certificate sent to a
\* client that has no TLS configuration at all (it only demands "no panic").
Open(l, c) == l.n >= 6 /\ l.cert = "valid" /\ c.tls = "none"

-----------------------------------------------------------------------------
(* One-step system for TLC: pick a case, decide.                            *)
VARIABLES line, cfg, out, decided
hvars == <<line, cfg, out, decided>>

HInit == /\ line \in {l \in Lines : Canonical(l)} /\ cfg \in Cfgs /\ out = Err /\ decided = FALSE
HDecide == /\ ~decided /\ decided' = TRUE /\ out' \in Decide(line, cfg) /\ UNCHANGED <<line, cfg>>
HSpec == HInit /\ [][HDecide]_hvars

\* success only if well-formed
SuccessOnlyIfWellFormed == (decided /\ out.ok) => WellFormed(line, cfg)
\* and, apart from the open case, a well-formed line is accepted (the check is not vacuous)
WellFormedAccepted == (decided /\ WellFormed(line, cfg) /\ ~Open(line, cfg)) => out.ok
\* on success the reported protocol and network are the line's
ReportsTheLine == (decided /\ out.ok) => (out.proto = LineProto(line) /\ out.net = line.net
                                               /\ out.proto \in AllowedSet(cfg))
\* the decision is total and deterministic
Total == Cardinality(Decide(line, cfg)) = 1
=============================================================================
