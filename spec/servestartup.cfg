SPECIFICATION SSpec
INVARIANTS NoListenerWithoutCookie NoLineWithoutCookie RefusedExitsOne ListeningWhenAnnounced OneLine SevenIffSignalled
CHECK_DEADLOCK FALSE
