SPECIFICATION Spec
CONSTANTS
  Plan = "silent"
  MaxCalls = 5
  RetryLaunch = FALSE
INVARIANTS TypeOK LaunchAtMostOnce FailedStartKills KillPost
PROPERTIES NoLaunchAfterKill FailedStartEndsProcess
CHECK_DEADLOCK FALSE
