------------------------------ MODULE Checksum ------------------------------
(***************************************************************************)
(* SecureConfig: the binary is launched iff the digest of the file at the  *)
(* command path equals the configured checksum (client.go: SecureConfig.   *)
(* Check, and its place in Start before anything is launched).             *)
(* Digests are abstract bit strings.  Gate is the code's sequence of       *)
(* checks; the properties say what C13 promises.                           *)
(***************************************************************************)
EXTENDS Integers, Sequences, FiniteSets, TLC

Bits == {0, 1}
Strs(n) == UNION {[1..k -> Bits] : k \in 0..n}
MaxLen == 3

\* the decision, in the order the code takes it
Gate(sum, want, hashNil) ==
  IF Len(want) = 0 THEN "ErrNoChecksum"
  ELSE IF hashNil THEN "ErrNoHash"
  ELSE IF sum = want THEN "launch"
  ELSE "ErrMismatch"
\* With a custom runner (RunnerFunc) there is no command path: the check is applied to the empty
\* path, there is no file whose digest could match, and nothing is ever launched.
GatePathless(want, hashNil) ==
  IF Len(want) = 0 THEN "ErrNoChecksum"
  ELSE IF hashNil THEN "ErrNoHash"
  ELSE "ErrNoFile"
ASSUME \A w \in Strs(MaxLen + 1), hn \in BOOLEAN : GatePathless(w, hn) # "launch"

\* how a configured checksum relates to the true digest (the classes the drivers concretise)
Class(sum, want) ==
  IF want = sum THEN "exact"
  ELSE IF Len(want) = 0 THEN "empty"
  ELSE IF Len(want) < Len(sum) /\ want = SubSeq(sum, 1, Len(want)) THEN "prefix"
  ELSE IF Len(want) > Len(sum) /\ sum = SubSeq(want, 1, Len(sum)) THEN "extended"
  ELSE IF Len(want) = Len(sum) /\ Cardinality({i \in 1..Len(sum) : want[i] # sum[i]}) = 1 THEN "bitflip"
  ELSE "other"

VARIABLES sum, want, hashNil, phase, launched
cv == <<sum, want, hashNil, phase, launched>>

CInit == /\ sum \in {s \in Strs(MaxLen) : Len(s) = MaxLen} /\ want \in Strs(MaxLen + 1) /\ hashNil \in BOOLEAN
         /\ phase = "new" /\ launched = FALSE
\* Start: the check comes first; only its success enables the launch
CCheck == /\ phase = "new" /\ phase' = Gate(sum, want, hashNil) /\ UNCHANGED <<sum, want, hashNil, launched>>
CLaunch == /\ phase = "launch" /\ ~launched /\ launched' = TRUE /\ UNCHANGED <<sum, want, hashNil, phase>>
CSpec == CInit /\ [][CCheck \/ CLaunch]_cv

\* launched only if the digests are equal (and a hash function and a checksum were given)
LaunchOnlyIfEqual == launched => (sum = want /\ ~hashNil /\ Len(want) > 0)
\* any other checksum yields the corresponding error
ErrorMatches == (phase \notin {"new", "launch"}) =>
                  /\ (Class(sum, want) = "empty" => phase = "ErrNoChecksum")
                  /\ ((Len(want) > 0 /\ hashNil) => phase = "ErrNoHash")
                  /\ ((Len(want) > 0 /\ ~hashNil) => phase = "ErrMismatch")
\* an exact checksum with a hash function does launch (the gate is not vacuous)
ExactLaunches == (phase # "new" /\ sum = want /\ ~hashNil) => phase = "launch"
=============================================================================
