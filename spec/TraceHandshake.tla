--------------------------- MODULE TraceHandshake ---------------------------
(***************************************************************************)
(* Conformance of the real Client.Start with Handshake!Decide: every line  *)
(* of the observation log is one Start call on a concrete handshake line   *)
(* of the logged class, with what was observed.  A line that Decide does   *)
(* not allow is reported (DEVIATION) and counted; nothing blocks, so one   *)
(* run judges the whole log.                                               *)
(***************************************************************************)
EXTENDS Handshake, Json, IOUtils

Obs == ndJsonDeserialize(IOEnv.VERIF_TRACE)

VARIABLES i, bad
tv == <<i, bad, hvars>>

L(o) == [n |-> o.line.n, core |-> o.line.core, ver |-> o.line.ver, net |-> o.line.net, addr |-> o.line.addr,
         proto |-> o.line.proto, cert |-> o.line.cert, mux |-> o.line.mux, ws |-> o.line.ws]
C(o) == [allowed |-> o.cfg.allowed, tls |-> o.cfg.tls, muxreq |-> o.cfg.muxreq]

\* what the property demands of one observed Start call
Conforms(o) ==
  LET l == L(o)  c == C(o)  d == Decide(l, c) IN
  /\ l \in Lines /\ c \in Cfgs /\ Canonical(l)
  /\ ~o.out.panic                                           \* no line makes the host panic
  /\ o.out.ms <= o.out.limit_ms                             \* nor wait longer than the start timeout
  /\ IF Open(l, c) THEN TRUE ELSE o.out.ok = (CHOOSE x \in d : TRUE).ok
  /\ o.out.ok => /\ WellFormed(l, c)
                 /\ o.out.addr_nonnil /\ o.out.addr_matches  \* a non-nil address, the line's
                 /\ o.out.proto = LineProto(l) /\ o.out.net = l.net
                 /\ o.out.version_matches                    \* the negotiated version is the line's
  /\ ~o.out.ok => o.out.killed                               \* C05: a failed start kills what it launched
  /\ ~o.out.ok => ~o.out.again_ok                            \* a rejected line stays rejected: asking again does not succeed
  /\ o.out.launches <= 1                                     \* C19: and launches nothing more

TInit == i = 1 /\ bad = 0 /\ line = L(Obs[1]) /\ cfg = C(Obs[1]) /\ out = Err /\ decided = FALSE
TNext ==
  /\ i <= Len(Obs)
  /\ i' = i + 1
  /\ IF Conforms(Obs[i]) THEN bad' = bad
     ELSE bad' = bad + 1 /\ PrintT(<<"DEVIATION", i, Obs[i].name>>)
  /\ UNCHANGED hvars
TSpec == TInit /\ [][TNext]_tv

Done == (i = Len(Obs) + 1) => PrintT(<<"JUDGED", Len(Obs), "BAD", bad>>)
=============================================================================
