SPECIFICATION HSpec
INVARIANTS SuccessOnlyIfWellFormed WellFormedAccepted ReportsTheLine Total
CHECK_DEADLOCK FALSE
