SPECIFICATION CSpec
INVARIANTS ErrIfNeeded Total
CHECK_DEADLOCK FALSE
