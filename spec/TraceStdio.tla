------------------------------ MODULE TraceStdio ------------------------------
(* C11 on real processes: per scenario, the tokens written per stream and the tokens the host's   *)
(* sync writers received (the driver turns bytes into tokens: every byte identifies its stream,  *)
(* write and offset; a byte that is not the expected next one ends the decoding with "garbage"). *)
EXTENDS Stdio, Json, IOUtils

Obs == ndJsonDeserialize(IOEnv.VERIF_TRACE)
VARIABLES i, bad

Toks(stream, seq) == [k \in 1..Len(seq) |-> <<stream, seq[k]>>]

\* kind "handover-": what the second host received is one gap-free, in-order run of the records (Stdio!Run)
ConformsHandover(o) ==
  /\ o.out.setup_ok /\ ~o.out.panic /\ o.out.alive
  /\ o.out.b_records > 0 /\ o.out.b_runs = 1 /\ o.out.b_garbage = 0
Conforms(o) ==
  IF o.kind = "handover-" THEN ConformsHandover(o) ELSE
  /\ o.out.setup_ok /\ ~o.out.panic
  /\ \A s \in Streams :
       LET w == Toks(s, o.out.written[s])  d == Toks(s, o.out.delivered[s]) IN
       /\ IsPrefix(d, w)                         \* Prefix: exactly once, in order
       /\ o.out.garbage[s] = 0                   \* NoCrossing / nothing invented: no byte that is not the expected next one
       /\ (o.out.alive => d = w)                 \* Complete: while the connection is alive everything arrives

TInit == i = 1 /\ bad = 0
TNext ==
  /\ i <= Len(Obs)
  /\ i' = i + 1
  /\ IF Conforms(Obs[i]) THEN bad' = bad
     ELSE bad' = bad + 1 /\ PrintT(<<"DEVIATION", i, Obs[i].name>>)
  /\ UNCHANGED sv
TSpec == TInit /\ SInit /\ [][TNext]_<<i, bad, sv>>
Done == (i = Len(Obs) + 1) => PrintT(<<"JUDGED", Len(Obs), "BAD", bad>>)
=============================================================================
