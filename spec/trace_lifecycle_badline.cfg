SPECIFICATION TraceSpec
CONSTANTS
  Plan = "badline"
  MaxCalls = 1000000
  RetryLaunch = FALSE
CONSTRAINT TraceConstraint
INVARIANTS LaunchAtMostOnce FailedStartKills KillPost
POSTCONDITION TraceAccepted
CHECK_DEADLOCK FALSE
