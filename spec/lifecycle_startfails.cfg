SPECIFICATION Spec
CONSTANTS
  Plan = "startfails"
  MaxCalls = 5
  RetryLaunch = FALSE
INVARIANTS TypeOK LaunchAtMostOnce FailedStartKills KillPost
PROPERTIES NoLaunchAfterKill FailedStartEndsProcess
CHECK_DEADLOCK FALSE
