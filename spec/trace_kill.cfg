SPECIFICATION TSpec
CONSTANTS
  Callers = {"k1"}
  Behaviour = "prompt"
  Delay = 1
  Grace = 2
  CloseBlock = 3
  FrozenCloseOk = TRUE
  SerialiseKill = TRUE
  MaxT = 1
  Lag = 0
INVARIANT Done
CHECK_DEADLOCK FALSE
