SPECIFICATION TraceSpec
CONSTANTS
  Callers = {"k1", "k2", "k3", "k4", "k5"}
  Behaviour <- TrBehaviour
  Delay <- TrDelay
  Lag <- TrLag
  Grace = 2000
  CloseBlock = 2000
  FrozenCloseOk = TRUE
  SerialiseKill = TRUE
  MaxT = 0
CONSTRAINT TraceConstraint
INVARIANTS KillPost GracefulRespected
POSTCONDITION TraceAccepted
CHECK_DEADLOCK FALSE
