SPECIFICATION Spec
CONSTANTS
  Ids = {1, 2, 3}
  W = 2
  IssueMax = 3
  MaxT = 8
  Shared = FALSE
INVARIANTS Routing FirstCallOK
PROPERTIES DialsReturn
CHECK_DEADLOCK FALSE
