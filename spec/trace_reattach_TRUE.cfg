SPECIFICATION TSpec
CONSTANTS
  TestMode = TRUE
  MaxOps = 1000000
CONSTRAINT TraceConstraint
INVARIANTS KillKills StopsOnlyOnCancel NotFoundIffDead
POSTCONDITION TraceAccepted
CHECK_DEADLOCK FALSE
