------------------------- MODULE TraceGRPCPlainImpl -------------------------
(***************************************************************************)
(* Trace validation for the plain gRPC broker: the hook events recorded    *)
(* from a real in-process host/plugin pair (both GRPCBroker ends in one    *)
(* process, real sockets, real time), projected on one direction           *)
(* (acceptor side's accept.* events, dialer side's run / getclientstream / *)
(* dial / tw events, the driver's ret.dial), must be a behaviour of        *)
(* GRPCPlainImpl with every invariant holding at each step.  Many cases    *)
(* are packed in one log ("reset" lines).  Ids are renumbered 1..k per     *)
(* case by the harness (a bijection).  Time is the recorder's clock in ms, *)
(* W = 5000.                                                               *)
(*                                                                         *)
(* The goroutines run free, so a lock-free step can be logged after an     *)
(* event that depends on it: the message is on the wire before Accept's    *)
(* Send returns (run.recv before accept.sent), and a Dial can receive from *)
(* the slot before Run has logged its park (dial.took before run.park).    *)
(* Those steps are taken silently ahead of their log line, remembered in   *)
(* `pre`, and the line must confirm them (AllConfirmed at "end").          *)
(***************************************************************************)
EXTENDS GRPCPlainImpl, Json, IOUtils

Trace == ndJsonDeserialize(IOEnv.VERIF_TRACE)
VARIABLES l, pre
tvars == <<vars, l, pre>>
others == <<acc, astart, wire, lastMsg, rpc, rid, rgen, cur, gens, buf, done, tws, twn,
            dpc, dgen, ddl, dstart, dgot, dres, dcount, panicked>>
E == Trace[l]
Slack == 400     \* ms of scheduling latency tolerated by the in-window clause

TraceInit == Init /\ l = 1 /\ pre = {}

Same == UNCHANGED vars
Keep == UNCHANGED pre
Confirm(x) == x \in pre /\ pre' = pre \ {x} /\ Same
OnWire(n) == \E i \in 1..Len(wire) : wire[i] = n

\* time only moves forward, to the time stamp of the next event
Advance == /\ l <= Len(Trace) /\ E.ev # "reset" /\ now < E.t
           /\ now' = E.t /\ UNCHANGED <<others, l, pre>>

TReset == E.ev = "reset" /\ ResetAll /\ pre' = {}
TSkip == E.ev \in {"call.accept", "ret.accept"} /\ Same /\ Keep
\* the window of a dial is counted from the moment the caller asked, not from when its lookup got to run
TCallDial == /\ E.ev = "call.dial"
             /\ dstart' = [dstart EXCEPT ![E.a] = IF @ < 0 THEN now ELSE @]
             /\ UNCHANGED <<now, acc, astart, wire, lastMsg, rpc, rid, rgen, cur, gens, buf, done, tws, twn, dpc, dgen, ddl, dgot, dres, dcount, panicked>>
             /\ Keep

TAcceptListening == E.ev = "grpc.accept.listening" /\ AcceptListen(E.a) /\ Keep
TAcceptSent == /\ E.ev = "grpc.accept.sent"
               /\ IF E.b = 1 THEN \/ Confirm(<<"sent", E.a, 1>>)
                                  \/ <<"sent", E.a, 1>> \notin pre /\ AcceptSend(E.a) /\ Keep
                  ELSE AcceptSendFail(E.a) /\ Keep

TRunRecv == /\ E.ev = "grpc.run.recv" /\ E.b = 0
            /\ \E i \in 1..Len(wire) : wire[i] = E.a /\ RunRecv(i)
            /\ Keep
\* getClientStream is called by Run and by Dial; the log line (written under the broker lock, so
\* in the order of the lock) says whether the slot existed
TLookup == /\ E.ev = "grpc.getclientstream"
           /\ (cur[E.a] # 0) <=> (E.b = 1)
           /\ \/ rpc = "lookup" /\ rid = E.a /\ RunLookup
              \/ DialLookup(E.a)
           /\ Keep
TRunPark == /\ E.ev = "grpc.run.park"
            /\ \/ Confirm(<<"park", E.a, E.b>>)
               \/ /\ rpc = "park" /\ rid = E.a /\ (IF WouldPark THEN 1 ELSE 0) = E.b
                  /\ RunPark /\ Keep
TDialSlot == E.ev = "grpc.dial.slot" /\ dpc[E.a] = "wait" /\ Same /\ Keep
\* the logged ServiceId of the message taken is what the model's slot held (Routing is an invariant)
TDialTook == E.ev = "grpc.dial.took" /\ DialTake(E.a) /\ dgot'[E.a] = E.b /\ Keep
TDialTimeout == E.ev = "grpc.dial.timeout" /\ DialTimeout(E.a) /\ Keep
TTWDeleted == E.ev = "grpc.tw.deleted" /\ (\E t \in tws : t[1] = E.a /\ TWDelete(t)) /\ Keep

\* accept and dial within W - Slack of each other, either order: the first dial must succeed
StrictWindow(n) == /\ astart[n] >= 0 /\ dstart[n] >= 0
                   /\ astart[n] - dstart[n] < W - Slack /\ dstart[n] - astart[n] < W - Slack
TRetDial == /\ E.ev = "ret.dial" /\ dpc[E.a] = "done"
            /\ E.ok => (dres[E.a] = "ok" /\ E.served_by = E.a)           \* answered by the server accepted on this id
            /\ E.timeout => dres[E.a] = "timeout"
            /\ (StrictWindow(E.a) /\ dcount[E.a] = 1) => E.ok             \* FirstCallOK
            /\ Same /\ Keep
TEnd == E.ev = "end" /\ pre = {} /\ Same /\ Keep

\* ---- steps taken ahead of their log line ---------------------------------------------------------
AheadSend == /\ l <= Len(Trace) /\ E.ev = "grpc.run.recv" /\ E.b = 0 /\ now = E.t
             /\ acc[E.a] = "listening" /\ ~OnWire(E.a)
             /\ AcceptSend(E.a) /\ pre' = pre \cup {<<"sent", E.a, 1>>} /\ UNCHANGED l
AheadPark == /\ l <= Len(Trace) /\ E.ev = "grpc.dial.took" /\ now = E.t
             /\ rpc = "park" /\ rid = E.a /\ dpc[E.a] = "wait" /\ rgen = dgen[E.a]
             /\ pre' = pre \cup {<<"park", E.a, IF WouldPark THEN 1 ELSE 0>>}
             /\ RunPark /\ UNCHANGED l

TraceNext ==
  \/ /\ l <= Len(Trace) /\ (E.ev = "reset" \/ now = E.t) /\ l' = l + 1
     /\ (TReset \/ TSkip \/ TCallDial \/ TAcceptListening \/ TAcceptSent \/ TRunRecv \/ TLookup \/ TRunPark \/ TDialSlot
         \/ TDialTook \/ TDialTimeout \/ TTWDeleted \/ TRetDial \/ TEnd)
  \/ Advance
  \/ AheadSend \/ AheadPark
TraceSpec == TraceInit /\ [][TraceNext]_tvars

HighWater == TLCSet(1, IF l > TLCGet(1) THEN l ELSE TLCGet(1))
TraceConstraint == HighWater
TraceAccepted == /\ PrintT(<<"HIGHWATER", TLCGet(1), Len(Trace)>>)
                 /\ TLCGet(1) = Len(Trace) + 1
ASSUME TLCSet(1, 0)
=============================================================================
