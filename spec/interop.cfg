SPECIFICATION ISpec
INVARIANTS NeverOutsideAllowed MuxNeedsSupport NoSilentDowngrade
CHECK_DEADLOCK FALSE
