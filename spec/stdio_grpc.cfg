SPECIFICATION SSpec
CONSTANTS
  MaxWrites = 4
  OneFifo = TRUE
  CrossTag = FALSE
  Reuse = FALSE
  Handover = FALSE
  Requeue = FALSE
INVARIANTS Prefix NoCrossing Complete
CHECK_DEADLOCK FALSE
