--------------------------- MODULE TraceChecksum ---------------------------
(* Conformance of the real Client.Start / SecureConfig with Checksum!Gate.   *)
EXTENDS Checksum, Json, IOUtils

Obs == ndJsonDeserialize(IOEnv.VERIF_TRACE)
VARIABLES i, bad
tv == <<i, bad, cv>>

\* the observation carries the class of the configured checksum relative to the digest of the file
\* as it is when Start runs; a representative pair of that class is put through Checksum!Gate
RepSum == <<0, 1, 1>>
RepWant(class) == CASE class = "exact" -> RepSum [] class = "empty" -> <<>> [] class = "prefix" -> <<0, 1>>
                    [] class = "extended" -> <<0, 1, 1, 0>> [] class = "bitflip" -> <<0, 1, 0>> [] OTHER -> <<1, 0>>
Expected(o) == IF o.launch = "runner" THEN GatePathless(RepWant(o.class), o.hash_nil)
               ELSE Gate(RepSum, RepWant(o.class), o.hash_nil)

Conforms(o) ==
  /\ o.class \in {"exact", "empty", "prefix", "extended", "bitflip", "other"}
  /\ Class(RepSum, RepWant(o.class)) = o.class
  /\ o.out.result = Expected(o)
  /\ (o.out.result = "launch") = o.out.launched          \* executed iff the check passed ...
  /\ (o.out.result # "launch") => ~o.out.launched_late     \* ... and not a moment later either
  /\ ~o.out.other_launched                                 \* what runs is the file that was checked, never another one

TInit == /\ i = 1 /\ bad = 0 /\ sum = <<0, 0, 0>> /\ want = <<>> /\ hashNil = FALSE /\ phase = "new" /\ launched = FALSE
TNext ==
  /\ i <= Len(Obs)
  /\ i' = i + 1
  /\ IF Conforms(Obs[i]) THEN bad' = bad
     ELSE bad' = bad + 1 /\ PrintT(<<"DEVIATION", i, Obs[i].name>>)
  /\ UNCHANGED cv
TSpec == TInit /\ [][TNext]_tv
Done == (i = Len(Obs) + 1) => PrintT(<<"JUDGED", Len(Obs), "BAD", bad>>)
=============================================================================
