---------------------------- MODULE ServeStartup ----------------------------
(***************************************************************************)
(* What plugin.Serve does before it serves (server.go): check the magic    *)
(* cookie, negotiate the version, open the listener, print the handshake   *)
(* line, take over stdout/stderr, serve.  One action per step, in the      *)
(* code's order; a refused cookie ends the process with status 1.          *)
(***************************************************************************)
EXTENDS Integers, Sequences, FiniteSets, TLC

CookieEnv == {"unset", "empty", "prefix", "suffix", "case", "other", "spaced", "exact"}   \* spaced: the right value with whitespace around it
CookieCfg == {"normal", "emptykey", "emptyvalue", "blankvalue"}    \* blankvalue: configured value " " (not empty)
MuxVar == {"unset", "empty", "true", "false", "one", "garbage"}

\* the cookie is accepted iff key and value are configured and the environment has exactly the value
CookieOk(cc, ce) == cc \in {"normal", "blankvalue"} /\ ce = "exact"
\* the line has a seventh field iff the host set the multiplexing variable to anything non-empty
Fields(mv) == IF mv \in {"unset", "empty"} THEN 6 ELSE 7

VARIABLES ccfg, cenv, mux, pc, listening, lines, exit
sv == <<ccfg, cenv, mux, pc, listening, lines, exit>>

SInit == /\ ccfg \in CookieCfg /\ cenv \in CookieEnv /\ mux \in MuxVar
         /\ pc = "start" /\ listening = FALSE /\ lines = <<>> /\ exit = -1

CheckCookie == /\ pc = "start"
               /\ IF CookieOk(ccfg, cenv) THEN pc' = "cookieok" /\ exit' = exit
                                          ELSE pc' = "rejected" /\ exit' = 1
               /\ UNCHANGED <<ccfg, cenv, mux, listening, lines>>
Listen == /\ pc = "cookieok" /\ pc' = "listening" /\ listening' = TRUE /\ UNCHANGED <<ccfg, cenv, mux, lines, exit>>
PrintLine == /\ pc = "listening" /\ pc' = "printed" /\ lines' = Append(lines, Fields(mux))
             /\ UNCHANGED <<ccfg, cenv, mux, listening, exit>>
SwapStdio == /\ pc = "printed" /\ pc' = "swapped" /\ UNCHANGED <<ccfg, cenv, mux, listening, lines, exit>>
ServeIt == /\ pc = "swapped" /\ pc' = "serving" /\ UNCHANGED <<ccfg, cenv, mux, listening, lines, exit>>
SNext == CheckCookie \/ Listen \/ PrintLine \/ SwapStdio \/ ServeIt
SSpec == SInit /\ [][SNext]_sv

\* C16
NoListenerWithoutCookie == listening => CookieOk(ccfg, cenv)
NoLineWithoutCookie == Len(lines) > 0 => CookieOk(ccfg, cenv)
RefusedExitsOne == (pc = "rejected") => (exit = 1 /\ ~listening /\ lines = <<>>)
ListeningWhenAnnounced == Len(lines) > 0 => listening
OneLine == Len(lines) <= 1
SevenIffSignalled == Len(lines) = 1 => (lines[1] = 7) = (mux \notin {"unset", "empty"})

\* the order of the hook events a real plugin process logs
NextPc(p, ev) == CASE p = "start" /\ ev = "serve.cookie.ok" -> "cookieok"
                   [] p = "start" /\ ev = "serve.cookie.reject" -> "rejected"
                   [] p = "cookieok" /\ ev = "serve.listen" -> "listening"
                   [] p = "listening" /\ ev = "serve.line.printing" -> "printing"
                   [] p = "printing" /\ ev = "serve.line.printed" -> "printed"
                   [] p = "printed" /\ ev = "serve.stdio.swapped" -> "swapped"
                   [] p = "swapped" /\ ev = "serve.serving" -> "serving"
                   [] OTHER -> "BAD"
RECURSIVE RunEvents(_, _)
RunEvents(p, evs) == IF evs = <<>> THEN p ELSE IF p = "BAD" THEN "BAD" ELSE RunEvents(NextPc(p, Head(evs)), Tail(evs))
=============================================================================
