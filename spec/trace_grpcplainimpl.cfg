SPECIFICATION TraceSpec
CONSTANTS
  Ids = {1, 2, 3, 4, 5, 6, 7, 8, 9, 10, 11, 12}
  W = 5000
  IssueMax = 100000000
  MaxT = 0
  MaxGen = 4
  DialsPerId = 4
  Shared = FALSE
CONSTRAINT TraceConstraint
INVARIANTS Routing NoPanic
POSTCONDITION TraceAccepted
CHECK_DEADLOCK FALSE
