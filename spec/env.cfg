SPECIFICATION ESpec
INVARIANTS SourceAllowed Independent
CHECK_DEADLOCK FALSE
