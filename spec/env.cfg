SPECIFICATION ESpec
INVARIANTS SourceAllowed Independent HistoryIndependent
CHECK_DEADLOCK FALSE
