SPECIFICATION GSpec
CONSTANTS
  Conns = {1, 2}
  Calls = {1, 2, 3, 4}
  Kind <- MCKindTrace
  AppIdsMax = 2
  Tokens = 2
  SharedImpl = FALSE
  NoNilCheck = FALSE
  SwapStd = FALSE
INVARIANT Emit
CHECK_DEADLOCK FALSE
