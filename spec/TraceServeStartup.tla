------------------------- MODULE TraceServeStartup -------------------------
(* Conformance of a real plugin process (vplugin calling plugin.Serve) with ServeStartup. *)
EXTENDS ServeStartup, Versions, Json, IOUtils

Obs == ndJsonDeserialize(IOEnv.VERIF_TRACE)
VARIABLES i, bad
tv == <<i, bad>>

Served(o) == {o.served[k].v : k \in 1..Len(o.served)}
POf(o) == [v \in VersionsU |-> IF \E k \in 1..Len(o.served) : o.served[k].v = v
                               THEN o.served[CHOOSE k \in 1..Len(o.served) : o.served[k].v = v].proto ELSE "netrpc"]
Offered(o) == {o.offered[k] : k \in 1..Len(o.offered)}

Conforms(o) ==
  LET ok == CookieOk(o.cookie_cfg, o.cookie_env)
      evs == [k \in 1..Len(o.out.events) |-> o.out.events[k]]
      final == RunEvents("start", evs)
  IN
  /\ final # "BAD"                                          \* the steps happen in the model's order
  /\ IF ~ok
     THEN /\ o.out.exit_code = 1 /\ o.out.stdout_bytes = 0  \* status 1, nothing on stdout
          /\ final = "rejected" /\ ~o.out.socket_seen       \* no listener was opened
     ELSE /\ final = "serving"
          /\ o.out.lines = 1 /\ o.out.extra_stdout_bytes = 0                  \* exactly one line, nothing else
          /\ o.out.fields = Fields(o.mux_var)                                  \* 6 or 7 fields
          /\ o.out.core = 1
          /\ LET a == Announce(Offered(o), Served(o), POf(o), o.grpc_factory) IN
             o.out.version = a[1] /\ o.out.proto = a[2]
          /\ o.out.network = "unix"
          /\ o.out.connect_ok                                                  \* already accepting when the line appears
          /\ (o.out.cert_len > 0) = (o.tls = "auto")
          /\ (o.out.fields = 7 => o.out.mux_field = "true")

TInit == i = 1 /\ bad = 0
TNext ==
  /\ i <= Len(Obs)
  /\ i' = i + 1
  /\ IF Conforms(Obs[i]) THEN bad' = bad
     ELSE bad' = bad + 1 /\ PrintT(<<"DEVIATION", i, Obs[i].name>>)
  /\ UNCHANGED <<ccfg, cenv, mux, pc, listening, lines, exit, hostOffers, served, protoOf, grpcFactory, sentList, res>>
TSpec == TInit /\ ccfg = "normal" /\ cenv = "exact" /\ mux = "unset" /\ pc = "start" /\ listening = FALSE /\ lines = <<>> /\ exit = -1
         /\ hostOffers = {0} /\ served = {0} /\ protoOf = [v \in VersionsU |-> "netrpc"] /\ grpcFactory = FALSE /\ sentList = TRUE /\ res = NoRes
         /\ [][TNext]_<<tv, sv, vv>>
Done == (i = Len(Obs) + 1) => PrintT(<<"JUDGED", Len(Obs), "BAD", bad>>)
=============================================================================
