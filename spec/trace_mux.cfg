SPECIFICATION TraceSpec
CONSTANTS
  Dials <- TrDials
  Accepts <- TrAccepts
  AbortDials <- TrAborts
  DSide <- TrDSide
  DId <- TrDId
  ASide <- TrASide
  AId <- TrAId
  W = 5000
  IssueMax = 0
  MaxT = 0
  MaxProgress = FALSE
  FixDrain = TRUE
  FixDrop = TRUE
  AllowDown = TRUE
  MaxNextId = 1000000
  Exact = TRUE
CONSTRAINT TraceConstraint
INVARIANTS Routing AckMatches NoBadAck NoPanic NoWedge AllConfirmed
POSTCONDITION TraceAccepted
CHECK_DEADLOCK FALSE
