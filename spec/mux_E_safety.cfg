SPECIFICATION Spec
CONSTANTS
  Dials <- DialsE
  Accepts <- AcceptsE
  AbortDials <- AbortsE
  DSide <- CSide
  DId <- CId
  ASide <- CSide
  AId <- CId
  W = 0
  IssueMax = 0
  MaxT = 0
  MaxProgress = FALSE
  FixDrain = TRUE
  FixDrop = TRUE
  AllowDown = FALSE
  MaxNextId = 1
INVARIANTS TypeOK Routing AckMatches NoBadAck NoPanic NoWedge LockFree

CHECK_DEADLOCK FALSE
