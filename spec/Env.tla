-------------------------------- MODULE Env --------------------------------
(***************************************************************************)
(* The environment handed to the launched plugin (client.go, Start).       *)
(* Variables are abstract names; the child's effective value of a variable *)
(* is the last assignment in cmd.Env.  Layers, in the order the code       *)
(* appends them: the caller's own cmd.Env (preset), the host process       *)
(* environment (unless SkipHostEnv; the host's PLUGIN_CLIENT_CERT and      *)
(* PLUGIN_MULTIPLEX_GRPC are not passed on), then what the client sets.    *)
(* Allowed(v, cfg, host) is the set of sources the property permits for    *)
(* the effective value of v.                                               *)
(***************************************************************************)
EXTENDS Integers, FiniteSets, TLC

Vars == {"COOKIE", "MIN", "MAX", "VERS", "CERT", "MUX", "GROUP", "DIR", "HOSTX"}
\* relaunch: the ClientConfig has already been used for an earlier launch (a restart with the same
\* config struct, in which the first Start stored its generated TLS configuration); presettls: the
\* caller supplied a TLSConfig of its own.  Neither may change what the plugin is given.
Cfgs == [automtls : BOOLEAN, mux : BOOLEAN, group : BOOLEAN, runner : BOOLEAN, skip : BOOLEAN,
         relaunch : BOOLEAN, presettls : BOOLEAN]
Hosts == [Vars -> BOOLEAN]          \* TRUE: the host's own environment has a (conflicting) value

\* does this client set the variable?
ClientSets(v, c) == CASE v \in {"COOKIE", "MIN", "MAX", "VERS"} -> TRUE
                      [] v = "CERT" -> c.automtls
                      [] v = "MUX" -> c.mux
                      [] v = "GROUP" -> c.group
                      [] v = "DIR" -> c.runner
                      [] OTHER -> FALSE
\* is the host's value passed on?
HostPasses(v, c, h) == ~c.skip /\ h[v] /\ v \notin {"CERT", "MUX"}

\* the code: last assignment wins
Source(v, c, h) == IF ClientSets(v, c) THEN "client" ELSE IF HostPasses(v, c, h) THEN "host" ELSE "absent"

\* the property
Allowed(v, c, h) ==
  CASE v \in {"COOKIE", "MIN", "MAX", "VERS"} -> {"client"}                 \* always this client's values
    [] v = "CERT" -> IF c.automtls THEN {"client"} ELSE {"absent"}          \* a certificate exactly when AutoMTLS is on
    [] v = "MUX" -> IF c.mux THEN {"client"} ELSE {"absent"}                \* the flag exactly when requested
    [] v = "GROUP" -> IF c.group THEN {"client"} ELSE IF c.skip THEN {"absent"} ELSE {"absent", "host"}
    [] v = "DIR" -> IF c.runner THEN {"client"} ELSE IF c.skip THEN {"absent"} ELSE {"absent", "host"}
    [] OTHER -> IF c.skip THEN {"absent"} ELSE IF h[v] THEN {"host"} ELSE {"absent"}  \* SkipHostEnv: nothing of the host's

VARIABLES cfg, host, done
ev == <<cfg, host, done>>
EInit == cfg \in Cfgs /\ host \in Hosts /\ done = FALSE
ENext == ~done /\ done' = TRUE /\ UNCHANGED <<cfg, host>>
ESpec == EInit /\ [][ENext]_ev
\* the code's rule yields only permitted sources, for every configuration and host environment
SourceAllowed == \A v \in Vars : Source(v, cfg, host) \in Allowed(v, cfg, host)
\* what the plugin is given does not depend on the config's history or on a caller-supplied TLSConfig
HistoryIndependent == \A v \in Vars : \A r, p \in BOOLEAN :
                        Source(v, cfg, host) = Source(v, [cfg EXCEPT !.relaunch = r, !.presettls = p], host)
\* the negotiation variables never depend on the host's environment
Independent == \A v \in {"COOKIE", "MIN", "MAX", "VERS", "CERT", "MUX"} :
                 Source(v, cfg, host) = Source(v, cfg, [x \in Vars |-> FALSE])
=============================================================================
