-------------------------- MODULE TraceGRPCMuxImpl --------------------------
(***************************************************************************)
(* Trace validation for the multiplexed gRPC broker: the hook events of a  *)
(* real in-process host/plugin pair (GRPCBroker on both sides, the two     *)
(* muxers, the blocked listeners; real yamux sessions, real time),         *)
(* projected on one direction, must be a behaviour of GRPCMuxImpl.         *)
(* AcceptorIsPlugin = TRUE: traces of host-dials-plugin establishments;    *)
(* FALSE: plugin-dials-host.  Cases are packed ("reset" lines); ids are    *)
(* renumbered 1..k per case in the order the establishments start.         *)
(*                                                                         *)
(* Steps without a hook are silent (taking the dial mutex, gRPC's backoff  *)
(* before a re-dial, a routed stream reaching the brokered listener's      *)
(* Accept, the session Accept of an unblocked listener, a stuck unblock    *)
(* getting through).  Steps whose log line is written after their effect   *)
(* can be seen by another goroutine (a message is on the wire before Send  *)
(* returns; a parked message can be taken before the park is logged; a     *)
(* stream is opened before muxDial logs it) are taken ahead of their line  *)
(* and confirmed by it (`pre`, empty again at "end").                      *)
(*                                                                         *)
(* Strict = TRUE adds the clauses of C08 on what the caller saw: answered  *)
(* by the server accepted on the same id, and on the first attempt when    *)
(* accept and dial were issued well inside the window.  Strict = FALSE is  *)
(* used for the late-accept histories (known findings F14/F15): there the  *)
(* trace only has to be a behaviour of the model -- which it is, wrong     *)
(* server included: the model predicts which listener answers.             *)
(***************************************************************************)
EXTENDS GRPCMuxImpl, Json, IOUtils

CONSTANTS Strict
Trace == ndJsonDeserialize(IOEnv.VERIF_TRACE)
VARIABLES l, pre
tvars == <<vars, l, pre>>
others == <<dvars, ackv, avars, smux, cmux, net, runv>>
E == Trace[l]
Slack == 400

TraceInit == Init /\ l = 1 /\ pre = {}
Same == UNCHANGED vars
Keep == UNCHANGED pre
Confirm(x) == x \in pre /\ pre' = pre \ {x} /\ Same
Ahead(x) == pre' = pre \cup {x} /\ UNCHANGED l
Cur(ev) == l <= Len(Trace) /\ E.ev = ev /\ now = E.t

Advance == /\ l <= Len(Trace) /\ E.ev # "reset" /\ now < E.t
           /\ now' = E.t /\ UNCHANGED <<others, l, pre>>

TReset == E.ev = "reset" /\ ResetAll /\ pre' = {}
TSkip == E.ev \in {"call.accept", "ret.accept", "mux.listener.enter"} /\ Same /\ Keep
TEnd == E.ev = "end" /\ pre = {} /\ Same /\ Keep

\* ---- dialer ----------------------------------------------------------------------------------------
TCallDial == E.ev = "call.dial" /\ DStart(E.a) /\ UNCHANGED runv /\ Keep
\* the caller dials an id again after its earlier dial gave up: for the broker this is one more attempt
\* (gRPC's own re-dial does the same), the model's retry path
TCallDialAgain == /\ E.ev = "call.dial" /\ dpc[E.a] \notin {"idle", "ok", "wrong"} /\ dres[E.a] = "gaveup"
                  /\ dres' = [dres EXCEPT ![E.a] = "none"]
                  /\ UNCHANGED <<now, dpc, datt, ddl, dstart, dmutex, dgen, ackv, avars, smux, cmux, net, runv>>
                  /\ Keep
TKnockSent == E.ev = "grpc.knock.sent"
              /\ \/ Confirm(<<"knock", E.a>>)
                 \/ <<"knock", E.a>> \notin pre /\ DKnockSend(E.a) /\ UNCHANGED runv /\ Keep
\* the ack slot is looked up by knock() and by the dialer side's Run loop; logged under the broker lock
TLookup == /\ E.ev = "grpc.getclientstream"
           /\ ackExists[E.a] <=> (E.b = 1)
           /\ \/ DKnockSlot(E.a) /\ UNCHANGED runv
              \/ drpc = "lookup" /\ drcur[1] = E.a /\ DRunLookup
           /\ Keep
TDRunRecv == E.ev = "d.run.recv" /\ msgAD # <<>> /\ Head(msgAD)[1] = E.a /\ DRunRecv /\ Keep
TDRunPark == E.ev = "d.run.park"
             /\ \/ Confirm(<<"dpark", E.a, E.b>>)
                \/ drpc = "park" /\ drcur[1] = E.a /\ (IF DWouldPark THEN 1 ELSE 0) = E.b /\ DRunPark /\ Keep
TKnockAck == E.ev = "grpc.knock.ack" /\ (ackCh[E.a] = "ok") = (E.b = 1) /\ DAck(E.a) /\ UNCHANGED runv /\ Keep
TKnockTimeout == E.ev = "grpc.knock.timeout" /\ DTimeout(E.a) /\ UNCHANGED runv /\ Keep
TOpened == E.ev = "grpc.muxdial.opened"
           /\ \/ Confirm(<<"open", E.a>>)
              \/ <<"open", E.a>> \notin pre /\ DOpen(E.a) /\ UNCHANGED runv /\ Keep
TTWDeleted == E.ev = "grpc.tw.deleted" /\ (\E t \in tws : t[1] = E.a /\ TWFire(t)) /\ UNCHANGED runv /\ Keep

\* ---- acceptor --------------------------------------------------------------------------------------
TAcceptSlot == E.ev = "grpc.accept.slot" /\ AStart(E.a) /\ UNCHANGED runv /\ Keep
TRegistered == E.ev \in {"smux.listener", "cmux.listener"} /\ ARegister(E.a) /\ UNCHANGED runv /\ Keep
TAcceptListener == E.ev = "grpc.accept.listener" /\ registered[E.a] /\ Same /\ Keep
TAcceptLFK == E.ev = "grpc.accept.lfk"
              /\ \/ Confirm(<<"lfk", E.a>>)
                 \/ <<"lfk", E.a>> \notin pre /\ ASpawnLFK(E.a) /\ UNCHANGED runv /\ Keep
TARunRecv == E.ev = "a.run.recv" /\ msgDA # <<>> /\ Head(msgDA) = E.a /\ ARunRecv /\ Keep
TARunPark == E.ev = "a.run.park"
             /\ \/ Confirm(<<"apark", E.a, E.b>>)
                \/ arpc = "park" /\ arcur = E.a /\ (IF AWouldPark THEN 1 ELSE 0) = E.b /\ ARunPark /\ Keep
TLfkTook == E.ev = "grpc.lfk.took" /\ LTake(E.a) /\ UNCHANGED runv /\ Keep
TSmuxAcceptKnock == E.ev = "smux.acceptknock" /\ LAcceptKnockPlugin(E.a) /\ UNCHANGED runv /\ Keep
TCmuxAcceptKnock == E.ev = "cmux.acceptknock" /\ registered[E.a] = (E.b = 1) /\ LAcceptKnockHost(E.a) /\ UNCHANGED runv /\ Keep
TLfkAccepted == E.ev = "grpc.lfk.accepted" /\ lfk[E.a] = "ack" /\ lfkErr[E.a] = (E.b = 0) /\ Same /\ Keep
TLfkAcked == E.ev = "grpc.lfk.acked"
             /\ \/ Confirm(<<"ack", E.a, E.b>>)
                \/ /\ <<"ack", E.a, E.b>> \notin pre /\ lfkErr[E.a] = (E.b = 0)
                   /\ LSendAck(E.a) /\ UNCHANGED runv /\ Keep
TSmuxConn == E.ev = "smux.accept.conn" /\ E.b = 1 /\ SAccept /\ UNCHANGED runv /\ Keep
TSmuxRoute == /\ E.ev = "smux.route" /\ spc = "route"
              /\ CASE E.b = 1 -> knockCh = E.a /\ registered[E.a]
                   [] E.b = 0 -> knockCh = 0
                   [] OTHER -> knockCh = E.a /\ ~registered[E.a]
              /\ SRoute /\ UNCHANGED runv /\ Keep
TUnblocked == E.ev = "bcl.unblocked" /\ (\E n \in Ids : BLUnblock(n)) /\ UNCHANGED runv /\ Keep

\* ---- what the caller saw ---------------------------------------------------------------------------
StrictWindow(n) == /\ astart[n] >= 0 /\ dstart[n] >= 0
                   /\ astart[n] - dstart[n] < W - Slack /\ dstart[n] - astart[n] < W - Slack
\* the first call on the brokered connection was answered by the listener the model hands the stream to
TRetDialOK == /\ E.ev = "ret.dial" /\ E.ok
              /\ DResult(E.a) /\ UNCHANGED runv
              /\ \E i \in Served(E.a) : served[i][2] = E.served_by
              /\ Strict => (E.served_by = E.a /\ (StrictWindow(E.a) => datt[E.a] = 0))
              /\ Keep
TRetDialErr == /\ E.ev = "ret.dial" /\ ~E.ok
               /\ Strict => ~StrictWindow(E.a)
               /\ dres' = [dres EXCEPT ![E.a] = IF dpc[E.a] \in {"ok", "wrong", "fail"} THEN @ ELSE "gaveup"]
               /\ UNCHANGED <<now, dpc, datt, ddl, dstart, dmutex, dgen, ackv, avars, smux, cmux, net, runv>>
               /\ Keep

\* ---- silent steps ----------------------------------------------------------------------------------
Silent == /\ l <= Len(Trace) /\ UNCHANGED <<l, pre, runv>>
          /\ \E n \in Ids : DLock(n) \/ DBackoffDone(n) \/ LUnstick(n) \/ BLSessAccept(n)
SilentHandoff == l <= Len(Trace) /\ SHandoff /\ UNCHANGED <<l, pre, runv>>
\* taken ahead of their own log line
AheadKnock == /\ Cur("a.run.recv") /\ dpc[E.a] = "knock" /\ msgDA = <<>>
              /\ DKnockSend(E.a) /\ UNCHANGED runv /\ Ahead(<<"knock", E.a>>)
\* the knock listener is a goroutine of its own: it can take a pending knock before Accept logs having started it
AheadSpawnLFK == /\ Cur("grpc.lfk.took") /\ apc[E.a] = (IF FixOrder THEN "lfk2" ELSE "slot")
                 /\ ASpawnLFK(E.a) /\ UNCHANGED runv /\ Ahead(<<"lfk", E.a>>)
AheadAPark == /\ Cur("grpc.lfk.took") /\ arpc = "park" /\ arcur = E.a
              /\ Ahead(<<"apark", E.a, IF AWouldPark THEN 1 ELSE 0>>) /\ ARunPark
AheadAck == /\ Cur("d.run.recv") /\ lfk[E.a] = "ack" /\ msgAD = <<>>
            /\ Ahead(<<"ack", E.a, IF lfkErr[E.a] THEN 0 ELSE 1>>) /\ LSendAck(E.a) /\ UNCHANGED runv
AheadDPark == /\ Cur("grpc.knock.ack") /\ drpc = "park" /\ drcur[1] = E.a
              /\ Ahead(<<"dpark", E.a, IF DWouldPark THEN 1 ELSE 0>>) /\ DRunPark
AheadOpen == /\ l <= Len(Trace) /\ E.ev \in {"smux.accept.conn", "bcl.unblocked", "ret.dial"} /\ now = E.t
             /\ \E n \in Ids : dpc[n] = "open" /\ DOpen(n) /\ UNCHANGED runv /\ Ahead(<<"open", n>>)

\* an event about an id names one of the case's ids (anything else is not a behaviour, not an evaluation error)
IdOK == E.ev \in {"reset", "end", "bcl.unblocked", "smux.accept.conn", "smux.route", "call.accept", "ret.accept", "mux.listener.enter"} \/ E.a \in Ids
TraceNext ==
  \/ /\ l <= Len(Trace) /\ (E.ev = "reset" \/ now = E.t) /\ l' = l + 1 /\ IdOK
     /\ (TReset \/ TSkip \/ TEnd \/ TCallDial \/ TCallDialAgain \/ TKnockSent \/ TLookup \/ TDRunRecv \/ TDRunPark \/ TKnockAck \/ TKnockTimeout
         \/ TOpened \/ TTWDeleted \/ TAcceptSlot \/ TRegistered \/ TAcceptListener \/ TAcceptLFK \/ TARunRecv \/ TARunPark
         \/ TLfkTook \/ TSmuxAcceptKnock \/ TCmuxAcceptKnock \/ TLfkAccepted \/ TLfkAcked \/ TSmuxConn \/ TSmuxRoute
         \/ TUnblocked \/ TRetDialOK \/ TRetDialErr)
  \/ Advance
  \/ Silent \/ SilentHandoff
  \/ AheadKnock \/ AheadSpawnLFK \/ AheadAPark \/ AheadAck \/ AheadDPark \/ AheadOpen
TraceSpec == TraceInit /\ [][TraceNext]_tvars

HighWater == TLCSet(1, IF l > TLCGet(1) THEN l ELSE TLCGet(1))
TraceConstraint == HighWater
TraceAccepted == /\ PrintT(<<"HIGHWATER", TLCGet(1), Len(Trace)>>)
                 /\ TLCGet(1) = Len(Trace) + 1
ASSUME TLCSet(1, 0)
=============================================================================
