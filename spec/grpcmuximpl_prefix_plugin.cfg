SPECIFICATION Spec
CONSTANTS
  Ids = {1, 2}
  AcceptorIsPlugin = TRUE
  FixOrder = FALSE
  W = 2
  IssueMax = 1
  MaxT = 6
  MaxAttempts = 1
INVARIANTS MainAlive
CHECK_DEADLOCK FALSE
