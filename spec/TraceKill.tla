------------------------------ MODULE TraceKill ------------------------------
(***************************************************************************)
(* C04 on real processes: each log line is one Kill pattern (single,       *)
(* repeated, concurrent, CleanupClients) against a real plugin process     *)
(* with a configured shutdown behaviour.  What Kill.tla establishes for    *)
(* the model (KillPost, GracefulRespected, MarkerIffGraceful, Bounded) is  *)
(* required of every observed run, with the model's ticks turned into      *)
(* milliseconds (grace period 2000, close request on a frozen gRPC plugin  *)
(* 2000, on a frozen net/rpc plugin up to the yamux keep-alive).           *)
(***************************************************************************)
EXTENDS Kill, Json, IOUtils

Obs == ndJsonDeserialize(IOEnv.VERIF_TRACE)
VARIABLES i, bad
tv == <<i, bad>>

SlackMs == 1500
GraceMs == 2000
CloseBlockMs(o) == IF o.proto = "netrpc" THEN 45000 ELSE 2000
\* Kill!OneKill in milliseconds for the observed behaviour
OneKillMs(o) ==
  (IF o.behaviour = "frozen" THEN CloseBlockMs(o) ELSE 0)
  + (IF o.behaviour \in {"ignore", "frozen"} THEN GraceMs ELSE IF o.behaviour = "delay" THEN o.delay_ms ELSE 0)
  + (IF o.launch \in {"reattach", "foreign"} THEN 1000 ELSE 0)   \* the reattached client polls the pid once a second
\* (brokerbusy_h / brokerbusy_p: a prompt plugin with a call in flight on a brokered connection, served by the host / by the plugin)
MarkerExpected(o) == o.behaviour \in {"prompt", "busy", "delay", "brokerbusy_h", "brokerbusy_p"}

Conforms(o) ==
  /\ o.out.start_ok /\ ~o.out.panic
  /\ Len(o.out.kill_ms) >= 1
  /\ o.out.max_ms <= OneKillMs(o) + SlackMs          \* Bounded
  /\ o.out.all_gone /\ o.out.all_exited               \* KillPost: exited, reaped, reported as exited -- when EACH call returns
  /\ o.out.marker = MarkerExpected(o)                 \* GracefulRespected / MarkerIffGraceful

TInit == i = 1 /\ bad = 0
TNext ==
  /\ i <= Len(Obs)
  /\ i' = i + 1
  /\ IF Conforms(Obs[i]) THEN bad' = bad
     ELSE bad' = bad + 1 /\ PrintT(<<"DEVIATION", i, Obs[i].name>>)
  /\ UNCHANGED kv
TSpec == TInit /\ KInit /\ [][TNext]_<<tv, kv>>
Done == (i = Len(Obs) + 1) => PrintT(<<"JUDGED", Len(Obs), "BAD", bad>>)
=============================================================================
