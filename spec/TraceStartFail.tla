--------------------------- MODULE TraceStartFail ---------------------------
(***************************************************************************)
(* C05 on real processes: each log line is one Start that must fail after  *)
(* the plugin process was launched (cause "line": a handshake line of a    *)
(* class that Handshake!Decide rejects; or silence until the timeout, half *)
(* a line, exit before output, stdout closed while alive), followed by the *)
(* observations the property is about.                                     *)
(***************************************************************************)
EXTENDS Handshake, Json, IOUtils

Obs == ndJsonDeserialize(IOEnv.VERIF_TRACE)
VARIABLES i, bad
tv == <<i, bad, hvars>>

L(o) == [n |-> o.line.n, core |-> o.line.core, ver |-> o.line.ver, net |-> o.line.net, addr |-> o.line.addr,
         proto |-> o.line.proto, cert |-> o.line.cert, mux |-> o.line.mux, ws |-> o.line.ws]
C(o) == [allowed |-> o.cfg.allowed, tls |-> o.cfg.tls, muxreq |-> o.cfg.muxreq]

\* "mismatch": a real serving plugin (its socket already exists) that this host turns down because of its own configuration
\* "tinytimeout": a start timeout shorter than it takes to spawn the process
Causes == {"line", "mismatch", "silent", "tinytimeout", "partial", "exitearly", "closeout", "closeboth"}
StartTimeoutMs == 1500
Slack == 1500

Conforms(o) ==
  /\ o.cause \in Causes
  /\ (o.cause = "line" => (Canonical(L(o)) /\ Decide(L(o), C(o)) = {Err}))  \* the case really is a rejected line
  /\ o.out.launched
  /\ ~o.out.start_ok                                       \* Start reports the failure ...
  /\ o.out.start_ms <= StartTimeoutMs + Slack              \* ... in bounded time
  /\ o.out.pid_gone /\ o.out.pid_gone_ms <= 1000           \* the process is terminated by then or shortly after
  /\ (o.launch = "runner" => o.out.kills_at_return >= 1)   \* the runner was told to kill before Start returned
  /\ o.out.kill_ms <= 1000                                 \* a later Kill returns promptly
  /\ o.out.exited_after_kill
  /\ ~o.out.tmp_present_after_kill                         \* and removes the custom runner's socket directory
  /\ o.out.other_ok                                        \* ... its own, not that of another client sharing the socket configuration

TInit == i = 1 /\ bad = 0 /\ line = L(Obs[1]) /\ cfg = C(Obs[1]) /\ out = Err /\ decided = FALSE
TNext ==
  /\ i <= Len(Obs)
  /\ i' = i + 1
  /\ IF Conforms(Obs[i]) THEN bad' = bad
     ELSE bad' = bad + 1 /\ PrintT(<<"DEVIATION", i, Obs[i].name>>)
  /\ UNCHANGED hvars
TSpec == TInit /\ [][TNext]_tv
Done == (i = Len(Obs) + 1) => PrintT(<<"JUDGED", Len(Obs), "BAD", bad>>)
=============================================================================
