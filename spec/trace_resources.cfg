SPECIFICATION TSpec
CONSTANTS
  Proto = "grpc"
  Mux = FALSE
  Runner = FALSE
  MaxOps = 1
  LeakMainOnMux = FALSE
  LeakPluginBrokered = FALSE
INVARIANT Done
CHECK_DEADLOCK FALSE
