SPECIFICATION Spec
CONSTANTS
  Plan = "exitearly"
  MaxCalls = 5
  RetryLaunch = FALSE
INVARIANTS TypeOK LaunchAtMostOnce FailedStartKills KillPost
PROPERTIES NoLaunchAfterKill FailedStartEndsProcess
CHECK_DEADLOCK FALSE
