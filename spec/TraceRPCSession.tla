--------------------------- MODULE TraceRPCSession ---------------------------
(***************************************************************************)
(* Trace validation for the net/rpc session layer: one real RPCServer      *)
(* (RPCServer.Serve on a Unix listener, its Stdout / Stderr two pipes the  *)
(* driver writes numbered records to), up to three real RPCClients         *)
(* connected to it, goroutines calling Dispense at once, the plugin's own  *)
(* code calling NextId on the server-side brokers, clients closing in some *)
(* order.  The recorded events -- the driver's call / return lines, the    *)
(* lines written by the plugin implementations' Server(), the hook points  *)
(* rpc.dispense.id and rpc.quit, the records the hosts' sync writers       *)
(* receive -- must be a behaviour of RPCSession with every invariant       *)
(* holding at each step.  Cases are packed in one log ("reset" lines).     *)
(*                                                                         *)
(* Not logged, inferred by TLC: the three stream opens / accepts of a      *)
(* connection (silent, at most four steps per side and connection), which  *)
(* copier goroutine read a record from the plugin's pipe (silent SRead),   *)
(* which connection a server-side broker object belongs to (objconn, bound *)
(* the first time the object is seen and fixed from then on), which call   *)
(* a handed-out id belongs to.  NextId is lock-free, so two ids can be     *)
(* logged in the opposite order of their allocation: the earlier one is    *)
(* allocated silently ahead of its line, remembered in pre, and its line   *)
(* must confirm it (pre = {} at "end").                                    *)
(***************************************************************************)
EXTENDS RPCSession, Json, IOUtils

Trace == ndJsonDeserialize(IOEnv.VERIF_TRACE)
Objs == 1..4
VARIABLES l, pre, objconn
tvars == <<vars, l, pre, objconn>>
E == Trace[l]

TraceInit == Init /\ l = 1 /\ pre = {} /\ objconn = [o \in Objs |-> 0]

Same == UNCHANGED vars
Keep == UNCHANGED <<pre, objconn>>
Confirm(x) == x \in pre /\ pre' = pre \ {x} /\ Same /\ UNCHANGED objconn
\* a broker object belongs to one connection, and a connection has one
Bind(o, c) == \/ objconn[o] = c /\ UNCHANGED objconn
              \/ /\ objconn[o] = 0 /\ \A o2 \in Objs : objconn[o2] # c
                 /\ objconn' = [objconn EXCEPT ![o] = c]

TReset == E.ev = "reset" /\ ResetAll /\ pre' = {} /\ objconn' = [o \in Objs |-> 0]
TUp == E.ev = "up" /\ cph[E.c] = 4 /\ Same /\ Keep
TCall == E.ev = "call" /\ CallDispense(E.k, E.c, E.name) /\ Keep
\* the implementation's Server() ran for a call of this name (the line is written inside Server, under the
\* driver's lock that also numbers the objects made)
TSrvNew == /\ E.ev = "srvnew"
           /\ \E k \in Calls : /\ call[k].st = "sent" /\ call[k].name = E.name /\ Kind[E.name] = "ok"
                               /\ Bind(E.obj, call[k].conn) /\ SCreate(k)
           /\ Len(impl') = E.inst /\ UNCHANGED pre
TSrvFail == /\ E.ev = "srvfail"
            /\ \E k \in Calls : /\ call[k].st = "sent" /\ call[k].name = E.name /\ Kind[E.name] = "fail"
                                /\ Bind(E.obj, call[k].conn) /\ SCreate(k)
            /\ UNCHANGED pre
TId == /\ E.ev = "id" /\ objconn[E.obj] # 0
       /\ LET c == objconn[E.obj] IN
          \/ Confirm(<<"id", c, E.id>>)
          \/ /\ <<"id", c, E.id>> \notin pre /\ nextid[c] = E.id
             /\ \E k \in Calls : call[k].conn = c /\ SAlloc(k)
             /\ Keep
TAppId == /\ E.ev = "appid" /\ objconn[E.obj] # 0
          /\ LET c == objconn[E.obj] IN
             \/ Confirm(<<"appid", c, E.id>>)
             \/ <<"appid", c, E.id>> \notin pre /\ nextid[c] = E.id /\ SAppId(c) /\ Keep
\* Dispense returned: an implementation answered on the dialled connection -- it has to be the one made for a
\* call of this name on this connection -- or an error, which only the names that cannot be served and calls
\* cut off by a Close may get
TRet == /\ E.ev = "ret"
        /\ IF E.ok
             THEN /\ call[E.k].st = "replied" /\ CDial(E.k)
                  /\ call'[E.k].bound = E.inst /\ E.rname = call[E.k].name
             ELSE \/ call[E.k].st = "err" /\ Same
                  \/ call[E.k].st = "sent" /\ Kind[call[E.k].name] = "sunknown" /\ SCreate(E.k)
                  \/ CallFails(E.k)
        /\ Keep
TWrite == E.ev = "write" /\ SWrite(E.s) /\ wrote'[E.s] = E.n /\ Keep
TGot == /\ E.ev = "got" /\ chan[E.c][E.s] # <<>> /\ Head(chan[E.c][E.s]) = <<E.ts, E.tn>>
        /\ CDeliver(E.c, E.s) /\ Keep
\* (Close asks the server to quit and waits for the answer: the server side of the connection is up by then)
\* the host's copier had read a record from its stream when Close returned and writes it just afterwards: the
\* record, counted as gone with the connection, reaches the writer after all (same stream, nothing after it)
TGotLate == /\ E.ev = "got" /\ cph[E.c] = 5 /\ E.c \notin draining
            /\ E.ts = E.s /\ <<E.ts, E.tn>> \in lost
            /\ lost' = lost \ {<<E.ts, E.tn>>}
            /\ got' = [got EXCEPT ![E.c][E.s] = Append(@, <<E.ts, E.tn>>)]
            /\ UNCHANGED <<sessVars, dispVars, pipe, wrote, chan, quitVars>> /\ Keep
TClose == E.ev = "close" /\ sph[E.c] = 4 /\ CClose(E.c) /\ Keep
TClosed == E.ev = "closed" /\ CCloseEnd(E.c) /\ Keep
TQuit == E.ev = "quit" /\ (\E c \in Conns : SQuit(c)) /\ Keep
TDoneCh == E.ev = "donech" /\ done /\ Same /\ Keep
TLoopEnd == E.ev = "loopend" /\ LoopEnd /\ Keep
\* at the end: every early step confirmed, no call left hanging, every record written is accounted for
TEnd == /\ E.ev = "end" /\ pre = {}
        /\ \A k \in Calls : call[k].st \in {"idle", "ok", "err"}
        /\ E.complete => \A s \in Streams : \A n \in 1..wrote[s] : <<s, n>> \in (AllGot(s) \cup lost)
        /\ Same /\ Keep

\* ---- silent steps --------------------------------------------------------------------------------
SilentClient == /\ l <= Len(Trace) /\ E.ev = "up"
                /\ (COpen(E.c) \/ CBrokerUp(E.c)) /\ UNCHANGED <<l, pre, objconn>>
SilentServer == /\ l <= Len(Trace) /\ E.ev \in {"srvnew", "srvfail", "ret", "got", "close"}
                /\ (\E c \in Conns : SAccept(c) \/ SServe(c)) /\ UNCHANGED <<l, pre, objconn>>
SilentRead == /\ l <= Len(Trace) /\ E.ev = "got"
              /\ (\E c \in Conns, s \in Streams : SRead(c, s)) /\ UNCHANGED <<l, pre, objconn>>
\* an id allocated before one whose line comes first
AheadAlloc == /\ l <= Len(Trace) /\ E.ev \in {"id", "appid"} /\ objconn[E.obj] # 0
              /\ LET c == objconn[E.obj] IN
                 /\ nextid[c] < E.id
                 /\ \/ /\ \E k \in Calls : call[k].conn = c /\ SAlloc(k)
                       /\ pre' = pre \cup {<<"id", c, nextid[c]>>}
                    \/ /\ SAppId(c)
                       /\ pre' = pre \cup {<<"appid", c, nextid[c]>>}
              /\ UNCHANGED <<l, objconn>>

TraceNext ==
  \/ /\ l <= Len(Trace) /\ l' = l + 1
     /\ (TReset \/ TUp \/ TCall \/ TSrvNew \/ TSrvFail \/ TId \/ TAppId \/ TRet \/ TWrite \/ TGot \/ TGotLate
         \/ TClose \/ TClosed \/ TQuit \/ TDoneCh \/ TLoopEnd \/ TEnd)
  \/ SilentClient \/ SilentServer \/ SilentRead \/ AheadAlloc
TraceSpec == TraceInit /\ [][TraceNext]_tvars

HighWater == TLCSet(1, IF l > TLCGet(1) THEN l ELSE TLCGet(1))
TraceConstraint == HighWater
TraceAccepted == /\ PrintT(<<"HIGHWATER", TLCGet(1), Len(Trace)>>)
                 /\ TLCGet(1) = Len(Trace) + 1
ASSUME TLCSet(1, 0)

=============================================================================
