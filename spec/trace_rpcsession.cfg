SPECIFICATION TraceSpec
CONSTANTS
  Conns = {1, 2, 3}
  Calls = {1, 2, 3, 4, 5, 6, 7, 8, 9, 10}
  Kind <- MCKindTrace
  AppIdsMax = 10
  Tokens = 12
  SharedImpl = FALSE
  NoNilCheck = FALSE
  SwapStd = FALSE
CONSTRAINT TraceConstraint
INVARIANTS DispenseRouting OneImplPerDispense UnknownIsError IdsUnique StdioNotCrossed StdioInOrder StdioOnce DoneOnce
POSTCONDITION TraceAccepted
CHECK_DEADLOCK FALSE
