SPECIFICATION Spec
CONSTANTS
  Conns = {1, 2}
  Calls = {1}
  Kind <- MCKindSmall
  AppIdsMax = 0
  Tokens = 2
  SharedImpl = FALSE
  NoNilCheck = FALSE
  SwapStd = FALSE
INVARIANTS TypeOK RolesAgree DispenseRouting StdioNotCrossed StdioInOrder StdioOnce DoneOnce
CHECK_DEADLOCK FALSE
