SPECIFICATION RSpec
CONSTANTS
  Proto = "grpc"
  Mux = TRUE
  Runner = FALSE
  MaxOps = 4
  LeakMainOnMux = FALSE
  LeakPluginBrokered = FALSE
INVARIANT NoLeak
CHECK_DEADLOCK FALSE
