------------------------------ MODULE TraceMTLS ------------------------------
(* C12 on real processes: connection attempts against the sockets of a real AutoMTLS pair.        *)
EXTENDS MTLS, Json, IOUtils, Sequences

Obs == ndJsonDeserialize(IOEnv.VERIF_TRACE)
VARIABLES i, bad

AttemptOK(o, a) ==
  /\ a.listener \in Listeners /\ a.cred \in Creds /\ HasListener(a.listener, o.proto)
  /\ a.served = Served(a.listener, o.proto, a.cred)        \* served iff it is the launched pair's credential

Conforms(o) ==
  /\ o.out.setup_ok
  /\ IF o.kind = "impostor"
     THEN /\ o.impostor \in ImpostorModes                      \* the host refuses a plugin that serves with another certificate or none
          /\ o.out.first_use_ok = HostUses(Announced(o.impostor), Presented(o.impostor))
          /\ (o.impostor = "replay") => o.out.first_launch_ok     \* (the earlier, honest launch did work)
     ELSE IF o.kind = "mangled"
     THEN \* the host's certificate reached the plugin damaged: it may refuse to serve, but must not serve anybody
          \* who cannot prove to be the launching host (and nobody here can)
          \A k \in 1..Len(o.out.attempts) : ~o.out.attempts[k].served
     ELSE /\ Len(o.out.attempts) >= 1
          /\ \A k \in 1..Len(o.out.attempts) : AttemptOK(o, o.out.attempts[k])
          /\ o.out.legit_ok_before /\ o.out.legit_ok_after   \* the legitimate pair works, before and after the intrusions

TInit == i = 1 /\ bad = 0
TNext ==
  /\ i <= Len(Obs)
  /\ i' = i + 1
  /\ IF Conforms(Obs[i]) THEN bad' = bad
     ELSE bad' = bad + 1 /\ PrintT(<<"DEVIATION", i, Obs[i].name>>)
  /\ UNCHANGED mv
TSpec == TInit /\ lis = "main" /\ proto = "grpc" /\ cred = "plaintext" /\ served = "unknown" /\ [][TNext]_<<i, bad, mv>>
Done == (i = Len(Obs) + 1) => PrintT(<<"JUDGED", Len(Obs), "BAD", bad>>)
=============================================================================
