SPECIFICATION Spec
CONSTANTS
  Conns = {1}
  Calls = {1, 2}
  Kind <- MCKindSmall
  AppIdsMax = 1
  Tokens = 0
  SharedImpl = FALSE
  NoNilCheck = FALSE
  SwapStd = FALSE
INVARIANTS TypeOK RolesAgree DispenseRouting OneImplPerDispense UnknownIsError IdsUnique DoneOnce
PROPERTY Answered
CHECK_DEADLOCK FALSE
