------------------------------ MODULE TraceCrash ------------------------------
(* C03 on real processes: each log line is one crash scenario with the calls observed.      *)
EXTENDS CrashTable, Json, IOUtils

Obs == ndJsonDeserialize(IOEnv.VERIF_TRACE)
VARIABLES i, bad

CallOK(o, c) ==
  /\ c.op \in Ops
  /\ c.ms <= Bound(o.proto, c.op)                                        \* returns within a bounded time
  /\ (c.after_crash => c.res \in Allowed(o.point, o.proto, c.op, o.out.started_ok))
  /\ ((~c.after_crash /\ ~c.racing) => c.res = "ok")                                     \* before the crash everything works (sanity of the scenario)

Conforms(o) ==
  /\ o.point \in Points /\ o.proto \in Protos /\ Exists(o.point, o.proto)
  /\ ~o.out.panic                                                         \* the host does not panic
  /\ o.out.crashed                                                        \* the plugin really died at that point
  /\ \A k \in 1..Len(o.out.calls) : CallOK(o, o.out.calls[k])
  /\ o.out.exited_ms >= 0 /\ o.out.exited_ms <= 2500                      \* the client reports the plugin as exited
  /\ (o.out.had_ctx => o.out.ctx_cancelled)                               \* the context handed to gRPC plugin clients is cancelled

TInit == i = 1 /\ bad = 0
TNext ==
  /\ i <= Len(Obs)
  /\ i' = i + 1
  /\ IF Conforms(Obs[i]) THEN bad' = bad
     ELSE bad' = bad + 1 /\ PrintT(<<"DEVIATION", i, Obs[i].name>>)
  /\ UNCHANGED cv
TSpec == TInit /\ point = "idle" /\ proto = "netrpc" /\ op = "ping" /\ startedOk = TRUE /\ res = "none" /\ [][TNext]_<<i, bad, cv>>
Done == (i = Len(Obs) + 1) => PrintT(<<"JUDGED", Len(Obs), "BAD", bad>>)
=============================================================================
