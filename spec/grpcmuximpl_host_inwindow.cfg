SPECIFICATION Spec
CONSTANTS
  Ids = {1, 2}
  AcceptorIsPlugin = FALSE
  FixOrder = TRUE
  W = 3
  IssueMax = 2
  MaxT = 10
  MaxAttempts = 2
INVARIANTS Routing MainAlive FirstCallOK
CHECK_DEADLOCK FALSE
