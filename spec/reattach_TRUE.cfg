SPECIFICATION RSpec
CONSTANTS
  TestMode = TRUE
  MaxOps = 6
INVARIANTS KillKills StopsOnlyOnCancel NotFoundIffDead
PROPERTIES TestModeNeverKills
CHECK_DEADLOCK FALSE
