---------------------------- MODULE TraceInterop ----------------------------
(* C14 on real processes: one line per configuration cell with what was observed.                 *)
EXTENDS Interop, Json, IOUtils, Sequences

Obs == ndJsonDeserialize(IOEnv.VERIF_TRACE)
VARIABLES i, bad

C(o) == [proto |-> o.cell.proto, allowed |-> o.cell.allowed, htls |-> o.cell.htls, ptls |-> o.cell.ptls,
         muxreq |-> o.cell.muxreq, pmux |-> o.cell.pmux, launch |-> o.cell.launch]

Conforms(o) ==
  LET c == C(o)  want == Outcome(c) IN
  /\ c \in Cells
  /\ ~o.out.panic /\ ~o.out.hang                                          \* never a hang or a panic
  /\ CASE want = "works" ->
            /\ o.out.start_ok /\ o.out.first_use_ok
            /\ o.out.protocol = c.proto                                   \* speaks the plugin's protocol, which is allowed
            /\ o.out.call_ok /\ o.out.ping_ok /\ o.out.large_ok           \* end to end: call, ping, large response
            /\ o.out.callback_h2p_ok /\ o.out.callback_p2h_ok             \* brokered callbacks in both directions
            \* never a silently downgraded connection: with transport security on, brokered gRPC
            \* connections are mutually authenticated too (net/rpc brokers inside the secured connection)
            /\ ((c.htls # "none" /\ c.proto = "grpc") => (o.out.callback_h2p_sec = "tls" /\ o.out.callback_p2h_sec = "tls"))
            /\ o.out.unknown_name_err                                     \* dispensing an unknown plugin name is an error
            /\ (c.proto = "netrpc" => o.out.unserved_name_err)            \* also when only the plugin does not know it (net/rpc asks the plugin)
       [] want = "use_error" -> o.out.start_ok /\ ~o.out.first_use_ok     \* surfaces on first use, not silently downgraded
       [] want = "start_error_mux" -> ~o.out.start_ok /\ o.out.err_is_mux
       [] OTHER -> ~o.out.start_ok
  /\ (Terminated(c) => o.out.pid_gone)                                    \* the refused plugin is terminated

TInit == i = 1 /\ bad = 0
TNext ==
  /\ i <= Len(Obs)
  /\ i' = i + 1
  /\ IF Conforms(Obs[i]) THEN bad' = bad
     ELSE bad' = bad + 1 /\ PrintT(<<"DEVIATION", i, Obs[i].name>>)
  /\ UNCHANGED iv
AnyCell == [proto |-> "netrpc", allowed |-> "unset", htls |-> "none", ptls |-> "none", muxreq |-> FALSE, pmux |-> "advertised", launch |-> "cmd"]
TSpec == TInit /\ cell = AnyCell /\ outcome = "none" /\ [][TNext]_<<i, bad, iv>>
Done == (i = Len(Obs) + 1) => PrintT(<<"JUDGED", Len(Obs), "BAD", bad>>)
=============================================================================
