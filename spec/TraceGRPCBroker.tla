-------------------------- MODULE TraceGRPCBroker --------------------------
(***************************************************************************)
(* C07 / C08 on the real brokers: each log line is one scenario on one     *)
(* host/plugin pair (in-process or a real plugin process), a list of       *)
(* brokered-connection establishments with what was observed for each.     *)
(* The clauses are the invariants TLC checks on GRPCPlain.tla / GRPCMux.tla *)
(* (Routing, FirstCallOK, MainAlive, DialsReturn), with W = 5000 ms.       *)
(***************************************************************************)
EXTENDS Integers, Sequences, FiniteSets, TLC, Json, IOUtils

Obs == ndJsonDeserialize(IOEnv.VERIF_TRACE)
VARIABLES i, bad
W == 5000
\* a dial whose peer never shows up returns an error in bounded time: the 5 s slot wait (plain),
\* or gRPC giving up on a dialer that keeps timing out in the knock handshake (multiplexed)
UnmatchedBoundMs(o) == IF o.mux THEN 13000 ELSE 6500

EstOK(o, e) ==
  /\ e.served_by \in {-1, e.id}                                \* Routing: never another id's server, never the main service
  /\ (e.dial_ok => e.served_by = e.id)
  /\ e.main_ok                                                  \* MainAlive: the control connection keeps working
  /\ ((e.keep /\ e.dial_ok) => e.kept_ok)                       \* earlier brokered connections keep working
  /\ CASE e.nopeer = "dial_only" -> ~e.dial_ok /\ e.dial_ms <= UnmatchedBoundMs(o)      \* DialsReturn
       [] e.nopeer = "accept_only" -> TRUE
       [] e.nopeer = "dial_again" -> e.dial_ok                  \* one more connection to a listener that is still being served
       [] OTHER -> (e.gap_ms < W => e.dial_ok)                  \* FirstCallOK inside the window, either order

Conforms(o) ==
  /\ o.out.setup_ok
  /\ \A k \in 1..Len(o.out.ests) : EstOK(o, o.out.ests[k])
  /\ o.out.listener_before_ack                                  \* the listener is registered before its knocks are acknowledged
  /\ o.out.leftover_goroutines = 0                              \* closing the client ends the brokers' goroutines (checked where asked for)

TInit == i = 1 /\ bad = 0
TNext ==
  /\ i <= Len(Obs)
  /\ i' = i + 1
  /\ IF Conforms(Obs[i]) THEN bad' = bad
     ELSE bad' = bad + 1 /\ PrintT(<<"DEVIATION", i, Obs[i].name>>)
TSpec == TInit /\ [][TNext]_<<i, bad>>
Done == (i = Len(Obs) + 1) => PrintT(<<"JUDGED", Len(Obs), "BAD", bad>>)
=============================================================================
