SPECIFICATION Spec
CONSTANTS
  Ids = {1, 2}
  W = 2
  IssueMax = 5
  MaxT = 10
  MaxGen = 3
  DialsPerId = 2
  Shared = FALSE
INVARIANTS TypeOK Routing NoPanic NoGoroutineLeft
PROPERTIES DialsReturn
CHECK_DEADLOCK FALSE
