--------------------------- MODULE GRPCPlainImpl ---------------------------
(***************************************************************************)
(* The gRPC broker without multiplexing at the grain of grpc_broker.go's   *)
(* critical sections, one direction (acceptor side A, dialer side D); one  *)
(* action per hook point:                                                  *)
(*                                                                         *)
(*   A: Accept(id)        grpc.accept.listening   listener opened          *)
(*                        grpc.accept.sent        ConnInfo handed to the   *)
(*                                                broker stream (or error) *)
(*   D: Run               grpc.run.recv           ConnInfo received        *)
(*                        grpc.getclientstream    slot looked up / created *)
(*                                                under the broker lock;   *)
(*                                                the expiry goroutine for *)
(*                                                (id, slot) is spawned    *)
(*                        grpc.run.park           non-blocking send into   *)
(*                                                the slot's 1-buffered ch *)
(*      timeoutWait       grpc.tw.deleted         woken by doneCh or 5 s;  *)
(*                                                deletes clientStreams[id]*)
(*                                                whatever slot is there   *)
(*      Dial(id)          grpc.getclientstream    same lookup              *)
(*                        grpc.dial.took          message received, doneCh *)
(*                                                closed                   *)
(*                        grpc.dial.timeout       5 s without a message    *)
(*                                                                         *)
(* GRPCPlain.tla is the same protocol with the slot life cycle folded into *)
(* two actions; this module is the one traces of the real broker are       *)
(* validated against (TraceGRPCPlainImpl).  A slot is (id, generation);    *)
(* cur[id] is the generation in the map (0: none).  The order in which     *)
(* concurrent Sends reach the stream is not observable, so Run may receive *)
(* any in-flight message (properties are checked under that weaker         *)
(* assumption).  Shared = TRUE: a receive loop that reuses one message     *)
(* value (must break Routing).                                             *)
(***************************************************************************)
EXTENDS Integers, Sequences, FiniteSets, TLC

CONSTANTS Ids, W, IssueMax, MaxT, MaxGen, DialsPerId, Shared

VARIABLES now,
          acc, astart, wire, lastMsg,          \* acceptor side and the stream
          rpc, rid, rgen,                      \* Run loop: pc, message id, slot generation in hand
          cur, gens, buf, done, tws, twn,      \* clientStreams, slots, expiry goroutines
          dpc, dgen, ddl, dstart, dgot, dres, dcount,
          panicked
vars == <<now, acc, astart, wire, lastMsg, rpc, rid, rgen, cur, gens, buf, done, tws, twn,
          dpc, dgen, ddl, dstart, dgot, dres, dcount, panicked>>
None == 0
Gens == 1..MaxGen

Init ==
  /\ now = 0
  /\ acc = [n \in Ids |-> "idle"] /\ astart = [n \in Ids |-> -1] /\ wire = <<>> /\ lastMsg = None
  /\ rpc = "recv" /\ rid = None /\ rgen = 0
  /\ cur = [n \in Ids |-> 0] /\ gens = [n \in Ids |-> 0]
  /\ buf = [n \in Ids |-> [g \in Gens |-> None]] /\ done = [n \in Ids |-> [g \in Gens |-> FALSE]]
  /\ tws = {} /\ twn = 0
  /\ dpc = [n \in Ids |-> "idle"] /\ dgen = [n \in Ids |-> 0] /\ ddl = [n \in Ids |-> 0] /\ dstart = [n \in Ids |-> -1]
  /\ dgot = [n \in Ids |-> None] /\ dres = [n \in Ids |-> "none"] /\ dcount = [n \in Ids |-> 0]
  /\ panicked = FALSE

\* every variable back to its initial value (packed traces: one case after the other)
ResetAll ==
  /\ now' = 0
  /\ acc' = [n \in Ids |-> "idle"] /\ astart' = [n \in Ids |-> -1] /\ wire' = <<>> /\ lastMsg' = None
  /\ rpc' = "recv" /\ rid' = None /\ rgen' = 0
  /\ cur' = [n \in Ids |-> 0] /\ gens' = [n \in Ids |-> 0]
  /\ buf' = [n \in Ids |-> [g \in Gens |-> None]] /\ done' = [n \in Ids |-> [g \in Gens |-> FALSE]]
  /\ tws' = {} /\ twn' = 0
  /\ dpc' = [n \in Ids |-> "idle"] /\ dgen' = [n \in Ids |-> 0] /\ ddl' = [n \in Ids |-> 0] /\ dstart' = [n \in Ids |-> -1]
  /\ dgot' = [n \in Ids |-> None] /\ dres' = [n \in Ids |-> "none"] /\ dcount' = [n \in Ids |-> 0]
  /\ panicked' = FALSE

\* ---- acceptor side ------------------------------------------------------------------------
AcceptListen(n) ==
  /\ acc[n] = "idle" /\ now <= IssueMax
  /\ acc' = [acc EXCEPT ![n] = "listening"] /\ astart' = [astart EXCEPT ![n] = now]
  /\ UNCHANGED <<now, wire, lastMsg, rpc, rid, rgen, cur, gens, buf, done, tws, twn, dpc, dgen, ddl, dstart, dgot, dres, dcount, panicked>>
AcceptSend(n) ==
  /\ acc[n] = "listening"
  /\ acc' = [acc EXCEPT ![n] = "sent"] /\ wire' = Append(wire, n)     \* ConnInfo{ServiceId n, address of listener n}
  /\ UNCHANGED <<now, astart, lastMsg, rpc, rid, rgen, cur, gens, buf, done, tws, twn, dpc, dgen, ddl, dstart, dgot, dres, dcount, panicked>>
AcceptSendFail(n) ==                                                  \* the stream is gone: Accept returns the error
  /\ acc[n] = "listening"
  /\ acc' = [acc EXCEPT ![n] = "failed"]
  /\ UNCHANGED <<now, astart, wire, lastMsg, rpc, rid, rgen, cur, gens, buf, done, tws, twn, dpc, dgen, ddl, dstart, dgot, dres, dcount, panicked>>

\* ---- dialer side: Run ---------------------------------------------------------------------
RemoveAt(s, i) == [j \in 1..(Len(s) - 1) |-> IF j < i THEN s[j] ELSE s[j + 1]]
RunRecv(i) ==
  /\ rpc = "recv" /\ i \in 1..Len(wire)
  /\ rid' = wire[i] /\ wire' = RemoveAt(wire, i) /\ lastMsg' = wire[i] /\ rpc' = "lookup"
  /\ UNCHANGED <<now, acc, astart, rgen, cur, gens, buf, done, tws, twn, dpc, dgen, ddl, dstart, dgot, dres, dcount, panicked>>

\* getClientStream(n): the slot under n, created if absent (under the broker lock)
Lookup(n) == IF cur[n] # 0 THEN UNCHANGED <<cur, gens>>
             ELSE /\ gens[n] < MaxGen
                  /\ gens' = [gens EXCEPT ![n] = @ + 1] /\ cur' = [cur EXCEPT ![n] = gens[n] + 1]

RunLookup ==
  /\ rpc = "lookup"
  /\ Lookup(rid) /\ rgen' = cur'[rid]
  /\ tws' = tws \cup {<<rid, cur'[rid], now + W, twn>>} /\ twn' = twn + 1    \* go timeoutWait(id, p)
  /\ rpc' = "park"
  /\ UNCHANGED <<now, acc, astart, wire, lastMsg, rid, buf, done, dpc, dgen, ddl, dstart, dgot, dres, dcount, panicked>>

WouldPark == buf[rid][rgen] = None
RunPark ==
  /\ rpc = "park"
  /\ buf' = IF WouldPark THEN [buf EXCEPT ![rid][rgen] = rid] ELSE buf      \* select { case p.ch <- msg: default: }
  /\ rpc' = "recv" /\ rid' = None /\ rgen' = 0
  /\ UNCHANGED <<now, acc, astart, wire, lastMsg, cur, gens, done, tws, twn, dpc, dgen, ddl, dstart, dgot, dres, dcount, panicked>>

TWDelete(t) ==
  /\ t \in tws /\ (done[t[1]][t[2]] \/ now >= t[3])
  /\ cur' = [cur EXCEPT ![t[1]] = 0] /\ tws' = tws \ {t}                     \* delete(m.clientStreams, id)
  /\ UNCHANGED <<now, acc, astart, wire, lastMsg, rpc, rid, rgen, gens, buf, done, twn, dpc, dgen, ddl, dstart, dgot, dres, dcount, panicked>>

\* ---- dialer side: Dial --------------------------------------------------------------------
DialLookup(n) ==
  /\ dpc[n] \in {"idle", "done"} /\ dcount[n] < DialsPerId /\ now <= IssueMax
  /\ Lookup(n) /\ dgen' = [dgen EXCEPT ![n] = cur'[n]]
  /\ dpc' = [dpc EXCEPT ![n] = "wait"] /\ ddl' = [ddl EXCEPT ![n] = now + W] /\ dcount' = [dcount EXCEPT ![n] = @ + 1]
  /\ dstart' = [dstart EXCEPT ![n] = IF @ < 0 THEN now ELSE @]
  /\ UNCHANGED <<now, acc, astart, wire, lastMsg, rpc, rid, rgen, buf, done, tws, twn, dgot, dres, panicked>>
DialTake(n) ==
  /\ dpc[n] = "wait" /\ buf[n][dgen[n]] # None
  /\ dgot' = [dgot EXCEPT ![n] = IF Shared THEN lastMsg ELSE buf[n][dgen[n]]]
  /\ buf' = [buf EXCEPT ![n][dgen[n]] = None]
  /\ IF done[n][dgen[n]] THEN panicked' = TRUE /\ UNCHANGED done            \* close of a closed doneCh
     ELSE done' = [done EXCEPT ![n][dgen[n]] = TRUE] /\ UNCHANGED panicked
  /\ dpc' = [dpc EXCEPT ![n] = "done"] /\ dres' = [dres EXCEPT ![n] = "ok"]
  /\ UNCHANGED <<now, acc, astart, wire, lastMsg, rpc, rid, rgen, cur, gens, tws, twn, dgen, ddl, dstart, dcount>>
DialTimeout(n) ==
  /\ dpc[n] = "wait" /\ now >= ddl[n]
  /\ dpc' = [dpc EXCEPT ![n] = "done"] /\ dres' = [dres EXCEPT ![n] = "timeout"]
  /\ UNCHANGED <<now, acc, astart, wire, lastMsg, rpc, rid, rgen, cur, gens, buf, done, tws, twn, dgen, ddl, dstart, dgot, dcount, panicked>>

\* ---- composition (model checking): discrete time, maximal progress ------------------------------
\* a dial whose message is there takes it rather than timing out at the same instant
DialTimeoutMC(n) == DialTimeout(n) /\ buf[n][dgen[n]] = None
Instant == \/ \E n \in Ids : AcceptSend(n) \/ DialTake(n) \/ DialTimeoutMC(n)
           \/ \E i \in 1..Len(wire) : RunRecv(i)
           \/ RunLookup \/ RunPark
           \/ \E t \in tws : TWDelete(t)
Env == \E n \in Ids : AcceptListen(n) \/ DialLookup(n)
Tick == /\ ~ENABLED Instant /\ now < MaxT /\ now' = now + 1
        /\ UNCHANGED <<acc, astart, wire, lastMsg, rpc, rid, rgen, cur, gens, buf, done, tws, twn, dpc, dgen, ddl, dstart, dgot, dres, dcount, panicked>>
Next == Instant \/ Env \/ Tick
Spec == Init /\ [][Next]_vars /\ WF_vars(Instant) /\ WF_vars(Tick)

-----------------------------------------------------------------------------
TypeOK == /\ rpc \in {"recv", "lookup", "park"}
          /\ \A n \in Ids : acc[n] \in {"idle", "listening", "sent", "failed"} /\ dpc[n] \in {"idle", "wait", "done"} /\ cur[n] \in 0..MaxGen
\* C07: the connection dialled for id n goes to the listener accepted for id n
Routing == \A n \in Ids : dgot[n] # None => dgot[n] = n
\* C20: doneCh is closed at most once
NoPanic == ~panicked
InWindow(n) == astart[n] >= 0 /\ dstart[n] >= 0 /\ astart[n] - dstart[n] < W /\ dstart[n] - astart[n] < W
Quiesced == now = MaxT /\ ~ENABLED Instant
\* accept and dial inside the window of each other, either order: the (first) dial gets its connection
FirstCallOK == \A n \in Ids : (Quiesced /\ InWindow(n) /\ dcount[n] = 1) => dres[n] = "ok"
\* C18: every expiry goroutine ends
NoGoroutineLeft == Quiesced => tws = {}
\* an entry created by a Dial that never got a message stays in clientStreams (nothing deletes it):
\* expected to FAIL (grpcplainimpl_mapentry.cfg) -- memory only, noted in DESIGN
NoMapEntryLeft == Quiesced => \A n \in Ids : cur[n] = 0
\* C09: every dial returns
DialsReturn == \A n \in Ids : (dpc[n] = "wait") ~> (dpc[n] = "done")
=============================================================================
