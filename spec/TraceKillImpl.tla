---------------------------- MODULE TraceKillImpl ----------------------------
(***************************************************************************)
(* Trace validation for Client.Kill: the hook events of real Kill calls    *)
(* (client.kill.read / closed / graceful / graceexpired / force / end, in  *)
(* the calling goroutine) plus the driver's call / return events, against  *)
(* a real plugin process with a configured shutdown behaviour, must be a   *)
(* behaviour of Kill.tla: one, repeated or several concurrent callers.     *)
(* Line 1 is a header with the behaviour and its delay (all cases packed   *)
(* in one log share them); time is the recorder's clock in ms, Grace =     *)
(* 2000.  Taking the kill lock, the plugin exiting and the wait goroutine  *)
(* reaping it have no hook in the caller's goroutine: silent steps.  A     *)
(* Kill whose Client() fails logs no "closed" event: the close step is     *)
(* then silent and must be one that fails.                                 *)
(***************************************************************************)
EXTENDS Kill, Json, IOUtils

Trace == ndJsonDeserialize(IOEnv.VERIF_TRACE)
TrBehaviour == Trace[1].behaviour
TrDelay == Trace[1].delay
TrLag == Trace[1].lag
VARIABLES l
tvars == <<kv, l>>
E == Trace[l]
ExitSlack == 150      \* ms: the shutdown request is processed a little before Close returns

TraceInit == KInit /\ l = 2
others == <<proc, quitAt, exitDue, reaped, exitedFlag, runnerSet, clientClosed, lock, cpc, cstart, cend, cdl, forcedGraceful, marker>>
Advance == /\ l <= Len(Trace) /\ E.ev # "reset" /\ now < E.t /\ now' = E.t /\ UNCHANGED <<others, l>>

TReset == E.ev = "reset" /\ KReset
TCall == E.ev = "call.kill" /\ CallAnyTime(E.c)
TRead == E.ev = "client.kill.read" /\ (E.a = 1) = runnerSet /\ Read(E.c)
TClosed == E.ev = "client.kill.closed" /\ Close(E.c) /\ (E.a = 1) = (cpc'[E.c] = "grace")
TGraceful == E.ev = "client.kill.graceful" /\ GraceExit(E.c)
TGraceExpired == E.ev = "client.kill.graceexpired" /\ GraceExpire(E.c)
TForce == E.ev = "client.kill.force" /\ Force(E.c)
TKillEnd == E.ev = "client.kill.end" /\ KTail(E.c)
\* C04 at every return: the process is gone (reaped) and the client says so
TRet == E.ev = "ret.kill" /\ cpc[E.c] = "done" /\ E.gone /\ E.exited /\ UNCHANGED kv
TEnd == E.ev = "end" /\ (\A c \in Callers : cpc[c] \in {"idle", "done"}) /\ marker = E.marker /\ UNCHANGED kv

\* ---- silent steps
STakeLock == l <= Len(Trace) /\ (\E c \in Callers : TakeLock(c)) /\ UNCHANGED l
SProcExit == /\ l <= Len(Trace) /\ proc = "alive" /\ exitDue >= 0 /\ now + ExitSlack >= exitDue
             /\ proc' = "dead" /\ marker' = TRUE
             /\ UNCHANGED <<now, quitAt, exitDue, reaped, exitedFlag, runnerSet, clientClosed, lock, cpc, cstart, cend, cdl, forcedGraceful, l>>
SReap == l <= Len(Trace) /\ Reap /\ UNCHANGED l
SCloseFail == /\ l <= Len(Trace) /\ E.ev = "client.kill.force" /\ now = E.t /\ cpc[E.c] = "closing"
              /\ Close(E.c) /\ cpc'[E.c] = "force" /\ UNCHANGED l

TraceNext ==
  \/ /\ l <= Len(Trace) /\ (E.ev = "reset" \/ now = E.t) /\ l' = l + 1
     /\ (TReset \/ TCall \/ TRead \/ TClosed \/ TGraceful \/ TGraceExpired \/ TForce \/ TKillEnd \/ TRet \/ TEnd)
  \/ Advance \/ STakeLock \/ SProcExit \/ SReap \/ SCloseFail
TraceSpec == TraceInit /\ [][TraceNext]_tvars

HighWater == TLCSet(1, IF l > TLCGet(1) THEN l ELSE TLCGet(1))
TraceConstraint == HighWater
TraceAccepted == /\ PrintT(<<"HIGHWATER", TLCGet(1), Len(Trace)>>)
                 /\ TLCGet(1) = Len(Trace) + 1
ASSUME TLCSet(1, 0)
=============================================================================
