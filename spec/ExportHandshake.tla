-------------------------- MODULE ExportHandshake --------------------------
(* Writes the complete table of canonical line classes with, per class, the *)
(* set of client configurations for which Decide accepts it (JSON).         *)
EXTENDS Handshake, Json, IOUtils, SequencesExt

CfgSeq == SetToSeq(Cfgs)
Row(l) == [line |-> l, ok |-> {k \in 1..Len(CfgSeq) : (CHOOSE d \in Decide(l, CfgSeq[k]) : TRUE).ok}]
Table == [cfgs |-> CfgSeq, rows |-> SetToSeq({Row(l) : l \in {x \in Lines : Canonical(x)}})]
ASSUME JsonSerialize(IOEnv.VERIF_OUT, Table)
VARIABLE dummy
EInit == dummy = 0 /\ line = (CHOOSE l \in Lines : Canonical(l)) /\ cfg = CfgSeq[1] /\ out = Err /\ decided = TRUE
ENext == UNCHANGED <<dummy, hvars>>
ESpec == EInit /\ [][ENext]_<<dummy, hvars>>
=============================================================================
