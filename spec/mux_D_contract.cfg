SPECIFICATION Spec
CONSTANTS
  Dials <- DialsD
  Accepts <- AcceptsD
  AbortDials <- NoAborts
  DSide <- CSide
  DId <- CId
  ASide <- CSide
  AId <- CId
  W = 0
  IssueMax = 0
  MaxT = 0
  MaxProgress = FALSE
  FixDrain = TRUE
  FixDrop = TRUE
  AllowDown = FALSE
  MaxNextId = 0
INVARIANTS NoPanic

CHECK_DEADLOCK FALSE
