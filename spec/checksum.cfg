SPECIFICATION CSpec
INVARIANTS LaunchOnlyIfEqual ErrorMatches ExactLaunches
CHECK_DEADLOCK FALSE
