SPECIFICATION Spec
CONSTANTS
  Ids = {1, 2}
  AcceptorIsPlugin = FALSE
  FixOrder = TRUE
  W = 2
  IssueMax = 8
  MaxT = 14
  MaxAttempts = 2
INVARIANTS Routing
CHECK_DEADLOCK FALSE
