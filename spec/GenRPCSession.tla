--------------------------- MODULE GenRPCSession ---------------------------
(***************************************************************************)
(* Behaviour generator for the RPCSession driver (spec -> code): the       *)
(* specification's own actions, with a history variable recording the      *)
(* steps a driver can bring about -- which call is made on which           *)
(* connection for which name, the plugin's own code taking an id, a        *)
(* record written, a client closed -- in the order the behaviour takes     *)
(* them.  TLC runs it in simulation mode; every behaviour that reaches a   *)
(* quiescent end prints its word, and the driver replays the word with     *)
(* that order (a few milliseconds between consecutive steps) while the     *)
(* steps it cannot force run free.  What the real code then does is        *)
(* validated against TraceRPCSession as usual.                             *)
(***************************************************************************)
EXTENDS RPCSession

VARIABLE hist
gvars == <<vars, hist>>

GInit == Init /\ hist = <<>>
Rec(x) == hist' = Append(hist, x)
Quiet == UNCHANGED hist

GNext ==
  \/ \E c \in Conns : (COpen(c) \/ CBrokerUp(c) \/ SAccept(c) \/ SServe(c) \/ SQuit(c) \/ CCloseEnd(c)) /\ Quiet
  \/ \E c \in Conns : SAppId(c) /\ Rec(<<"appid", c>>)
  \/ \E c \in Conns : cph[c] = 4 /\ (\A c2 \in Conns : cph[c2] >= 4) /\ CClose(c) /\ Rec(<<"close", c>>)
  \/ \E k \in Calls, c \in Conns, n \in Names :
        /\ (\A c2 \in Conns : cph[c2] >= 4)                \* the driver dials every connection before anything else
        /\ (\A k2 \in Calls : k2 < k => call[k2].st # "idle")
        /\ CallDispense(k, c, n) /\ Rec(<<"call", k, c, n>>)
  \/ \E k \in Calls : (SCreate(k) \/ SAlloc(k) \/ CDial(k) \/ CallFails(k)) /\ Quiet
  \/ \E s \in Streams : (\A c2 \in Conns : cph[c2] >= 4) /\ SWrite(s) /\ Rec(<<"write", s>>)
  \/ \E s \in Streams, c \in Conns : (SRead(c, s) \/ CDeliver(c, s)) /\ Quiet
GSpec == GInit /\ [][GNext]_gvars

\* a quiescent end: every call made and answered, every client closed
Ended == /\ \A k \in Calls : call[k].st \in {"ok", "err"}
         /\ \A c \in Conns : cph[c] = 5 /\ c \notin draining
Emit == Ended => PrintT("WORD " \o ToString(hist))
NotEnded == ~Ended
=============================================================================
