SPECIFICATION Spec
CONSTANTS
  Ids = {1}
  W = 2
  IssueMax = 2
  MaxT = 8
  MaxGen = 2
  DialsPerId = 1
  Shared = FALSE
INVARIANTS NoMapEntryLeft
CHECK_DEADLOCK FALSE
