SPECIFICATION KSpec
CONSTANTS
  Callers = {"k1", "k2", "k3"}
  Behaviour = "delay"
  Delay = 1
  Grace = 2
  CloseBlock = 3
  FrozenCloseOk = TRUE
  SerialiseKill = FALSE
  MaxT = 12
  Lag = 0
INVARIANTS GracefulRespected
CHECK_DEADLOCK FALSE
