SPECIFICATION Spec
CONSTANTS
  Ids = {1, 2}
  AcceptorIsPlugin = TRUE
  FixOrder = TRUE
  W = 2
  IssueMax = 8
  MaxT = 14
  MaxAttempts = 2
INVARIANTS FirstCallOK
CHECK_DEADLOCK FALSE
