SPECIFICATION KSpec
CONSTANTS
  Callers = {"k1", "k2", "k3"}
  Behaviour = "crashed"
  Delay = 1
  Grace = 2
  CloseBlock = 3
  FrozenCloseOk = TRUE
  SerialiseKill = TRUE
  MaxT = 12
  Lag = 0
INVARIANTS KillPost GracefulRespected MarkerIffGraceful Bounded
PROPERTIES KillTerminates
CHECK_DEADLOCK FALSE
