----------------------------- MODULE MuxBroker -----------------------------
(***************************************************************************)
(* The net/rpc connection broker of go-plugin (mux_broker.go), both ends   *)
(* of one yamux session.                                                   *)
(*                                                                         *)
(* One action per code segment between two verif hook points; the action   *)
(* names in comments are the hook points the segment ends in.  Side "H" is *)
(* the host end, side "P" the plugin end.  A call is a named instance      *)
(* (constant sets Dials / Accepts) issued at most once.  A dial d creates  *)
(* the yamux stream d; the stream's server end moves wire -> run -> slot   *)
(* -> acc (or is closed).                                                  *)
(*                                                                         *)
(* Time is discrete.  W is the 5 s pending window.  With MaxProgress time  *)
(* only advances when no instantaneous step is enabled (used for the       *)
(* "within the window both succeed" clause); without it any goroutine may  *)
(* lag arbitrarily (used for the safety properties and for traces).        *)
(*                                                                         *)
(* AllowDown = TRUE adds the death of the session (the peer process dies,   *)
(* the connection is cut): from then on opening a stream, writing on one    *)
(* and reading what is not already buffered fail, and each Run loop ends    *)
(* when it next asks for a stream.  Calls in flight must still return.      *)
(*                                                                         *)
(* FixDrain / FixDrop = FALSE give the behaviour before the fix of the     *)
(* expiry handler (blocking receive under the lock, dropped stream never   *)
(* closed); they exist so that TLC can show the model is sensitive.        *)
(***************************************************************************)
EXTENDS Integers, Sequences, FiniteSets, TLC

CONSTANTS Dials, Accepts,          \* call instances
          AbortDials,              \* dials whose peer gives up after opening the stream, before writing the id
          DSide(_), DId(_),        \* side that dials, id dialled
          ASide(_), AId(_),        \* side that accepts, id accepted
          W, IssueMax, MaxT,
          MaxProgress, FixDrain, FixDrop,
          MaxNextId,
          AllowDown                \* the session may die

Sides == {"H", "P"}
Other(s) == IF s = "H" THEN "P" ELSE "H"
None == "none"
Ids == {DId(d) : d \in Dials} \cup {AId(a) : a \in Accepts}
MaxSlots == Cardinality(Dials) + Cardinality(Accepts)
Slots == 1..MaxSlots

VARIABLES
  now,
  \* dial calls / client end of the stream
  dpc, dres, dt,
  \* the stream d
  loc,      \* where the server end is: none, wire, run, slot, acc, closed
  idw,      \* id written by the dialer
  ackv,     \* id written back by the acceptor (-1 = none yet; 0 is an id like any other)
  \* Run loop per side
  rpc, rcur, rslot,
  \* broker state per side
  slotOf, sch, sdone, nslots, lock,
  \* expiry goroutines, one per stream handled by Run
  tpc, tslot, tdl, tto, trearm,
  \* accept calls
  apc, aslot, aconn, adl, ares, at, arearm,
  panicked,
  nid,      \* NextId counter per side
  down      \* the yamux session is dead

dialv == <<dpc, dres, dt>>
strv  == <<loc, idw, ackv>>
runv  == <<rpc, rcur, rslot>>
brkv  == <<slotOf, sch, sdone, nslots, lock>>
twv   == <<tpc, tslot, tdl, tto, trearm>>
accv  == <<apc, aslot, aconn, adl, ares, at, arearm>>
vars  == <<now, dialv, strv, runv, brkv, twv, accv, panicked, nid, down>>

Init ==
  /\ now = 0
  /\ dpc = [d \in Dials |-> "new"] /\ dres = [d \in Dials |-> None] /\ dt = [d \in Dials |-> -1]
  /\ loc = [d \in Dials |-> "none"] /\ idw = [d \in Dials |-> FALSE] /\ ackv = [d \in Dials |-> -1]
  /\ rpc = [s \in Sides |-> "accept"] /\ rcur = [s \in Sides |-> None] /\ rslot = [s \in Sides |-> 0]
  /\ slotOf = [s \in Sides |-> [i \in Ids |-> 0]]
  /\ sch = [s \in Sides |-> [k \in Slots |-> None]]
  /\ sdone = [s \in Sides |-> [k \in Slots |-> FALSE]]
  /\ nslots = [s \in Sides |-> 0]
  /\ lock = [s \in Sides |-> "free"]
  /\ tpc = [d \in Dials |-> "none"] /\ tslot = [d \in Dials |-> 0] /\ tdl = [d \in Dials |-> 0]
  /\ tto = [d \in Dials |-> FALSE] /\ trearm = [d \in Dials |-> FALSE]
  /\ apc = [a \in Accepts |-> "new"] /\ aslot = [a \in Accepts |-> 0] /\ aconn = [a \in Accepts |-> None]
  /\ adl = [a \in Accepts |-> 0] /\ ares = [a \in Accepts |-> None] /\ at = [a \in Accepts |-> -1]
  /\ arearm = [a \in Accepts |-> FALSE]
  /\ panicked = FALSE
  /\ nid = [s \in Sides |-> 0]
  /\ down = FALSE

(***************************************************************************)
(* getStream(id) on side s: the slot under id, created if absent.  The     *)
(* caller must hold (here: find free) the broker lock.                     *)
(***************************************************************************)
HasSlot(s, id) == slotOf[s][id] # 0
GetStream(s, id, k) ==
  /\ lock[s] = "free"
  /\ IF HasSlot(s, id)
     THEN /\ k = slotOf[s][id]
          /\ UNCHANGED <<slotOf, nslots>>
     ELSE /\ nslots[s] < MaxSlots
          /\ k = nslots[s] + 1
          /\ nslots' = [nslots EXCEPT ![s] = k]
          /\ slotOf' = [slotOf EXCEPT ![s][id] = k]

-----------------------------------------------------------------------------
(* Dial(id): OpenStream -> mux.dial.opened -> write id -> mux.dial.wrote    *)
(*           -> read ack -> mux.dial.ack                                    *)

DialOpen_(d) ==           \* call.dial, mux.dial.opened
  /\ dpc[d] = "new" /\ dt' = [dt EXCEPT ![d] = now]
  /\ IF down
     THEN \* OpenStream fails: Dial returns the error
          /\ dpc' = [dpc EXCEPT ![d] = "ret"] /\ dres' = [dres EXCEPT ![d] = "eof"] /\ UNCHANGED loc
     ELSE /\ dpc' = [dpc EXCEPT ![d] = "opened"] /\ loc' = [loc EXCEPT ![d] = "wire"] /\ UNCHANGED dres
  /\ UNCHANGED <<idw, ackv, runv, brkv, twv, accv, panicked, nid>>

DialWrite_(d) ==          \* mux.dial.wrote
  /\ dpc[d] = "opened" /\ d \notin AbortDials /\ ~down
  /\ dpc' = [dpc EXCEPT ![d] = "wrote"] /\ idw' = [idw EXCEPT ![d] = TRUE]
  /\ UNCHANGED <<dres, dt, loc, ackv, runv, brkv, twv, accv, panicked, nid>>

DialWriteFail_(d) ==      \* mux.dial.wrote b=0: the session died before the id could be written
  /\ dpc[d] = "opened" /\ d \notin AbortDials /\ down
  /\ dpc' = [dpc EXCEPT ![d] = "ret"] /\ dres' = [dres EXCEPT ![d] = "eof"]
  /\ UNCHANGED <<dt, strv, runv, brkv, twv, accv, panicked, nid>>

DialAbort_(d) ==          \* the peer closes the stream it opened without writing an id
  /\ d \in AbortDials /\ dpc[d] = "opened"
  /\ dpc' = [dpc EXCEPT ![d] = "ret"] /\ dres' = [dres EXCEPT ![d] = "aborted"]
  /\ UNCHANGED <<dt, strv, runv, brkv, twv, accv, panicked, nid>>

DialAck_(d) ==            \* mux.dial.ack, ret.dial
  /\ dpc[d] = "wrote"
  /\ \/ /\ ackv[d] # -1
        /\ dres' = [dres EXCEPT ![d] = IF ackv[d] = DId(d) THEN "ok" ELSE "badack"]
     \/ /\ ackv[d] = -1 /\ (loc[d] = "closed" \/ down)
        /\ dres' = [dres EXCEPT ![d] = "eof"]
  /\ dpc' = [dpc EXCEPT ![d] = "ret"]
  /\ UNCHANGED <<dt, strv, runv, brkv, twv, accv, panicked, nid>>

-----------------------------------------------------------------------------
(* Run loop of side s (serves the streams opened by the other side)         *)

WireHead(s) == {d \in Dials : DSide(d) = Other(s) /\ loc[d] = "wire"}

RunSpawn_(s) ==           \* go timeoutWait(id, p): silent, part of leaving run.park
  /\ rpc[s] = "park"
  /\ tpc' = [tpc EXCEPT ![rcur[s]] = "wait"] /\ tslot' = [tslot EXCEPT ![rcur[s]] = rslot[s]]
  /\ tdl' = [tdl EXCEPT ![rcur[s]] = now + W]
  /\ rpc' = [rpc EXCEPT ![s] = "accept"] /\ rcur' = [rcur EXCEPT ![s] = None] /\ rslot' = [rslot EXCEPT ![s] = 0]
  /\ UNCHANGED <<dialv, strv, brkv, tto, trearm, accv, panicked, nid>>

RunStream_(s, d) ==       \* mux.run.stream (yamux delivers streams in any order of arrival)
  /\ rpc[s] = "accept" /\ d \in WireHead(s)
  /\ rpc' = [rpc EXCEPT ![s] = "stream"] /\ rcur' = [rcur EXCEPT ![s] = d]
  /\ loc' = [loc EXCEPT ![d] = "run"]
  /\ UNCHANGED <<dialv, idw, ackv, rslot, brkv, twv, accv, panicked, nid>>

RunId_(s) ==              \* mux.run.id
  /\ rpc[s] = "stream" /\ idw[rcur[s]]
  /\ rpc' = [rpc EXCEPT ![s] = "id"]
  /\ UNCHANGED <<dialv, strv, rcur, rslot, brkv, twv, accv, panicked, nid>>

RunIdFail_(s) ==          \* mux.run.id b=0: reading the id failed, the stream is closed, the loop goes on
  /\ rpc[s] = "stream" /\ (dres[rcur[s]] = "aborted" \/ (down /\ ~idw[rcur[s]]))
  /\ loc' = [loc EXCEPT ![rcur[s]] = "closed"]
  /\ rpc' = [rpc EXCEPT ![s] = "accept"] /\ rcur' = [rcur EXCEPT ![s] = None]
  /\ UNCHANGED <<dialv, idw, ackv, rslot, brkv, twv, accv, panicked, nid>>

RunExit_(s) ==            \* mux.run.exit: AcceptStream fails, the loop ends
  /\ rpc[s] = "accept" /\ down
  /\ rpc' = [rpc EXCEPT ![s] = "exit"]
  /\ UNCHANGED <<dialv, strv, rcur, rslot, brkv, twv, accv, panicked, nid>>

RunSlot_(s) ==            \* mux.getstream, mux.run.slot
  /\ rpc[s] = "id"
  /\ \E k \in Slots : GetStream(s, DId(rcur[s]), k) /\ rslot' = [rslot EXCEPT ![s] = k]
  /\ rpc' = [rpc EXCEPT ![s] = "slot"]
  /\ UNCHANGED <<dialv, strv, rcur, sch, sdone, lock, twv, accv, panicked, nid>>

RunPark_(s) ==            \* mux.run.park (non-blocking send into the 1-buffered slot)
  /\ rpc[s] = "slot"
  /\ IF sch[s][rslot[s]] = None
     THEN /\ sch' = [sch EXCEPT ![s][rslot[s]] = rcur[s]]
          /\ loc' = [loc EXCEPT ![rcur[s]] = "slot"]
     ELSE /\ UNCHANGED sch
          /\ loc' = [loc EXCEPT ![rcur[s]] = IF FixDrop THEN "closed" ELSE "dropped"]
  /\ rpc' = [rpc EXCEPT ![s] = "park"]
  /\ UNCHANGED <<dialv, idw, ackv, rcur, rslot, slotOf, sdone, nslots, lock, twv, accv, panicked, nid>>

-----------------------------------------------------------------------------
(* timeoutWait for the stream of dial d, on side Other(DSide(d))            *)

TSide(d) == Other(DSide(d))

TWRearm_(d) ==            \* the goroutine really starts (its timer is armed) some time after run.park
  /\ tpc[d] = "wait" /\ ~trearm[d]
  /\ tdl' = [tdl EXCEPT ![d] = now + W] /\ trearm' = [trearm EXCEPT ![d] = TRUE]
  /\ UNCHANGED <<dialv, strv, runv, brkv, tpc, tslot, tto, accv, panicked, nid>>

TWWakeDone_(d) ==         \* mux.tw.woke b=0
  /\ tpc[d] = "wait" /\ sdone[TSide(d)][tslot[d]]
  /\ tpc' = [tpc EXCEPT ![d] = "woke"] /\ tto' = [tto EXCEPT ![d] = FALSE]
  /\ UNCHANGED <<dialv, strv, runv, brkv, tslot, tdl, trearm, accv, panicked, nid>>

TWWakeTimeout_(d) ==      \* mux.tw.woke b=1
  /\ tpc[d] = "wait" /\ now >= tdl[d]
  /\ tpc' = [tpc EXCEPT ![d] = "woke"] /\ tto' = [tto EXCEPT ![d] = TRUE]
  /\ UNCHANGED <<dialv, strv, runv, brkv, tslot, tdl, trearm, accv, panicked, nid>>

\* Lock; delete(streams, id) -- whatever slot is under the id now; drain; Unlock.
TWFinish_(d) ==           \* mux.tw.drain
  LET s == TSide(d)  k == tslot[d] IN
  /\ tpc[d] = "woke" /\ lock[s] = "free"
  /\ slotOf' = [slotOf EXCEPT ![s][DId(d)] = 0]
  /\ IF FixDrain \/ tto[d]
     THEN IF sch[s][k] # None
          THEN /\ loc' = [loc EXCEPT ![sch[s][k]] = "closed"]
               /\ sch' = [sch EXCEPT ![s][k] = None]
               /\ tpc' = [tpc EXCEPT ![d] = "done"] /\ UNCHANGED lock
          ELSE IF FixDrain
               THEN /\ tpc' = [tpc EXCEPT ![d] = "done"] /\ UNCHANGED <<loc, sch, lock>>
               ELSE \* pre-fix: blocking receive on the empty channel, lock held
                    /\ tpc' = [tpc EXCEPT ![d] = "stuck"] /\ lock' = [lock EXCEPT ![s] = d]
                    /\ UNCHANGED <<loc, sch>>
     ELSE /\ tpc' = [tpc EXCEPT ![d] = "done"] /\ UNCHANGED <<loc, sch, lock>>
  /\ UNCHANGED <<dialv, idw, ackv, runv, sdone, nslots, tslot, tdl, tto, trearm, accv, panicked, nid>>

\* pre-fix only: a later park into the same slot object would unblock the stuck receive
TWUnstick_(d) ==
  LET s == TSide(d)  k == tslot[d] IN
  /\ tpc[d] = "stuck" /\ sch[s][k] # None
  /\ loc' = [loc EXCEPT ![sch[s][k]] = "closed"] /\ sch' = [sch EXCEPT ![s][k] = None]
  /\ lock' = [lock EXCEPT ![s] = "free"] /\ tpc' = [tpc EXCEPT ![d] = "done"]
  /\ UNCHANGED <<dialv, idw, ackv, runv, slotOf, sdone, nslots, tslot, tdl, tto, trearm, accv, panicked, nid>>

-----------------------------------------------------------------------------
(* Accept(id)                                                               *)

AcceptSlot_(a) ==         \* call.accept, mux.getstream, mux.accept.slot; then the select is entered
  /\ apc[a] = "new"
  /\ \E k \in Slots : GetStream(ASide(a), AId(a), k) /\ aslot' = [aslot EXCEPT ![a] = k]
  /\ apc' = [apc EXCEPT ![a] = "wait"] /\ adl' = [adl EXCEPT ![a] = now + W] /\ at' = [at EXCEPT ![a] = now]
  /\ UNCHANGED <<dialv, strv, runv, sch, sdone, lock, twv, aconn, ares, arearm, panicked, nid>>

AcceptRearm_(a) ==        \* the select (and its 5 s timer) starts some time after getStream
  /\ apc[a] = "wait" /\ ~arearm[a]
  /\ adl' = [adl EXCEPT ![a] = now + W] /\ arearm' = [arearm EXCEPT ![a] = TRUE]
  /\ UNCHANGED <<dialv, strv, runv, brkv, twv, apc, aslot, aconn, ares, at, panicked, nid>>

AcceptTake_(a) ==         \* mux.accept.took
  LET s == ASide(a)  k == aslot[a] IN
  /\ apc[a] = "wait" /\ sch[s][k] # None
  /\ aconn' = [aconn EXCEPT ![a] = sch[s][k]]
  /\ loc' = [loc EXCEPT ![sch[s][k]] = "acc"]
  /\ sch' = [sch EXCEPT ![s][k] = None]
  /\ apc' = [apc EXCEPT ![a] = "took"]
  /\ UNCHANGED <<dialv, idw, ackv, runv, slotOf, sdone, nslots, lock, twv, aslot, adl, ares, at, arearm, panicked, nid>>

AcceptClose_(a) ==        \* close(p.doneCh); mux.accept.closed
  LET s == ASide(a)  k == aslot[a] IN
  /\ apc[a] = "took"
  /\ IF sdone[s][k] THEN panicked' = TRUE /\ UNCHANGED sdone
                    ELSE sdone' = [sdone EXCEPT ![s][k] = TRUE] /\ UNCHANGED panicked
  /\ apc' = [apc EXCEPT ![a] = "closed"]
  /\ UNCHANGED <<dialv, strv, runv, slotOf, sch, nslots, lock, twv, aslot, aconn, adl, ares, at, arearm, nid>>

AcceptAck_(a) ==          \* write ack; mux.accept.ack b=1, ret.accept ok
  /\ apc[a] = "closed" /\ ~down
  /\ ackv' = [ackv EXCEPT ![aconn[a]] = AId(a)]
  /\ ares' = [ares EXCEPT ![a] = "ok"] /\ apc' = [apc EXCEPT ![a] = "ret"]
  /\ UNCHANGED <<dialv, loc, idw, runv, brkv, twv, aslot, aconn, adl, at, arearm, panicked, nid>>

AcceptAckFail_(a) ==      \* mux.accept.ack b=0: the ack cannot be written, the stream is closed, ret.accept err
  /\ apc[a] = "closed" /\ down
  /\ loc' = [loc EXCEPT ![aconn[a]] = "closed"]
  /\ ares' = [ares EXCEPT ![a] = "err"] /\ apc' = [apc EXCEPT ![a] = "ret"]
  /\ UNCHANGED <<dialv, idw, ackv, runv, brkv, twv, aslot, aconn, adl, at, arearm, panicked, nid>>

AcceptTimeout_(a) ==      \* mux.accept.timeout
  /\ apc[a] = "wait" /\ now >= adl[a]
  /\ apc' = [apc EXCEPT ![a] = "tmo"]
  /\ UNCHANGED <<dialv, strv, runv, brkv, twv, aslot, aconn, adl, ares, at, arearm, panicked, nid>>

AcceptDelete_(a) ==       \* Lock; delete(streams, id); mux.accept.deleted; ret.accept timeout
  /\ apc[a] = "tmo" /\ lock[ASide(a)] = "free"
  /\ slotOf' = [slotOf EXCEPT ![ASide(a)][AId(a)] = 0]
  /\ ares' = [ares EXCEPT ![a] = "timeout"] /\ apc' = [apc EXCEPT ![a] = "ret"]
  /\ UNCHANGED <<dialv, strv, runv, sch, sdone, nslots, lock, twv, aslot, aconn, adl, at, arearm, panicked, nid>>

-----------------------------------------------------------------------------
NextId_(s) ==             \* atomic.AddUint32
  /\ nid[s] < MaxNextId
  /\ nid' = [nid EXCEPT ![s] = @ + 1]
  /\ UNCHANGED <<dialv, strv, runv, brkv, twv, accv, panicked>>

-----------------------------------------------------------------------------
SessionDown_ ==           \* the connection is cut / the peer process dies
  /\ AllowDown /\ ~down /\ down' = TRUE
  /\ UNCHANGED <<dialv, strv, runv, brkv, twv, accv, panicked, nid>>

(* Every action leaves the clock alone; only Tick advances it. *)
DialOpen(d) == DialOpen_(d) /\ UNCHANGED <<now, down>>
DialWrite(d) == DialWrite_(d) /\ UNCHANGED <<now, down>>
DialAck(d) == DialAck_(d) /\ UNCHANGED <<now, down>>
DialAbort(d) == DialAbort_(d) /\ UNCHANGED <<now, down>>
RunIdFail(s) == RunIdFail_(s) /\ UNCHANGED <<now, down>>
RunSpawn(s) == RunSpawn_(s) /\ UNCHANGED <<now, down>>
RunStream(s, d) == RunStream_(s, d) /\ UNCHANGED <<now, down>>
RunId(s) == RunId_(s) /\ UNCHANGED <<now, down>>
RunSlot(s) == RunSlot_(s) /\ UNCHANGED <<now, down>>
RunPark(s) == RunPark_(s) /\ UNCHANGED <<now, down>>
TWRearm(d) == TWRearm_(d) /\ UNCHANGED <<now, down>>
TWWakeDone(d) == TWWakeDone_(d) /\ UNCHANGED <<now, down>>
TWWakeTimeout(d) == TWWakeTimeout_(d) /\ UNCHANGED <<now, down>>
TWFinish(d) == TWFinish_(d) /\ UNCHANGED <<now, down>>
TWUnstick(d) == TWUnstick_(d) /\ UNCHANGED <<now, down>>
AcceptSlot(a) == AcceptSlot_(a) /\ UNCHANGED <<now, down>>
AcceptRearm(a) == AcceptRearm_(a) /\ UNCHANGED <<now, down>>
AcceptTake(a) == AcceptTake_(a) /\ UNCHANGED <<now, down>>
AcceptClose(a) == AcceptClose_(a) /\ UNCHANGED <<now, down>>
AcceptAck(a) == AcceptAck_(a) /\ UNCHANGED <<now, down>>
AcceptTimeout(a) == AcceptTimeout_(a) /\ UNCHANGED <<now, down>>
AcceptDelete(a) == AcceptDelete_(a) /\ UNCHANGED <<now, down>>
NextId(s) == NextId_(s) /\ UNCHANGED <<now, down>>
DialWriteFail(d) == DialWriteFail_(d) /\ UNCHANGED <<now, down>>
RunExit(s) == RunExit_(s) /\ UNCHANGED <<now, down>>
AcceptAckFail(a) == AcceptAckFail_(a) /\ UNCHANGED <<now, down>>
SessionDown == SessionDown_ /\ UNCHANGED now
EnvDown == now <= IssueMax /\ SessionDown
EnvDial(d) == now <= IssueMax /\ DialOpen(d)
EnvAccept(a) == now <= IssueMax /\ AcceptSlot(a)
LagTW(d) == ~MaxProgress /\ TWRearm(d)
LagAccept(a) == ~MaxProgress /\ AcceptRearm(a)

\* Steps that take no time once enabled
Instant ==
  \/ \E d \in Dials : DialWrite(d) \/ DialWriteFail(d) \/ DialAck(d) \/ DialAbort(d) \/ TWWakeDone(d) \/ TWWakeTimeout(d) \/ TWFinish(d) \/ TWUnstick(d)
  \/ \E s \in Sides : RunSpawn(s) \/ RunId(s) \/ RunIdFail(s) \/ RunExit(s) \/ RunSlot(s) \/ RunPark(s) \/ (\E d \in Dials : RunStream(s, d))
  \/ \E a \in Accepts : AcceptTake(a) \/ AcceptClose(a) \/ AcceptAck(a) \/ AcceptAckFail(a) \/ AcceptTimeout(a) \/ AcceptDelete(a)

Tick ==
  /\ now < MaxT
  /\ MaxProgress => ~ENABLED Instant
  /\ now' = now + 1
  /\ UNCHANGED <<dialv, strv, runv, brkv, twv, accv, panicked, nid, down>>

\* a flat disjunction of named actions, so that TLC's graph dump labels every edge Action(args)
Next ==
  \/ \E d \in Dials : \/ EnvDial(d) \/ DialWrite(d) \/ DialWriteFail(d) \/ DialAck(d) \/ DialAbort(d)
                       \/ TWWakeDone(d) \/ TWWakeTimeout(d) \/ TWFinish(d) \/ TWUnstick(d) \/ LagTW(d)
  \/ \E s \in Sides : \/ RunSpawn(s) \/ RunId(s) \/ RunIdFail(s) \/ RunExit(s) \/ RunSlot(s) \/ RunPark(s) \/ NextId(s)
                       \/ \E d \in Dials : RunStream(s, d)
  \/ \E a \in Accepts : \/ EnvAccept(a) \/ AcceptTake(a) \/ AcceptClose(a) \/ AcceptAck(a) \/ AcceptAckFail(a)
                         \/ AcceptTimeout(a) \/ AcceptDelete(a) \/ LagAccept(a)
  \/ EnvDown
  \/ Tick

Spec == Init /\ [][Next]_vars /\ WF_vars(Instant) /\ WF_vars(Tick)

-----------------------------------------------------------------------------
(* Properties                                                               *)

TypeOK ==
  /\ now \in 0..MaxT
  /\ \A d \in Dials : loc[d] \in {"none", "wire", "run", "slot", "acc", "closed", "dropped"}
  /\ \A s \in Sides : lock[s] \in {"free"} \cup Dials /\ rpc[s] \in {"accept", "stream", "id", "slot", "park", "exit"}
  /\ down \in BOOLEAN
\* a dead session: nothing is reported as established afterwards that was not acknowledged before
DownMeansNoNewAck == [][down => ackv' = ackv]_vars

\* C06: a connection returned by Accept(n) is the one dialled with Dial(n), from the other side,
\* and no stream is handed to two acceptors.
Routing ==
  /\ \A a \in Accepts : aconn[a] # None => (DId(aconn[a]) = AId(a) /\ DSide(aconn[a]) = Other(ASide(a)))
  /\ \A a, b \in Accepts : (aconn[a] # None /\ aconn[a] = aconn[b]) => a = b
\* a dial only ever reports success for its own id
AckMatches == \A d \in Dials : dres[d] = "ok" => (\E a \in Accepts : aconn[a] = d /\ AId(a) = DId(d))
NoBadAck == \A d \in Dials : dres[d] # "badack"

\* C20 (contract: one Accept per id at a time): doneCh is closed at most once
NoPanic == ~panicked

\* C09: the expiry goroutine never blocks while holding the broker lock
NoWedge == \A d \in Dials : tpc[d] # "stuck"
LockFree == \A s \in Sides : lock[s] = "free"

\* at the end of time nothing is left waiting
Quiesced == now = MaxT /\ ~ENABLED Instant
NoStuckAtEnd ==
  Quiesced => /\ \A d \in Dials : dpc[d] \in {"new", "ret"}
              /\ \A a \in Accepts : apc[a] \in {"new", "ret"}
              /\ \A d \in Dials : tpc[d] \in {"none", "done"}

\* C09 liveness: every call returns
DialsReturn == \A d \in Dials : (dpc[d] = "opened") ~> (dpc[d] = "ret")
AcceptsReturn == \A a \in Accepts : (apc[a] = "wait") ~> (apc[a] = "ret")

\* C06/C09: an accept and a dial that are the only users of their id and are issued less than W
\* apart (either order) both succeed, whatever happens on the other ids.  (MaxProgress only.)
Sole(a, d) == /\ AId(a) = DId(d) /\ ASide(a) = Other(DSide(d)) /\ d \notin AbortDials
              /\ \A b \in Accepts \ {a} : ~(AId(b) = AId(a) /\ ASide(b) = ASide(a))
              /\ \A e \in Dials \ {d} : ~(DId(e) = DId(d) /\ DSide(e) = DSide(d))
InWindow(a, d) == at[a] >= 0 /\ dt[d] >= 0 /\ at[a] - dt[d] < W /\ dt[d] - at[a] < W
WindowSuccess ==
  \A a \in Accepts, d \in Dials :
    (Sole(a, d) /\ InWindow(a, d) /\ Quiesced /\ ~down) => (ares[a] = "ok" /\ dres[d] = "ok" /\ aconn[a] = d)

\* an accept never returns later than W after its select started; a dial whose stream was
\* handled returns no later than the expiry of its slot (checked as: nothing stuck at the end)
AcceptBounded == \A a \in Accepts : apc[a] = "wait" => now <= adl[a]

=============================================================================
