---------------------------- MODULE TraceVersions ----------------------------
(***************************************************************************)
(* Conformance of the real negotiation with Versions!Announce.  Each line  *)
(* of the log is one observed negotiation: layer "plugin" (the plugin      *)
(* binary alone, given a raw PLUGIN_PROTOCOL_VERSIONS value, its handshake *)
(* line parsed) or layer "pair" (a real Client and plugin process).        *)
(***************************************************************************)
EXTENDS Versions, Json, IOUtils

Obs == ndJsonDeserialize(IOEnv.VERIF_TRACE)
VARIABLES i, bad
tv == <<i, bad, vv>>

SetOf(seq) == {seq[k] : k \in 1..Len(seq)}
ServedOf(o) == {o.served[k].v : k \in 1..Len(o.served)}
ProtoOf(o) == [v \in VersionsU |-> IF \E k \in 1..Len(o.served) : o.served[k].v = v
                                   THEN o.served[CHOOSE k \in 1..Len(o.served) : o.served[k].v = v].proto
                                   ELSE "netrpc"]
\* what the plugin understands from the list it was sent: the tokens that are integers
Understood(o) == {o.tokens[k].val : k \in {j \in 1..Len(o.tokens) : o.tokens[j].valid}}

Conforms(o) ==
  LET S == ServedOf(o)  P == ProtoOf(o)
      a == Announce(Understood(o), S, P, o.grpc_factory)
  IN
  /\ S # {} /\ S \subseteq VersionsU
  /\ IF o.layer = "plugin"
     THEN /\ o.out.served                            \* the plugin came up and printed a line
          /\ o.out.line_version = a[1] /\ o.out.line_proto = a[2]
          /\ o.out.plugin_tag = a[1]               \* and serves the set registered under the version it announced
     ELSE IF o.layer = "testmode"
     THEN \* served in-process in test mode: what the reattached client reports is the version whose set it is served
          /\ o.out.served
          /\ o.out.line_version = a[1] /\ o.out.line_proto = a[2]
          /\ o.out.negotiated = a[1] /\ o.out.plugin_tag = a[1]
     ELSE LET H == SetOf(o.host) IN
          /\ Understood(o) = H                       \* a real client sends exactly what it offers
          /\ IF a[1] \in H
             THEN /\ o.out.start_ok
                  /\ o.out.negotiated = a[1] /\ o.out.host_tag = a[1] /\ o.out.plugin_tag = a[1]
                  /\ o.out.proto = a[2]
                  \* the property, stated directly: the highest common version
                  /\ a[1] = Max(H \cap S)
             ELSE /\ ~o.out.start_ok /\ o.out.err_incompatible /\ o.out.pid_gone
                  /\ H \cap S = {}

TInit == /\ i = 1 /\ bad = 0 /\ hostOffers = {0} /\ served = {0} /\ protoOf = [v \in VersionsU |-> "netrpc"]
         /\ grpcFactory = FALSE /\ sentList = TRUE /\ res = NoRes
TNext ==
  /\ i <= Len(Obs)
  /\ i' = i + 1
  /\ IF Conforms(Obs[i]) THEN bad' = bad
     ELSE bad' = bad + 1 /\ PrintT(<<"DEVIATION", i, Obs[i].name>>)
  /\ UNCHANGED vv
TSpec == TInit /\ [][TNext]_tv
Done == (i = Len(Obs) + 1) => PrintT(<<"JUDGED", Len(Obs), "BAD", bad>>)
=============================================================================
