SPECIFICATION Spec
CONSTANTS
  Dials <- DialsC
  Accepts <- AcceptsC
  AbortDials <- NoAborts
  DSide <- CSide
  DId <- CId
  ASide <- CSide
  AId <- CId
  W = 2
  IssueMax = 3
  MaxT = 8
  MaxProgress = TRUE
  FixDrain = FALSE
  FixDrop = FALSE
  MaxNextId = 0
INVARIANTS NoWedge

CHECK_DEADLOCK FALSE
