SPECIFICATION RSpec
CONSTANTS
  Proto = "grpc"
  Mux = FALSE
  Runner = FALSE
  MaxOps = 4
  LeakMainOnMux = FALSE
  LeakPluginBrokered = TRUE
INVARIANT NoLeak
CHECK_DEADLOCK FALSE
