SPECIFICATION Spec
CONSTANTS
  Plan = "closeout"
  MaxCalls = 5
  RetryLaunch = FALSE
INVARIANTS TypeOK LaunchAtMostOnce FailedStartKills KillPost
PROPERTIES NoLaunchAfterKill FailedStartEndsProcess
CHECK_DEADLOCK FALSE
