---------------------------- MODULE TraceResources ----------------------------
(* C18 on real processes: one line per history; what was left behind after a graceful Kill.        *)
EXTENDS Resources, Json, IOUtils

Obs == ndJsonDeserialize(IOEnv.VERIF_TRACE)
VARIABLES i, bad

Conforms(o) ==
  /\ o.out.setup_ok /\ o.out.graceful                      \* the scenario is a graceful shutdown
  /\ o.out.ops_ok                                          \* the history itself worked
  /\ Len(o.out.leftover_sockets) = 0                       \* NoLeak: no socket file on either side
  /\ Len(o.out.leftover_dirs) = 0                          \* no temporary directory
  /\ o.out.leftover_goroutines = 0                         \* no goroutine started for this client, a few seconds later

TInit == i = 1 /\ bad = 0
TNext ==
  /\ i <= Len(Obs)
  /\ i' = i + 1
  /\ IF Conforms(Obs[i]) THEN bad' = bad
     ELSE bad' = bad + 1 /\ PrintT(<<"DEVIATION", i, Obs[i].name>>)
  /\ UNCHANGED rv
TSpec == TInit /\ RInit /\ [][TNext]_<<i, bad, rv>>
Done == (i = Len(Obs) + 1) => PrintT(<<"JUDGED", Len(Obs), "BAD", bad>>)
=============================================================================
