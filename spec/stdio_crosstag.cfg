SPECIFICATION SSpec
CONSTANTS
  MaxWrites = 4
  OneFifo = TRUE
  CrossTag = TRUE
  Reuse = FALSE
  Handover = FALSE
  Requeue = FALSE
INVARIANTS NoCrossing
CHECK_DEADLOCK FALSE
