------------------------------ MODULE TraceEnv ------------------------------
(* Conformance of the environment a real Client hands to its plugin with Env. *)
EXTENDS Env, Json, IOUtils, Sequences

Obs == ndJsonDeserialize(IOEnv.VERIF_TRACE)
VARIABLES i, bad
tv == <<i, bad, ev>>

C(o) == [automtls |-> o.cfg.automtls, mux |-> o.cfg.mux, group |-> o.cfg.group, runner |-> o.cfg.runner, skip |-> o.cfg.skip,
         relaunch |-> o.cfg.relaunch, presettls |-> o.cfg.presettls]
H(o) == [v \in Vars |-> o.host[v]]

Conforms(o) ==
  /\ \A v \in Vars : /\ o.out.source[v] \in Allowed(v, C(o), H(o))      \* the property
                     /\ o.out.source[v] = Source(v, C(o), H(o))           \* and the model of the code
  /\ o.out.versions_exact                                                \* exactly the set of offered versions
  /\ o.out.stdin_is_host

TInit == i = 1 /\ bad = 0 /\ cfg = C(Obs[1]) /\ host = H(Obs[1]) /\ done = FALSE
TNext ==
  /\ i <= Len(Obs)
  /\ i' = i + 1
  /\ IF Conforms(Obs[i]) THEN bad' = bad
     ELSE bad' = bad + 1 /\ PrintT(<<"DEVIATION", i, Obs[i].name>>)
  /\ UNCHANGED ev
TSpec == TInit /\ [][TNext]_tv
Done == (i = Len(Obs) + 1) => PrintT(<<"JUDGED", Len(Obs), "BAD", bad>>)
=============================================================================
