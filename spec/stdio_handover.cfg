SPECIFICATION SSpec
CONSTANTS
  MaxWrites = 4
  OneFifo = TRUE
  CrossTag = FALSE
  Reuse = FALSE
  Handover = TRUE
  Requeue = FALSE
INVARIANTS Prefix NoCrossing Complete Run
CHECK_DEADLOCK FALSE
