SPECIFICATION TSpec
CONSTANTS
  MaxWrites = 1
  OneFifo = TRUE
  CrossTag = FALSE
  Reuse = FALSE
  Handover = FALSE
  Requeue = FALSE
INVARIANT Done
CHECK_DEADLOCK FALSE
