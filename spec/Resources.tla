------------------------------ MODULE Resources ------------------------------
(***************************************************************************)
(* What go-plugin creates for one client/plugin pair and who removes it    *)
(* (server.go serverListener / rmListener, grpc_broker.go Accept,          *)
(* client.go RunnerFunc socket directory and management goroutines,        *)
(* grpcmux).  A history is a sequence of operations (dispense, brokered    *)
(* connection in either direction, stdio traffic) followed by a graceful   *)
(* Kill; every action that creates a socket file, directory or goroutine   *)
(* adds it to the pair's resource set, every close/remove action deletes   *)
(* it.  After the graceful shutdown has settled the set must be empty.     *)
(* LeakMainOnMux / LeakPluginBrokered = TRUE model the two shutdown paths  *)
(* that do not remove their socket (the first was repaired, the second is  *)
(* a recorded finding); they exist to show the model is sensitive.         *)
(***************************************************************************)
EXTENDS Integers, Sequences, FiniteSets, TLC

CONSTANTS Proto, Mux, Runner, MaxOps, LeakMainOnMux, LeakPluginBrokered
Ops == {"dispense", "broker_h2p", "broker_p2h", "stdio", "accept_during_shutdown", "unmatched_dials", "unmatched_accept",
        "broker_h2p_reuse", "broker_p2h_reuse",     \* _reuse: one brokered id used for several establishments in a row
        "raw_accept_reuse",                         \* the host application accepts an id twice itself and never closes the listeners
        "raw_accept_closed",                        \* it accepts two ids itself, closes the first listener when done with it, leaves the second
        "raw_accept_unserved", "raw_accept_unserved_twice"} \* (_twice: dialled twice)
                                                    \* (gRPC) it reserves an id with Accept and never accepts on the listener; the plugin dials the
                                                    \* id once and gives up; the application closes the listener after the Kill

VARIABLES res, phase, nops, nb
rv == <<res, phase, nops, nb>>
\* resources: <<kind, owner side, n>>
RInit == /\ res = {} /\ phase = "new" /\ nops = 0 /\ nb = 0

Start == /\ phase = "new" /\ phase' = "up"
         /\ res' = res \cup {<<"main_socket", "plugin", 0>>, <<"mgmt_goroutines", "host", 0>>}
                       \cup (IF Runner THEN {<<"socket_dir", "host", 0>>} ELSE {})
         /\ UNCHANGED <<nops, nb>>
Op(o) == /\ phase = "up" /\ nops < MaxOps /\ nops' = nops + 1
         /\ (o = "accept_during_shutdown" => Proto = "grpc")
         /\ IF o \in {"broker_h2p_reuse", "broker_p2h_reuse", "raw_accept_reuse"}
            THEN \* two listeners (plain gRPC: two sockets) under one id, both still open at the Kill
                 /\ nb' = nb + 2
                 /\ res' = res \cup (IF Proto = "grpc" /\ ~Mux
                                      THEN {<<"brokered_socket", IF o = "broker_h2p_reuse" THEN "plugin" ELSE "host", nb + 1>>,
                                            <<"brokered_socket", IF o = "broker_h2p_reuse" THEN "plugin" ELSE "host", nb + 2>>}
                                      ELSE {}) \cup {<<"broker_goroutines", "both", nb + 1>>, <<"broker_goroutines", "both", nb + 2>>}
            ELSE IF o = "raw_accept_closed"
            THEN \* the first listener's socket went when its owner closed it; the second is still there at the Kill
                 /\ nb' = nb + 2
                 /\ res' = res \cup (IF Proto = "grpc" /\ ~Mux THEN {<<"brokered_socket", "host", nb + 2>>} ELSE {})
                               \cup {<<"broker_goroutines", "both", nb + 1>>, <<"broker_goroutines", "both", nb + 2>>}
            ELSE IF o \in {"raw_accept_unserved", "raw_accept_unserved_twice"} /\ Proto = "grpc"
            THEN \* a host listener nobody accepts on: its socket (plain gRPC) or its knock listener with the token of
                 \* the one knock it acknowledged (multiplexed; a second knock waits in unblock until the listener is closed); the dialler's half-open connections
                 /\ nb' = nb + 1
                 /\ res' = res \cup (IF ~Mux THEN {<<"brokered_socket", "host", nb + 1>>} ELSE {})
                               \cup {<<"broker_goroutines", "both", nb + 1>>}
            ELSE IF o \in {"broker_h2p", "broker_p2h", "accept_during_shutdown"} /\ Proto = "grpc" /\ ~Mux
            THEN \* plain gRPC: the accepting side opens a listener with its own socket file
                 /\ nb' = nb + 1
                 \* (accept_during_shutdown: the plugin accepts one more id while handling the shutdown
                 \* request; its ConnInfo reaches a host whose broker is already closed)
                 /\ res' = res \cup {<<"brokered_socket", IF o = "broker_p2h" THEN "host" ELSE "plugin", nb + 1>>,
                                     <<"broker_goroutines", IF o = "broker_p2h" THEN "host" ELSE "plugin", nb + 1>>}
            ELSE IF o \in {"broker_h2p", "broker_p2h", "accept_during_shutdown"}
            THEN \* net/rpc and multiplexed gRPC: a stream over the existing connection, goroutines only
                 /\ nb' = nb + 1 /\ res' = res \cup {<<"broker_goroutines", "both", nb + 1>>}
            ELSE IF o \in {"unmatched_dials", "unmatched_accept"}
            THEN \* the plugin dials one id twice and nobody accepts / the host accepts and nobody dials: the
                 \* calls give up after the pending window; what they started (pending slots, expiry
                 \* goroutines, a listener with its socket under plain gRPC) is gone by then
                 /\ nb' = nb + 1 /\ UNCHANGED res
            ELSE UNCHANGED <<res, nb>>
         /\ UNCHANGED phase
\* graceful Kill: the protocol client is closed, the plugin stops its servers, closes its listeners
\* (removing the socket files) and exits; the host waits for its goroutines and removes the directory
Kill == /\ phase = "up" /\ phase' = "killed"
        /\ res' = {r \in res : \/ (r[1] = "main_socket" /\ LeakMainOnMux /\ Mux)
                               \/ (r[1] = "brokered_socket" /\ r[2] = "plugin" /\ LeakPluginBrokered)}
        /\ UNCHANGED <<nops, nb>>
RNext == Start \/ Kill \/ \E o \in Ops : Op(o)
RSpec == RInit /\ [][RNext]_rv
NoLeak == phase = "killed" => res = {}
=============================================================================
