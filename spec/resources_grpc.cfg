SPECIFICATION RSpec
CONSTANTS
  Proto = "grpc"
  Mux = FALSE
  Runner = TRUE
  MaxOps = 4
  LeakMainOnMux = FALSE
  LeakPluginBrokered = FALSE
INVARIANT NoLeak
CHECK_DEADLOCK FALSE
