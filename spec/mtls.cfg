SPECIFICATION MSpec
INVARIANTS OnlyThePeer PeerIsServed
CHECK_DEADLOCK FALSE
