----------------------------- MODULE CrashTable -----------------------------
(***************************************************************************)
(* C03: what a host call may return when the plugin process dies at a      *)
(* given point.  A scenario is a crash point, a protocol and the script of *)
(* host calls made around it; Allowed gives, for every call of the script  *)
(* that is in flight at, or issued after, the crash, the set of permitted  *)
(* results, and Bound the time it may take.  "err" is mandatory whenever   *)
(* the call needs the plugin; the only calls that do not are the ones gRPC *)
(* makes lazily (Client and Dispense build a connection object without     *)
(* talking to the plugin) and accepting a brokered connection under gRPC   *)
(* (a listener is opened locally).                                         *)
(***************************************************************************)
EXTENDS Integers, Sequences, FiniteSets, TLC

\* in_accept: the host is waiting in the broker's Accept for an id nobody has dialled when the plugin dies
Points == {"before_output", "mid_line", "after_line", "idle", "in_unary", "in_stream", "in_accept", "broker_after_id", "during_stdio"}
Protos == {"netrpc", "grpc", "grpcmux"}
Ops == {"start", "client", "dispense", "ping", "call", "stream", "broker_dial", "broker_accept", "kill"}

IsGRPC(p) == p \in {"grpc", "grpcmux"}

\* does the call need a live plugin to do its job?
Needs(op, proto) ==
  CASE op = "client" -> FALSE                                \* no round trip: a connect the kernel still accepts, lazy under gRPC
    [] op = "dispense" -> ~IsGRPC(proto)                     \* gRPC builds the plugin's client locally
    [] op = "broker_accept" -> ~IsGRPC(proto)                \* gRPC opens / registers a local listener
    [] op = "kill" -> FALSE
    [] OTHER -> TRUE

\* results allowed for a call issued after (or in flight at) the crash
Allowed(point, proto, op, startedOk) ==
  IF op = "start"
  THEN IF point \in {"after_line", "mid_line"} THEN {"ok", "err"} ELSE {"err"}
       \* after_line: the line may or may not have been read before the exit was seen; mid_line: what was
       \* written before the exit is read as the (unterminated) last line and may happen to parse
  ELSE IF op = "kill" THEN {"ok"}
  ELSE IF ~startedOk THEN {"err"}                                    \* nothing works on a client whose start failed
  ELSE IF Needs(op, proto) THEN {"err"} ELSE {"ok", "err"}

\* how long the call may take (ms): the start timeout, the 5 s broker waits (the multiplexed dial
\* is retried by gRPC until the call's own deadline), otherwise prompt
Bound(proto, op) ==
  CASE op = "start" -> 6500
    [] op = "broker_dial" -> IF proto = "grpcmux" THEN 13000 ELSE 6500
    [] op = "broker_accept" -> 6500
    [] OTHER -> 3000

\* which (point, protocol) combinations exist
Exists(point, proto) == /\ (point = "in_stream") => IsGRPC(proto)
                        /\ (point = "in_accept") => ~IsGRPC(proto)      \* gRPC's Accept opens a listener and returns: there is no wait

VARIABLES point, proto, op, startedOk, res
cv == <<point, proto, op, startedOk, res>>
CInit == /\ point \in Points /\ proto \in Protos /\ Exists(point, proto) /\ op \in Ops /\ startedOk \in BOOLEAN /\ res = "none"
CStep == /\ res = "none" /\ res' \in Allowed(point, proto, op, startedOk) /\ UNCHANGED <<point, proto, op, startedOk>>
CSpec == CInit /\ [][CStep]_cv
\* an error whenever the call needed the plugin
ErrIfNeeded == (res # "none" /\ op \notin {"start", "kill"} /\ Needs(op, proto)) => res = "err"
Total == Allowed(point, proto, op, startedOk) # {}
=============================================================================
