SPECIFICATION Spec
CONSTANTS
  Plan = "badline"
  MaxCalls = 5
  RetryLaunch = TRUE
INVARIANTS LaunchAtMostOnce
CHECK_DEADLOCK FALSE
