SPECIFICATION SSpec
CONSTANTS
  MaxWrites = 4
  OneFifo = TRUE
  CrossTag = FALSE
  Reuse = TRUE
INVARIANTS Prefix
CHECK_DEADLOCK FALSE
