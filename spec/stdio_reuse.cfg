SPECIFICATION SSpec
CONSTANTS
  MaxWrites = 4
  OneFifo = TRUE
  CrossTag = FALSE
  Reuse = TRUE
  Handover = FALSE
  Requeue = FALSE
INVARIANTS Prefix
CHECK_DEADLOCK FALSE
