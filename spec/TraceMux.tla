------------------------------ MODULE TraceMux ------------------------------
(***************************************************************************)
(* Trace validation for MuxBroker: an NDJSON event log recorded from the   *)
(* real brokers (hook points + the driver's call/ret/rel/xfer events) must *)
(* be a behaviour of MuxBroker, with every invariant holding at each step. *)
(*                                                                         *)
(* Line 1 is the scenario header {dials:[{name,side,id}], accepts:[...]}.  *)
(* Time is the logged virtual/monotonic clock in ms (W = 5000).            *)
(***************************************************************************)
EXTENDS MuxBroker, Json, IOUtils

CONSTANTS Exact      \* TRUE: bubble + controller, timers fire exactly at their deadline

Trace == ndJsonDeserialize(IOEnv.VERIF_TRACE)
Hdr == Trace[1]

TrDials == {Hdr.dials[i].name : i \in 1..Len(Hdr.dials)}
TrAccepts == {Hdr.accepts[i].name : i \in 1..Len(Hdr.accepts)}
TrAborts == {Hdr.dials[i].name : i \in {j \in 1..Len(Hdr.dials) : Hdr.dials[j].abort}}
DRec(d) == Hdr.dials[CHOOSE i \in 1..Len(Hdr.dials) : Hdr.dials[i].name = d]
ARec(a) == Hdr.accepts[CHOOSE i \in 1..Len(Hdr.accepts) : Hdr.accepts[i].name = a]
TrDSide(d) == DRec(d).side
TrDId(d) == DRec(d).id
TrASide(a) == ARec(a).side
TrAId(a) == ARec(a).id
TrMaxT == Trace[Len(Trace)].t + 1

VARIABLES l,
          pre   \* actions performed ahead of their own log line: <<event, who, outcome>>
tvars == <<vars, l, pre>>

E == Trace[l]
IsEv(n) == l <= Len(Trace) /\ E.ev = n
Consume == l' = l + 1
Same == UNCHANGED <<dialv, strv, runv, brkv, twv, accv, panicked, nid, down>>

TraceInit == Init /\ l = 2 /\ pre = {}

\* time only moves forward, to the time stamp of the next event
Advance == /\ l <= Len(Trace) /\ now < E.t
           /\ now' = E.t /\ Same /\ UNCHANGED <<l, pre>>
AtTime == l <= Len(Trace) /\ now = E.t

Skippable == {"call.accept", "note"}
Keep == UNCHANGED pre
Confirm(x) == x \in pre /\ pre' = pre \ {x} /\ Same

TSkip == E.ev \in Skippable /\ Same /\ Keep

\* ---- dial
\* OpenStream happens between call.dial and mux.dial.opened and may already have woken the peer's
\* Run loop: the stream is on the wire from call.dial on; mux.dial.opened confirms it.
TCallDial   == IsEv("call.dial") /\ E.g \in Dials /\ DId(E.g) = E.a /\ DSide(E.g) = E.obj /\ DialOpen(E.g) /\ Keep
TDialOpened == IsEv("mux.dial.opened") /\ E.g \in Dials /\ dpc[E.g] \in {"opened", "wrote"} /\ Same /\ Keep
TDialWrote  == IsEv("mux.dial.wrote") /\ E.b = 1 /\ E.g \in Dials
               /\ \/ DialWrite(E.g) /\ Keep
                  \/ Confirm(<<"mux.dial.wrote", E.g, 1>>)
TDialWroteFail == IsEv("mux.dial.wrote") /\ E.b = 0 /\ E.g \in Dials /\ DialWriteFail(E.g) /\ Keep
\* the driver cuts the connection (logged before it does so)
TSessionDown == IsEv("session.down") /\ SessionDown /\ Keep
\* a Run loop ends: because the session died, or at the driver's teardown after the scenario
TRunExit == IsEv("mux.run.exit") /\ Keep
            /\ IF down /\ rpc[E.obj] = "accept" THEN RunExit(E.obj) ELSE Same
TDialAck    == IsEv("mux.dial.ack") /\ E.g \in Dials /\ DialAck(E.g) /\ Keep
               /\ dres'[E.g] = (CASE E.b = 1 -> "ok" [] E.b = 0 -> "eof" [] OTHER -> "badack")
\* C06: with no scheduling lag (header "strict"), a call whose only peer was issued inside the
\* pending window must succeed
Strict == Hdr.strict
PeerInWindowA(a) == \E d \in Dials : Sole(a, d) /\ dt[d] >= 0 /\ InWindow(a, d)
PeerInWindowD(d) == \E a \in Accepts : Sole(a, d) /\ at[a] >= 0 /\ InWindow(a, d)
\* the raw peer of an aborting dial: stream opened (abort.open), then closed without an id
TAbortOpen  == IsEv("abort.open") /\ E.g \in AbortDials /\ DSide(E.g) = E.obj /\ DialOpen(E.g) /\ Keep
TAbortClosed == IsEv("abort.closed") /\ E.g \in AbortDials
                /\ \/ DialAbort(E.g) /\ Keep
                   \/ Confirm(<<"abort.closed", E.g, 1>>)
TRetDial    == IsEv("ret.dial") /\ E.g \in Dials /\ dpc[E.g] = "ret" /\ dres[E.g] = E.res /\ Same /\ Keep
               /\ ((Strict /\ ~down /\ PeerInWindowD(E.g)) => E.res = "ok")

\* ---- getStream runs under the broker lock and is logged there: this is where the slot is looked
\* up / created, for an Accept caller (g is the call) or for the Run loop of that side.  The logged
\* "existed" flag must agree with the model's slot map.  mux.accept.slot / mux.run.slot, logged
\* after the lock is released, only confirm.
TGetStream  == IsEv("mux.getstream") /\ E.obj \in Sides /\ E.a \in Ids
               /\ (E.b = 1) = HasSlot(E.obj, E.a) /\ Keep
               /\ IF E.g \in Accepts
                  THEN AId(E.g) = E.a /\ ASide(E.g) = E.obj /\ AcceptSlot(E.g)
                  ELSE rpc[E.obj] = "id" /\ DId(rcur[E.obj]) = E.a /\ RunSlot(E.obj)

\* ---- accept
TAcceptSlot == IsEv("mux.accept.slot") /\ E.g \in Accepts /\ apc[E.g] = "wait" /\ Same /\ Keep
TAcceptTook == IsEv("mux.accept.took") /\ E.g \in Accepts
               /\ \/ AcceptTake(E.g) /\ Keep
                  \/ Confirm(<<"mux.accept.took", E.g, 1>>)
               /\ (Exact => E.t <= adl[E.g])
TAcceptClosed == IsEv("mux.accept.closed") /\ E.g \in Accepts
                 /\ \/ AcceptClose(E.g) /\ Keep
                    \/ Confirm(<<"mux.accept.closed", E.g, 1>>)
TAcceptAck  == IsEv("mux.accept.ack") /\ E.b = 1 /\ E.g \in Accepts
               /\ \/ AcceptAck(E.g) /\ Keep
                  \/ Confirm(<<"mux.accept.ack", E.g, 1>>)
TAcceptAckFail == IsEv("mux.accept.ack") /\ E.b = 0 /\ E.g \in Accepts /\ AcceptAckFail(E.g) /\ Keep
TAcceptTimeout == IsEv("mux.accept.timeout") /\ E.g \in Accepts /\ AcceptTimeout(E.g) /\ Keep
                  /\ (Exact => E.t = adl[E.g])
TAcceptDeleted == IsEv("mux.accept.deleted") /\ E.g \in Accepts /\ AcceptDelete(E.g) /\ Keep
TRetAccept  == IsEv("ret.accept") /\ E.g \in Accepts /\ apc[E.g] = "ret" /\ ares[E.g] = E.res /\ Same /\ Keep
               /\ ((Strict /\ ~down /\ PeerInWindowA(E.g)) => E.res = "ok")

\* ---- the controller released a goroutine from a gate: its timers start now
TRel ==
  /\ IsEv("rel") /\ Keep
  /\ CASE E.gate = "mux.accept.slot" /\ E.g \in Accepts -> AcceptRearm(E.g)
       [] E.gate = "mux.run.park" -> RunSpawn(E.obj)
       [] OTHER -> Same

\* ---- Run loop
TRunStream == IsEv("mux.run.stream") /\ Keep /\ \E d \in Dials : RunStream(E.obj, d)
TRunId     == IsEv("mux.run.id") /\ E.b = 1 /\ RunId(E.obj) /\ DId(rcur[E.obj]) = E.a /\ Keep
TRunIdFail == IsEv("mux.run.id") /\ E.b = 0 /\ RunIdFail(E.obj) /\ Keep
TRunSlot   == IsEv("mux.run.slot") /\ rpc[E.obj] \in {"slot", "park"} /\ Same /\ Keep
TRunPark   == IsEv("mux.run.park")
              /\ \/ /\ RunPark(E.obj) /\ DId(rcur[E.obj]) = E.a /\ Keep
                    /\ (E.b = 1) = (loc'[rcur[E.obj]] = "slot")
                 \/ Confirm(<<"mux.run.park", E.obj, E.b>>)
\* without a controller the spawn is not logged: it happens some time after run.park
SilentSpawn == /\ l <= Len(Trace) /\ \E s \in Sides : RunSpawn(s)
               /\ UNCHANGED <<now, l, pre>>

\* ---- expiry goroutine
TTwWoke == IsEv("mux.tw.woke") /\ Keep /\ \E d \in Dials :
             /\ TSide(d) = E.obj /\ DId(d) = E.a
             /\ IF E.b = 1 THEN TWWakeTimeout(d) /\ (Exact => E.t = tdl[d])
                           ELSE TWWakeDone(d)
TTwDrain == IsEv("mux.tw.drain")
            /\ \/ /\ Keep
                  /\ \E d \in Dials : /\ TSide(d) = E.obj /\ DId(d) = E.a /\ TWFinish(d)
                                       /\ (E.b = 1) = (sch[E.obj][tslot[d]] # None)
               \/ Confirm(<<"mux.tw.drain", E.obj, E.b>>)

\* ---- observed data path: the token written on dial d's connection was read on accept a's
\* the greeting the acceptor wrote right after Accept returned reached the dialer complete (bytes written on one end arrive at the peer)
TGreet == IsEv("greet") /\ E.dial \in Dials /\ E.intact /\ Same /\ Keep
TXfer == IsEv("xfer") /\ E.acc \in Accepts /\ E.dial \in Dials /\ aconn[E.acc] = E.dial /\ E.intact /\ Same /\ Keep

TNextId == IsEv("nextid") /\ NextId(E.obj) /\ nid'[E.obj] = E.a /\ Keep

(***************************************************************************)
(* A goroutine that was woken by another goroutine's operation can reach   *)
(* its next hook point (and be logged) before the goroutine that woke it   *)
(* reaches its own.  When the next event needs such an operation that has  *)
(* not been logged yet, the operation is performed here, ahead of its log  *)
(* line, which later only confirms it (Confirm).                           *)
(***************************************************************************)
Ahead ==
  /\ AtTime /\ UNCHANGED <<now, l>>
  /\ \/ \* the Run loop saw the stream closed before the aborting peer logged having closed it
        /\ E.ev = "mux.run.id" /\ E.b = 0 /\ rpc[E.obj] = "stream" /\ rcur[E.obj] \in AbortDials
        /\ dpc[rcur[E.obj]] = "opened"
        /\ DialAbort(rcur[E.obj]) /\ pre' = pre \cup {<<"abort.closed", rcur[E.obj], 1>>}
     \/ \* the Run loop read the id before the dialer logged having written it
        /\ E.ev = "mux.run.id" /\ E.b = 1 /\ rpc[E.obj] = "stream" /\ ~idw[rcur[E.obj]]
        /\ DialWrite(rcur[E.obj]) /\ pre' = pre \cup {<<"mux.dial.wrote", rcur[E.obj], 1>>}
     \/ \* the acceptor took the stream before the Run loop logged having parked it
        /\ E.ev = "mux.accept.took" /\ E.g \in Accepts /\ apc[E.g] = "wait"
        /\ sch[ASide(E.g)][aslot[E.g]] = None
        /\ rpc[ASide(E.g)] = "slot" /\ rslot[ASide(E.g)] = aslot[E.g]
        /\ RunPark(ASide(E.g)) /\ pre' = pre \cup {<<"mux.run.park", ASide(E.g), 1>>}
     \/ \* the Run loop could park because the acceptor (or an expiry handler) had already emptied
        \* the slot's channel, which they have not logged yet
        /\ E.ev = "mux.run.park" /\ E.b = 1 /\ rpc[E.obj] = "slot" /\ sch[E.obj][rslot[E.obj]] # None
        /\ \/ \E a \in Accepts : /\ apc[a] = "wait" /\ ASide(a) = E.obj /\ aslot[a] = rslot[E.obj]
                                  /\ AcceptTake(a) /\ pre' = pre \cup {<<"mux.accept.took", a, 1>>}
           \/ \E d \in Dials : /\ tpc[d] = "woke" /\ TSide(d) = E.obj /\ tslot[d] = rslot[E.obj]
                                /\ TWFinish(d) /\ pre' = pre \cup {<<"mux.tw.drain", E.obj, 1>>}
     \/ \* the expiry handler found a stream that the Run loop has parked but not logged yet
        /\ E.ev = "mux.tw.drain" /\ E.b = 1 /\ rpc[E.obj] = "slot" /\ sch[E.obj][rslot[E.obj]] = None
        /\ \E d \in Dials : tpc[d] = "woke" /\ TSide(d) = E.obj /\ DId(d) = E.a /\ tslot[d] = rslot[E.obj]
        /\ RunPark(E.obj) /\ pre' = pre \cup {<<"mux.run.park", E.obj, 1>>}
     \/ \* the expiry handler found the channel empty because the acceptor took the stream and has
        \* not logged that yet
        /\ E.ev = "mux.tw.drain" /\ E.b = 0
        /\ \E d \in Dials, a \in Accepts :
             /\ tpc[d] = "woke" /\ TSide(d) = E.obj /\ DId(d) = E.a /\ sch[E.obj][tslot[d]] # None
             /\ apc[a] = "wait" /\ ASide(a) = E.obj /\ aslot[a] = tslot[d]
             /\ AcceptTake(a) /\ pre' = pre \cup {<<"mux.accept.took", a, 1>>}
     \/ \* the expiry goroutine saw doneCh closed before the acceptor logged having closed it
        /\ E.ev = "mux.tw.woke" /\ E.b = 0
        /\ \E a \in Accepts : /\ apc[a] = "took" /\ ASide(a) = E.obj /\ AId(a) = E.a
                               /\ AcceptClose(a) /\ pre' = pre \cup {<<"mux.accept.closed", a, 1>>}
     \/ \* the dialer read the ack before the acceptor logged having written it
        /\ E.ev = "mux.dial.ack" /\ E.b # 0 /\ E.g \in Dials /\ ackv[E.g] = -1
        /\ \E a \in Accepts : /\ apc[a] = "closed" /\ aconn[a] = E.g
                               /\ AcceptAck(a) /\ pre' = pre \cup {<<"mux.accept.ack", a, 1>>}
     \/ \* the dialer saw EOF before the goroutine that closed the stream logged it
        /\ E.ev = "mux.dial.ack" /\ E.b = 0 /\ E.g \in Dials /\ loc[E.g] # "closed"
        /\ \/ \E d \in Dials : /\ tpc[d] = "woke" /\ sch[TSide(d)][tslot[d]] = E.g
                                 /\ TWFinish(d) /\ pre' = pre \cup {<<"mux.tw.drain", TSide(d), 1>>}
           \/ \E s \in Sides : /\ rpc[s] = "slot" /\ rcur[s] = E.g /\ sch[s][rslot[s]] # None
                                /\ RunPark(s) /\ pre' = pre \cup {<<"mux.run.park", s, 0>>}

TraceNext ==
  \/ Advance
  \/ /\ AtTime /\ Consume /\ UNCHANGED now
     /\ \/ TSkip \/ TSessionDown \/ TRunExit \/ TDialWroteFail \/ TAcceptAckFail \/ TCallDial \/ TAbortOpen \/ TAbortClosed \/ TRunIdFail \/ TDialOpened \/ TDialWrote \/ TDialAck \/ TRetDial \/ TGetStream
        \/ TAcceptSlot \/ TAcceptTook \/ TAcceptClosed \/ TAcceptAck \/ TAcceptTimeout \/ TAcceptDeleted
        \/ TRetAccept \/ TRel \/ TRunStream \/ TRunId \/ TRunSlot \/ TRunPark
        \/ TTwWoke \/ TTwDrain \/ TXfer \/ TGreet \/ TNextId
  \/ SilentSpawn
  \/ Ahead

TraceSpec == TraceInit /\ [][TraceNext]_tvars

\* acceptance: the whole trace was consumed on some branch (high-water mark; -workers 1)
\* every action taken ahead of its log line was confirmed by it in the end
AllConfirmed == (l = Len(Trace) + 1) => pre = {}
HighWater == TLCSet(1, IF l > TLCGet(1) THEN l ELSE TLCGet(1))
TraceConstraint == HighWater
TraceAccepted ==
  /\ PrintT(<<"HIGHWATER", TLCGet(1), Len(Trace)>>)
  /\ TLCGet(1) = Len(Trace) + 1
ASSUME TLCSet(1, 0)
=============================================================================
