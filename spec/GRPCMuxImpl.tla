------------------------------ MODULE GRPCMuxImpl ----------------------------
(***************************************************************************)
(* The multiplexed gRPC broker (grpc_broker.go Accept/listenForKnocks/     *)
(* knock/muxDial, internal/grpcmux): one direction at a time.  The dialer  *)
(* side D knocks over the broker stream, waits for the ack, then opens a   *)
(* yamux stream; the acceptor side A registers a listener for the id and   *)
(* acknowledges knocks.  AcceptorIsPlugin = TRUE: A multiplexes with       *)
(* GRPCServerMuxer (knockCh of size one, a single accept loop that also    *)
(* feeds the main listener); FALSE: A is the host with GRPCClientMuxer     *)
(* (blocked listeners unblocked by a token, then session.Accept).          *)
(* Two ids are established one at a time (the documented discipline).      *)
(* FixOrder = FALSE is the behaviour before the fix (knock listener        *)
(* started before the listener is registered).  gRPC's own re-dial is a   *)
(* bounded retry.  Discrete time with maximal progress.                    *)
(***************************************************************************)
\* GRPCMuxImpl: GRPCMux with the three steps it folds together split at the code's hook points, so that
\* recorded traces can be validated against it (TraceGRPCMuxImpl): knock() = send the knock, then look the
\* ack slot up; each broker's Run loop = receive, look the slot up (acks: under the lock, spawning the
\* expiry goroutine), park without blocking.  A Run loop keeps the slot it looked up: an ack parked in a
\* slot the expiry handler has deleted meanwhile is lost.  Ids is a parameter (established one at a time).
\* AcceptorIsPlugin = TRUE  : A uses GRPCServerMuxer (knockCh + single accept loop)      [host dials plugin]
\* AcceptorIsPlugin = FALSE : A uses GRPCClientMuxer (blocked listeners + session.Accept) [plugin dials host]
EXTENDS Integers, Sequences, FiniteSets, TLC

CONSTANTS Ids, AcceptorIsPlugin, FixOrder, W, IssueMax, MaxT, MaxAttempts

VARIABLES now,
  \* dialer side
  dpc, datt, ddl, dstart, dmutex, dgen, dres,
  ackExists, ackGen, ackCh, tws,          \* clientStreams slot for acks + its expiry handlers
  \* acceptor side
  apc, astart, lfk, lfkErr, registered, kslot,
  knockCh, spc, scur, mainDead,           \* plugin-side muxer
  waitTok, blpc, amutex,                  \* host-side muxer
  \* network
  msgDA, msgAD, ymx, served,
  \* the two Run loops: pc, message in hand, (dialer side) generation of the slot in hand
  drpc, drcur, drgen, arpc, arcur

vars == <<now, dpc, datt, ddl, dstart, dmutex, dgen, dres, ackExists, ackGen, ackCh, tws,
          apc, astart, lfk, lfkErr, registered, kslot, knockCh, spc, scur, mainDead,
          waitTok, blpc, amutex, msgDA, msgAD, ymx, served, drpc, drcur, drgen, arpc, arcur>>

dvars  == <<dpc, datt, ddl, dstart, dmutex, dgen, dres>>
ackv   == <<ackExists, ackGen, ackCh, tws>>
avars  == <<apc, astart, lfk, lfkErr, registered, kslot>>
smux   == <<knockCh, spc, scur, mainDead>>
cmux   == <<waitTok, blpc, amutex>>
net    == <<msgDA, msgAD, ymx, served>>
runv   == <<drpc, drcur, drgen, arpc, arcur>>

Init ==
  /\ now = 0
  /\ dpc = [n \in Ids |-> "idle"] /\ datt = [n \in Ids |-> 0] /\ ddl = [n \in Ids |-> 0]
  /\ dstart = [n \in Ids |-> -1] /\ dmutex = 0 /\ dgen = [n \in Ids |-> 0] /\ dres = [n \in Ids |-> "none"]
  /\ ackExists = [n \in Ids |-> FALSE] /\ ackGen = [n \in Ids |-> 0] /\ ackCh = [n \in Ids |-> "none"] /\ tws = {}
  /\ apc = [n \in Ids |-> "idle"] /\ astart = [n \in Ids |-> -1] /\ lfk = [n \in Ids |-> "off"]
  /\ lfkErr = [n \in Ids |-> FALSE] /\ registered = [n \in Ids |-> FALSE] /\ kslot = [n \in Ids |-> FALSE]
  /\ knockCh = 0 /\ spc = "accept" /\ scur = 0 /\ mainDead = FALSE
  /\ waitTok = [n \in Ids |-> 0] /\ blpc = [n \in Ids |-> "blocked"] /\ amutex = 0
  /\ msgDA = <<>> /\ msgAD = <<>> /\ ymx = <<>> /\ served = <<>>
  /\ drpc = "recv" /\ drcur = <<0, "none">> /\ drgen = 0 /\ arpc = "recv" /\ arcur = 0

\* (dres = "gaveup": the caller's gRPC dial returned an error while an attempt may still be in flight;
\* only set by the trace specification)
ResetAll ==
  /\ now' = 0
  /\ dpc' = [n \in Ids |-> "idle"] /\ datt' = [n \in Ids |-> 0] /\ ddl' = [n \in Ids |-> 0]
  /\ dstart' = [n \in Ids |-> -1] /\ dmutex' = 0 /\ dgen' = [n \in Ids |-> 0] /\ dres' = [n \in Ids |-> "none"]
  /\ ackExists' = [n \in Ids |-> FALSE] /\ ackGen' = [n \in Ids |-> 0] /\ ackCh' = [n \in Ids |-> "none"] /\ tws' = {}
  /\ apc' = [n \in Ids |-> "idle"] /\ astart' = [n \in Ids |-> -1] /\ lfk' = [n \in Ids |-> "off"]
  /\ lfkErr' = [n \in Ids |-> FALSE] /\ registered' = [n \in Ids |-> FALSE] /\ kslot' = [n \in Ids |-> FALSE]
  /\ knockCh' = 0 /\ spc' = "accept" /\ scur' = 0 /\ mainDead' = FALSE
  /\ waitTok' = [n \in Ids |-> 0] /\ blpc' = [n \in Ids |-> "blocked"] /\ amutex' = 0
  /\ msgDA' = <<>> /\ msgAD' = <<>> /\ ymx' = <<>> /\ served' = <<>>
  /\ drpc' = "recv" /\ drcur' = <<0, "none">> /\ drgen' = 0 /\ arpc' = "recv" /\ arcur' = 0

Final(n) == dpc[n] \in {"ok", "wrong", "fail"} \/ dres[n] = "gaveup"
\* documented discipline: one establishment at a time
MayStart(n) == \A m \in Ids : m < n => Final(m)

\* ------------------------------------------------ environment
DStart(n) == /\ dpc[n] = "idle" /\ now <= IssueMax /\ MayStart(n)
             /\ dpc' = [dpc EXCEPT ![n] = "lock"] /\ dstart' = [dstart EXCEPT ![n] = now]
             /\ UNCHANGED <<now, datt, ddl, dmutex, dgen, dres, ackv, avars, smux, cmux, net>>
AStart(n) == /\ apc[n] = "idle" /\ now <= IssueMax /\ MayStart(n)
             /\ apc' = [apc EXCEPT ![n] = "slot"] /\ astart' = [astart EXCEPT ![n] = now]
             /\ UNCHANGED <<now, dvars, ackv, lfk, lfkErr, registered, kslot, smux, cmux, net>>

\* ------------------------------------------------ dialer (muxDial inside gRPC's connect)
DLock(n) == /\ dpc[n] = "lock" /\ dmutex = 0 /\ dmutex' = n
            /\ dpc' = [dpc EXCEPT ![n] = "knock"]
            /\ UNCHANGED <<now, datt, ddl, dstart, dgen, dres, ackv, avars, smux, cmux, net>>
DKnockSend(n) == /\ dpc[n] = "knock"
                 /\ msgDA' = Append(msgDA, n) /\ dpc' = [dpc EXCEPT ![n] = "kslot"]
                 /\ UNCHANGED <<now, datt, ddl, dstart, dmutex, dgen, dres, ackv, avars, smux, cmux, msgAD, ymx, served>>
DKnockSlot(n) == /\ dpc[n] = "kslot"
                 /\ IF ackExists[n] THEN UNCHANGED <<ackExists, ackGen, ackCh>>
                    ELSE /\ ackExists' = [ackExists EXCEPT ![n] = TRUE]
                         /\ ackGen' = [ackGen EXCEPT ![n] = @ + 1] /\ ackCh' = [ackCh EXCEPT ![n] = "none"]
                 /\ dgen' = [dgen EXCEPT ![n] = IF ackExists[n] THEN ackGen[n] ELSE ackGen[n] + 1]
                 /\ ddl' = [ddl EXCEPT ![n] = now + W] /\ dpc' = [dpc EXCEPT ![n] = "wait"]
                 /\ UNCHANGED <<now, datt, dstart, dmutex, dres, tws, avars, smux, cmux, net>>
AttemptFailed(n) ==
             /\ dmutex' = 0 /\ datt' = [datt EXCEPT ![n] = @ + 1]
             /\ IF datt[n] + 1 < MaxAttempts
                THEN dpc' = [dpc EXCEPT ![n] = "backoff"] /\ ddl' = [ddl EXCEPT ![n] = now + 1] /\ UNCHANGED dres
                ELSE dpc' = [dpc EXCEPT ![n] = "fail"] /\ dres' = [dres EXCEPT ![n] = "fail"] /\ UNCHANGED ddl
DAck(n) == /\ dpc[n] = "wait" /\ ackExists[n] /\ ackGen[n] = dgen[n] /\ ackCh[n] # "none"
           /\ ackCh' = [ackCh EXCEPT ![n] = "none"]
           /\ IF ackCh[n] = "ok"
              THEN dpc' = [dpc EXCEPT ![n] = "open"] /\ UNCHANGED <<datt, ddl, dmutex, dres>>
              ELSE AttemptFailed(n)
           /\ UNCHANGED <<now, dstart, dgen, ackExists, ackGen, tws, avars, smux, cmux, net>>
DTimeout(n) == /\ dpc[n] = "wait" /\ now >= ddl[n] /\ AttemptFailed(n)
               /\ UNCHANGED <<now, dstart, dgen, ackv, avars, smux, cmux, net>>
DBackoffDone(n) == /\ dpc[n] = "backoff" /\ now >= ddl[n] /\ dpc' = [dpc EXCEPT ![n] = "lock"]
                   /\ UNCHANGED <<now, datt, ddl, dstart, dmutex, dgen, dres, ackv, avars, smux, cmux, net>>
DOpen(n) == /\ dpc[n] = "open" /\ ymx' = Append(ymx, n) /\ dmutex' = 0
            /\ dpc' = [dpc EXCEPT ![n] = "opened"]
            /\ UNCHANGED <<now, datt, ddl, dstart, dgen, dres, ackv, avars, smux, cmux, msgDA, msgAD, served>>
\* the first RPC on the brokered connection: answered by whoever serves the stream
Served(n) == {i \in 1..Len(served) : served[i][1] = n}
DResult(n) == /\ dpc[n] = "opened" /\ Served(n) # {}
              /\ LET by == served[CHOOSE i \in Served(n) : TRUE][2] IN
                 /\ dpc' = [dpc EXCEPT ![n] = IF by = n THEN "ok" ELSE "wrong"]
                 /\ dres' = [dres EXCEPT ![n] = IF by = n THEN "ok" ELSE "wrong"]
              /\ UNCHANGED <<now, datt, ddl, dstart, dmutex, dgen, ackv, avars, smux, cmux, net>>

\* dialer-side broker Run loop: acks are filed under clientStreams[id] with a 5 s expiry handler
DRunRecv == /\ drpc = "recv" /\ msgAD # <<>>
            /\ drcur' = Head(msgAD) /\ msgAD' = Tail(msgAD) /\ drpc' = "lookup"
            /\ UNCHANGED <<now, dvars, ackv, avars, smux, cmux, msgDA, ymx, served, drgen, arpc, arcur>>
DRunLookup == /\ drpc = "lookup"
              /\ LET n == drcur[1] IN
                 /\ IF ackExists[n] THEN UNCHANGED <<ackExists, ackGen, ackCh>>
                    ELSE /\ ackExists' = [ackExists EXCEPT ![n] = TRUE] /\ ackGen' = [ackGen EXCEPT ![n] = @ + 1]
                         /\ ackCh' = [ackCh EXCEPT ![n] = "none"]
                 /\ drgen' = (IF ackExists[n] THEN ackGen[n] ELSE ackGen[n] + 1)
                 /\ tws' = tws \cup {<<n, now + W>>}
              /\ drpc' = "park"
              /\ UNCHANGED <<now, dvars, avars, smux, cmux, net, drcur, arpc, arcur>>
\* would the non-blocking send into the slot in hand succeed / still reach anybody?
DSlotLive == ackExists[drcur[1]] /\ ackGen[drcur[1]] = drgen
DWouldPark == ~DSlotLive \/ ackCh[drcur[1]] = "none"
DRunPark == /\ drpc = "park"
            /\ ackCh' = IF DSlotLive /\ ackCh[drcur[1]] = "none" THEN [ackCh EXCEPT ![drcur[1]] = drcur[2]] ELSE ackCh
            /\ drpc' = "recv" /\ drcur' = <<0, "none">> /\ drgen' = 0
            /\ UNCHANGED <<now, dvars, ackExists, ackGen, tws, avars, smux, cmux, net, arpc, arcur>>
TWFire(t) == /\ t \in tws /\ now >= t[2] /\ tws' = tws \ {t}
             /\ ackExists' = [ackExists EXCEPT ![t[1]] = FALSE] /\ ackCh' = [ackCh EXCEPT ![t[1]] = "none"]
             /\ UNCHANGED <<now, dvars, ackGen, avars, smux, cmux, net>>

\* ------------------------------------------------ acceptor: GRPCBroker.Accept (mux)
ARunRecv == /\ arpc = "recv" /\ msgDA # <<>>
            /\ arcur' = Head(msgDA) /\ msgDA' = Tail(msgDA) /\ arpc' = "park"
            /\ UNCHANGED <<now, dvars, ackv, avars, smux, cmux, msgAD, ymx, served, drpc, drcur, drgen>>
AWouldPark == ~kslot[arcur]
ARunPark == /\ arpc = "park"
            /\ kslot' = [kslot EXCEPT ![arcur] = TRUE]       \* non-blocking park; a second knock is dropped
            /\ arpc' = "recv" /\ arcur' = 0
            /\ UNCHANGED <<now, dvars, ackv, apc, astart, lfk, lfkErr, registered, smux, cmux, net, drpc, drcur, drgen>>
ASpawnLFK(n) == /\ apc[n] = (IF FixOrder THEN "lfk2" ELSE "slot")
                /\ lfk' = [lfk EXCEPT ![n] = "take"]
                /\ apc' = [apc EXCEPT ![n] = IF FixOrder THEN "serving" ELSE "reg1"]
                /\ UNCHANGED <<now, dvars, ackv, astart, lfkErr, registered, kslot, smux, cmux, net>>
ARegister(n) == /\ apc[n] = (IF FixOrder THEN "slot" ELSE "reg1") /\ amutex = 0
                /\ registered' = [registered EXCEPT ![n] = TRUE]
                /\ apc' = [apc EXCEPT ![n] = IF FixOrder THEN "lfk2" ELSE "serving"]
                /\ UNCHANGED <<now, dvars, ackv, astart, lfk, lfkErr, kslot, smux, cmux, net>>
LTake(n) == /\ lfk[n] = "take" /\ kslot[n] /\ kslot' = [kslot EXCEPT ![n] = FALSE]
            /\ lfk' = [lfk EXCEPT ![n] = "knock"]
            /\ UNCHANGED <<now, dvars, ackv, apc, astart, lfkErr, registered, smux, cmux, net>>
LAcceptKnockPlugin(n) ==
            /\ AcceptorIsPlugin /\ lfk[n] = "knock" /\ knockCh = 0       \* blocks while knockCh is full
            /\ knockCh' = n /\ lfk' = [lfk EXCEPT ![n] = "ack"] /\ lfkErr' = [lfkErr EXCEPT ![n] = FALSE]
            /\ UNCHANGED <<now, dvars, ackv, apc, astart, registered, kslot, spc, scur, mainDead, cmux, net>>
LAcceptKnockHost(n) ==
            /\ ~AcceptorIsPlugin /\ lfk[n] = "knock" /\ amutex = 0
            /\ IF ~registered[n]
               THEN /\ lfkErr' = [lfkErr EXCEPT ![n] = TRUE] /\ lfk' = [lfk EXCEPT ![n] = "ack"] /\ UNCHANGED <<waitTok, amutex>>
               ELSE IF waitTok[n] = 0
                    THEN /\ waitTok' = [waitTok EXCEPT ![n] = 1] /\ lfkErr' = [lfkErr EXCEPT ![n] = FALSE]
                         /\ lfk' = [lfk EXCEPT ![n] = "ack"] /\ UNCHANGED amutex
                    ELSE /\ amutex' = n /\ lfk' = [lfk EXCEPT ![n] = "stuck"] /\ UNCHANGED <<waitTok, lfkErr>>  \* unblock() blocks holding acceptMutex
            /\ UNCHANGED <<now, dvars, ackv, apc, astart, registered, kslot, smux, blpc, net>>
LUnstick(n) == /\ lfk[n] = "stuck" /\ waitTok[n] = 0 /\ waitTok' = [waitTok EXCEPT ![n] = 1] /\ amutex' = 0
               /\ lfk' = [lfk EXCEPT ![n] = "ack"] /\ lfkErr' = [lfkErr EXCEPT ![n] = FALSE]
               /\ UNCHANGED <<now, dvars, ackv, apc, astart, registered, kslot, smux, blpc, net>>
LSendAck(n) == /\ lfk[n] = "ack" /\ msgAD' = Append(msgAD, <<n, IF lfkErr[n] THEN "err" ELSE "ok">>)
               /\ lfk' = [lfk EXCEPT ![n] = "take"]
               /\ UNCHANGED <<now, dvars, ackv, apc, astart, lfkErr, registered, kslot, smux, cmux, msgDA, ymx, served>>

\* plugin-side muxer: the main gRPC server's Accept loop
SAccept == /\ AcceptorIsPlugin /\ spc = "accept" /\ ymx # <<>>
           /\ scur' = Head(ymx) /\ ymx' = Tail(ymx) /\ spc' = "route"
           /\ UNCHANGED <<now, dvars, ackv, avars, knockCh, mainDead, cmux, msgDA, msgAD, served>>
SRoute == /\ spc = "route"
          /\ IF knockCh = 0
             THEN /\ served' = Append(served, <<scur, 0>>) /\ spc' = "accept" /\ scur' = 0   \* default (main) listener
                  /\ UNCHANGED <<knockCh, mainDead>>
             ELSE IF registered[knockCh]
                  THEN /\ spc' = "handoff" /\ UNCHANGED <<knockCh, scur, mainDead, served>>
                  ELSE /\ mainDead' = TRUE /\ spc' = "dead" /\ knockCh' = 0 /\ UNCHANGED <<scur, served>>
          /\ UNCHANGED <<now, dvars, ackv, avars, cmux, msgDA, msgAD, ymx>>
SHandoff == /\ spc = "handoff" /\ apc[knockCh] = "serving"
            /\ served' = Append(served, <<scur, knockCh>>) /\ knockCh' = 0 /\ scur' = 0 /\ spc' = "accept"
            /\ UNCHANGED <<now, dvars, ackv, avars, mainDead, cmux, msgDA, msgAD, ymx>>

\* host-side muxer: blocked listeners
BLUnblock(n) == /\ ~AcceptorIsPlugin /\ apc[n] = "serving" /\ blpc[n] = "blocked" /\ waitTok[n] = 1
                /\ waitTok' = [waitTok EXCEPT ![n] = 0] /\ blpc' = [blpc EXCEPT ![n] = "sess"]
                /\ UNCHANGED <<now, dvars, ackv, avars, smux, amutex, net>>
BLSessAccept(n) == /\ blpc[n] = "sess" /\ ymx # <<>>
                   /\ served' = Append(served, <<Head(ymx), n>>) /\ ymx' = Tail(ymx)
                   /\ blpc' = [blpc EXCEPT ![n] = "blocked"]
                   /\ UNCHANGED <<now, dvars, ackv, avars, smux, waitTok, amutex, msgDA, msgAD>>

Instant ==
  \/ /\ UNCHANGED runv
     /\ \/ \E n \in Ids : DLock(n) \/ DKnockSend(n) \/ DKnockSlot(n) \/ DAck(n) \/ DTimeout(n) \/ DBackoffDone(n) \/ DOpen(n) \/ DResult(n)
        \/ (\E t \in tws : TWFire(t))
        \/ \E n \in Ids : ASpawnLFK(n) \/ ARegister(n) \/ LTake(n) \/ LAcceptKnockPlugin(n) \/ LAcceptKnockHost(n)
                          \/ LUnstick(n) \/ LSendAck(n) \/ BLUnblock(n) \/ BLSessAccept(n)
        \/ SAccept \/ SRoute \/ SHandoff
  \/ DRunRecv \/ DRunLookup \/ DRunPark \/ ARunRecv \/ ARunPark
Env == (\E n \in Ids : DStart(n) \/ AStart(n)) /\ UNCHANGED runv
Tick == ~ENABLED Instant /\ now < MaxT /\ now' = now + 1
        /\ UNCHANGED <<dvars, ackv, avars, smux, cmux, net, runv>>
Next == Instant \/ Env \/ Tick
Spec == Init /\ [][Next]_vars /\ WF_vars(Instant) /\ WF_vars(Tick)

\* ------------------------------------------------ properties
Routing == \A i \in 1..Len(served) : served[i][2] = served[i][1]
MainAlive == ~mainDead
InWindow(n) == astart[n] >= 0 /\ dstart[n] >= 0 /\ astart[n] - dstart[n] < W /\ dstart[n] - astart[n] < W
Quiesced == now = MaxT /\ ~ENABLED Instant
\* a correctly established connection (both calls inside the window) works on its FIRST attempt
FirstCallOK == \A n \in Ids : (Quiesced /\ InWindow(n)) => (dres[n] = "ok" /\ datt[n] = 0)
=============================================================================