------------------------------ MODULE Versions ------------------------------
(***************************************************************************)
(* Application protocol version negotiation (server.go protocolVersion,    *)
(* client.go checkProtoVersion).                                           *)
(*                                                                         *)
(* The host offers a set H of versions (PLUGIN_PROTOCOL_VERSIONS); the     *)
(* plugin serves plugin sets under the versions in S, each set with a wire *)
(* protocol.  Announce is the plugin's choice written the way the code     *)
(* makes it (scan the served versions newest first, remember the last one  *)
(* looked at, stop at the first one the host offers); the properties below *)
(* state what C02 promises about it.                                       *)
(***************************************************************************)
EXTENDS Integers, Sequences, FiniteSets, TLC

VersionsU == 0..3
Protos == {"netrpc", "grpc"}

Max(S) == CHOOSE x \in S : \A y \in S : y <= x
Min(S) == CHOOSE x \in S : \A y \in S : x <= y

\* descending sequence of a set of integers
RECURSIVE Desc(_)
Desc(S) == IF S = {} THEN <<>> ELSE <<Max(S)>> \o Desc(S \ {Max(S)})

\* The wire protocol announced for a served version: the type of its plugin set, but only when a
\* gRPC server factory is configured (otherwise always net/rpc).
TypeOf(v, protoOf, grpcFactory) == IF grpcFactory THEN protoOf[v] ELSE "netrpc"

\* the scan: returns <<version, proto>>
RECURSIVE Scan(_, _, _, _)
Scan(vs, H, protoOf, grpcFactory) ==
  IF Len(vs) = 1 \/ Head(vs) \in H
  THEN <<Head(vs), TypeOf(Head(vs), protoOf, grpcFactory)>>
  ELSE Scan(Tail(vs), H, protoOf, grpcFactory)

\* S is the (non-empty) set of served versions, H the set the plugin understood from the host
\* (empty when the host sent no list)
Announce(H, S, protoOf, grpcFactory) == Scan(Desc(S), H, protoOf, grpcFactory)

\* the client's side: accept exactly an offered version
ClientAccepts(v, HostOffers) == v \in HostOffers

-----------------------------------------------------------------------------
VARIABLES hostOffers, served, protoOf, grpcFactory, sentList, res
vv == <<hostOffers, served, protoOf, grpcFactory, sentList, res>>

NoRes == [done |-> FALSE, version |-> -1, proto |-> "-", accepted |-> FALSE]

VInit ==
  /\ hostOffers \in (SUBSET VersionsU) \ {{}}
  /\ served \in (SUBSET VersionsU) \ {{}}
  /\ protoOf \in [VersionsU -> Protos]
  /\ grpcFactory \in BOOLEAN
  /\ sentList \in BOOLEAN          \* FALSE: a legacy host that sends no version list
  /\ res = NoRes

VNegotiate ==
  /\ ~res.done
  /\ LET a == Announce(IF sentList THEN hostOffers ELSE {}, served, protoOf, grpcFactory) IN
     res' = [done |-> TRUE, version |-> a[1], proto |-> a[2], accepted |-> ClientAccepts(a[1], hostOffers)]
  /\ UNCHANGED <<hostOffers, served, protoOf, grpcFactory, sentList>>

VSpec == VInit /\ [][VNegotiate]_vv

Common == hostOffers \cap served
\* highest common version is announced and accepted; both sides then use the set registered under it
HighestCommon == (res.done /\ sentList /\ Common # {}) =>
                   (res.version = Max(Common) /\ res.accepted /\ res.proto = TypeOf(Max(Common), protoOf, grpcFactory))
\* no common version: the client refuses (the plugin is then terminated by the failed start)
NoCommonRefused == (res.done /\ sentList /\ Common = {}) => ~res.accepted
\* a host that sends no list is offered the plugin's lowest version
NoListLowest == (res.done /\ ~sentList) => res.version = Min(served)
\* the two sides never proceed under different versions: acceptance means the announced version is
\* one both sides have a plugin set for
NeverMixed == (res.done /\ res.accepted) => (res.version \in hostOffers /\ res.version \in served)
=============================================================================
