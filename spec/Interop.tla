------------------------------- MODULE Interop -------------------------------
(***************************************************************************)
(* Host and plugin configurations: when do they interoperate (C14)?        *)
(* A cell is the wire protocol the plugin serves, the host's allowed       *)
(* list, transport security on both sides, whether the host requests       *)
(* broker multiplexing and what the plugin says about it, and how the      *)
(* plugin is reached (launched by command or custom runner, or             *)
(* reattached).  Outcome composes what the other modules say: the          *)
(* handshake line the plugin prints for the environment the host gives it  *)
(* (ServeStartup / Env), the host's decision on that line                  *)
(* (Handshake!Decide), the option conflicts Start rejects, and whether the *)
(* two TLS setups can talk (MTLS).                                         *)
(***************************************************************************)
EXTENDS Integers, FiniteSets, TLC

Protos == {"netrpc", "grpc"}
AllowedLists == {"unset", "netrpc", "grpc", "both", "emptylist"}
HostTLS == {"none", "static", "auto"}
PluginTLS == {"none", "static"}
PluginMux == {"advertised", "old", "false", "legacy"}   \* current plugin; old plugin (never prints the field); prints "false";
                                                         \* "legacy": does not even name its protocol (four-field line / a
                                                         \* ReattachConfig without Protocol), which means net/rpc
Launch == {"cmd", "runner", "reattach"}

Cells == [proto : Protos, allowed : AllowedLists, htls : HostTLS, ptls : PluginTLS, muxreq : BOOLEAN, pmux : PluginMux, launch : Launch]

AllowedSet(a) == CASE a \in {"unset", "netrpc"} -> {"netrpc"} [] a = "grpc" -> {"grpc"} [] a = "both" -> {"netrpc", "grpc"} [] OTHER -> {}

\* can the two transport security setups talk to each other?
TLSCompatible(c) == <<c.htls, c.ptls>> \in {<<"none", "none">>, <<"static", "static">>, <<"auto", "none">>}

Outcome(c) ==
  IF c.launch = "reattach" /\ c.muxreq THEN "start_error_option"                        \* multiplexing is not supported with Reattach
  ELSE IF c.launch = "reattach" /\ c.htls = "auto" THEN "start_error_option"            \* nor is AutoMTLS
  ELSE IF c.proto \notin AllowedSet(c.allowed) THEN "start_error_protocol"              \* never a protocol outside the allowed list
  ELSE IF c.launch # "reattach" /\ c.muxreq /\ c.proto = "grpc" /\ c.pmux # "advertised"
       THEN "start_error_mux"                                                            \* the dedicated multiplexing error
  ELSE IF ~TLSCompatible(c) THEN "use_error"                                             \* security mismatch: an error on first use
  ELSE "works"

\* is the plugin process terminated when Start fails?  (only processes this client launched)
Terminated(c) == c.launch # "reattach" /\ Outcome(c) \in {"start_error_protocol", "start_error_mux"}

VARIABLES cell, outcome
iv == <<cell, outcome>>
IInit == cell \in Cells /\ outcome = "none" /\ (cell.pmux = "legacy" => (cell.proto = "netrpc" /\ cell.htls = "none" /\ cell.ptls = "none"))   \* such a plugin knows no TLS fields either
IStep == outcome = "none" /\ outcome' = Outcome(cell) /\ UNCHANGED cell
ISpec == IInit /\ [][IStep]_iv

NeverOutsideAllowed == (outcome \in {"works", "use_error"}) => cell.proto \in AllowedSet(cell.allowed)
MuxNeedsSupport == (outcome = "works" /\ cell.muxreq /\ cell.proto = "grpc") => (cell.pmux = "advertised" /\ cell.launch # "reattach")
NoSilentDowngrade == (outcome = "works") => TLSCompatible(cell)
=============================================================================
