SPECIFICATION RSpec
CONSTANTS
  TestMode = FALSE
  MaxOps = 6
INVARIANTS KillKills StopsOnlyOnCancel NotFoundIffDead
PROPERTIES TestModeNeverKills
CHECK_DEADLOCK FALSE
