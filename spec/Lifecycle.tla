----------------------------- MODULE Lifecycle -----------------------------
(***************************************************************************)
(* One plugin.Client and the process it launches, at the level of the      *)
(* public calls Start / Client / Protocol / ReattachConfig / ID / Exited /  *)
(* Kill (client.go).  Each call is one action whose result is recorded in  *)
(* `last`; what the process does on its own (exiting after it was killed   *)
(* or asked to quit, the wait goroutine marking the client exited) are     *)
(* separate internal actions, so the orders the code allows are the orders *)
(* the model allows.                                                       *)
(*                                                                         *)
(* Plan is how the first (only) launch goes:                               *)
(*   ok          the plugin prints a valid line and serves                 *)
(*   badline     it prints a line the client rejects                       *)
(*   silent      it prints nothing and stays alive (start timeout)         *)
(*   partial     it prints half a line without newline and stays alive     *)
(*   closeout    it closes its stdout and stays alive                      *)
(*   exitearly   it exits before printing anything                         *)
(*   startfails  the runner's Start itself returns an error: no process    *)
(* RetryLaunch = TRUE is the behaviour before the fix (a failed Start is    *)
(* forgotten and the next call launches again); it exists to show that the *)
(* model is sensitive.                                                     *)
(***************************************************************************)
EXTENDS Integers, Sequences, FiniteSets, TLC

CONSTANTS Plan, MaxCalls, RetryLaunch

Plans == {"ok", "badline", "silent", "partial", "closeout", "exitearly", "startfails"}
ASSUME Plan \in Plans

VARIABLES
  addrSet,      \* c.address # nil
  startErr,     \* the remembered error of the failed launch
  runnerSet,    \* c.runner # nil
  clientBuilt,  \* c.client # nil (the cached protocol client)
  exitedFlag,   \* c.exited
  launches,     \* how many times a process was started for this client
  kills,        \* runner.Kill calls
  proc,         \* "none", "alive", "quitting" (asked to quit / killed, not yet gone), "dead"
  waitDone,     \* the wait goroutine has observed the exit (doneCtx cancelled, exited = true)
  tmpdir,       \* "none", "present", "removed": the custom runner's socket directory
  tmpdirs,      \* how many such directories were ever created
  killed,       \* Kill has returned at least once
  ncalls,
  last          \* <<call, result>> of the most recent call

vars == <<addrSet, startErr, runnerSet, clientBuilt, exitedFlag, launches, kills, proc, waitDone,
          tmpdir, tmpdirs, killed, ncalls, last>>

Init ==
  /\ addrSet = FALSE /\ startErr = FALSE /\ runnerSet = FALSE /\ clientBuilt = FALSE
  /\ exitedFlag = FALSE /\ launches = 0 /\ kills = 0 /\ proc = "none" /\ waitDone = FALSE
  /\ tmpdir = "none" /\ tmpdirs = 0 /\ killed = FALSE /\ ncalls = 0 /\ last = <<"-", "-">>

\* the same, as an action (used by the trace specification to start the next case)
ResetAll ==
  /\ addrSet' = FALSE /\ startErr' = FALSE /\ runnerSet' = FALSE /\ clientBuilt' = FALSE
  /\ exitedFlag' = FALSE /\ launches' = 0 /\ kills' = 0 /\ proc' = "none" /\ waitDone' = FALSE
  /\ tmpdir' = "none" /\ tmpdirs' = 0 /\ killed' = FALSE /\ ncalls' = 0 /\ last' = <<"-", "-">>

Count == ncalls < MaxCalls /\ ncalls' = ncalls + 1

\* ---- the launch inside Start -------------------------------------------------------------
\* Start's effect on the state, shared by Start, Client and Protocol (which call it first).
\* ok: result of the embedded Start.
StartEffect(ok) ==
  IF addrSet THEN ok = TRUE /\ UNCHANGED <<addrSet, startErr, runnerSet, launches, kills, proc, tmpdir, tmpdirs>>
  ELSE IF startErr /\ ~RetryLaunch THEN ok = FALSE /\ UNCHANGED <<addrSet, startErr, runnerSet, launches, kills, proc, tmpdir, tmpdirs>>
  ELSE \* launch
    /\ launches' = launches + 1 /\ runnerSet' = TRUE
    /\ tmpdir' = "present" /\ tmpdirs' = tmpdirs + 1
    /\ IF Plan = "ok"
       THEN /\ ok = TRUE /\ addrSet' = TRUE /\ proc' = "alive" /\ UNCHANGED <<startErr, kills>>
       ELSE IF Plan = "startfails"
       THEN \* runner.Start failed: there is no process, nothing to kill; the error is remembered all the same
            /\ ok = FALSE /\ startErr' = TRUE /\ UNCHANGED <<addrSet, kills, proc>>
       ELSE \* every failure after the launch kills what was launched, before Start returns
            /\ ok = FALSE /\ startErr' = TRUE /\ kills' = kills + 1
            /\ proc' = (IF Plan = "exitearly" THEN "dead" ELSE "quitting")
            /\ UNCHANGED addrSet

Start ==
  /\ Count
  /\ \E ok \in BOOLEAN : StartEffect(ok) /\ last' = <<"Start", IF ok THEN "ok" ELSE "err">>
  /\ UNCHANGED <<clientBuilt, exitedFlag, waitDone, killed>>

Protocol ==
  /\ Count
  /\ \E ok \in BOOLEAN : StartEffect(ok) /\ last' = <<"Protocol", IF ok THEN "netrpc" ELSE "invalid">>
  /\ UNCHANGED <<clientBuilt, exitedFlag, waitDone, killed>>

\* Client(): Start, then the cached client or a new connection (which needs a live plugin)
ClientCall ==
  /\ Count
  /\ \E ok \in BOOLEAN :
       /\ StartEffect(ok)
       /\ IF ~ok THEN last' = <<"ClientCall", "err">> /\ UNCHANGED clientBuilt
          ELSE IF clientBuilt THEN last' = <<"ClientCall", "ok">> /\ UNCHANGED clientBuilt
          ELSE IF proc' = "alive" THEN last' = <<"ClientCall", "ok">> /\ clientBuilt' = TRUE
          ELSE last' = <<"ClientCall", "err">> /\ UNCHANGED clientBuilt
  /\ UNCHANGED <<exitedFlag, waitDone, killed>>

ReattachConfig ==
  /\ Count
  /\ last' = <<"ReattachConfig", IF addrSet THEN "cfg" ELSE "nil">>
  /\ UNCHANGED <<addrSet, startErr, runnerSet, clientBuilt, exitedFlag, launches, kills, proc, waitDone, tmpdir, tmpdirs, killed>>

ID ==
  /\ Count
  /\ last' = <<"ID", IF runnerSet THEN "id" ELSE "empty">>
  /\ UNCHANGED <<addrSet, startErr, runnerSet, clientBuilt, exitedFlag, launches, kills, proc, waitDone, tmpdir, tmpdirs, killed>>

Exited ==
  /\ Count
  /\ last' = <<"Exited", IF exitedFlag THEN "true" ELSE "false">>
  /\ UNCHANGED <<addrSet, startErr, runnerSet, clientBuilt, exitedFlag, launches, kills, proc, waitDone, tmpdir, tmpdirs, killed>>

\* Kill(): nothing without a runner; otherwise close the client if there is an address (a graceful
\* exit of a live plugin), force kill if that was not possible, wait for the management goroutines
\* (so the exit has been observed), remove the socket directory, forget the runner.
Kill ==
  /\ Count
  /\ IF ~runnerSet
     THEN UNCHANGED <<clientBuilt, exitedFlag, kills, proc, waitDone, tmpdir, runnerSet>>
     ELSE /\ IF addrSet /\ proc = "alive"
             THEN \* graceful: quit request, plugin exits.  A plugin that exits the instant it has
                  \* seen the request can take the connection down while the host still waits for
                  \* its own write to be acknowledged; the request then counts as failed and the
                  \* (already exiting) process is force-killed as well.  Either way the request
                  \* was delivered first (TraceLifecycle checks that on the logged quit_seen).
                  clientBuilt' = TRUE /\ kills' \in {kills, kills + 1}
             ELSE IF addrSet
             THEN \* the plugin is already gone: whether the close request on the dead connection
                  \* counts as failed (force kill of a dead process) or not is immaterial
                  kills' \in {kills, kills + 1} /\ UNCHANGED clientBuilt
             ELSE kills' = kills + 1 /\ UNCHANGED clientBuilt     \* never connected: force kill
          /\ IF Plan = "startfails" THEN UNCHANGED <<proc, waitDone, exitedFlag>>     \* there never was a process to wait for
             ELSE proc' = "dead" /\ waitDone' = TRUE /\ exitedFlag' = TRUE
          /\ tmpdir' = "removed" /\ runnerSet' = FALSE
  /\ killed' = TRUE
  /\ last' = <<"Kill", "done">>
  /\ UNCHANGED <<addrSet, startErr, launches, tmpdirs>>

\* ---- what happens without the host calling anything ----------------------------------------
ProcGone ==      \* a process that was killed / asked to quit goes away
  /\ proc = "quitting" /\ proc' = "dead"
  /\ UNCHANGED <<addrSet, startErr, runnerSet, clientBuilt, exitedFlag, launches, kills, waitDone, tmpdir, tmpdirs, killed, ncalls, last>>

WaitMarkExited == \* the wait goroutine: reap, cancel doneCtx, exited = true
  /\ proc = "dead" /\ ~waitDone /\ launches > 0
  /\ waitDone' = TRUE /\ exitedFlag' = TRUE
  /\ UNCHANGED <<addrSet, startErr, runnerSet, clientBuilt, launches, kills, proc, tmpdir, tmpdirs, killed, ncalls, last>>

Crash ==          \* the plugin dies on its own (the environment)
  /\ proc = "alive" /\ proc' = "dead"
  /\ last' = <<"Crash", "-">>
  /\ UNCHANGED <<addrSet, startErr, runnerSet, clientBuilt, exitedFlag, launches, kills, waitDone, tmpdir, tmpdirs, killed, ncalls>>

Next == Start \/ Protocol \/ ClientCall \/ ReattachConfig \/ ID \/ Exited \/ Kill \/ ProcGone \/ WaitMarkExited \/ Crash
Spec == Init /\ [][Next]_vars /\ WF_vars(ProcGone) /\ WF_vars(WaitMarkExited)

-----------------------------------------------------------------------------
\* C19
LaunchAtMostOnce == launches <= 1 /\ tmpdirs <= 1
NoLaunchAfterKill == [][(killed /\ launches >= 1) => launches' = launches]_vars
\* C05: whenever a launch failed, the runner was told to kill the process
FailedStartKills == (startErr /\ Plan # "startfails") => kills >= 1
FailedStartEndsProcess == (startErr /\ Plan # "startfails") ~> (proc = "dead")
\* C04/C05: after Kill the process is gone, observed, and the directory removed
KillPost == (last = <<"Kill", "done">> /\ launches > 0) =>
              /\ tmpdir # "present" /\ ~runnerSet
              /\ Plan # "startfails" => (proc = "dead" /\ exitedFlag)
TypeOK == proc \in {"none", "alive", "quitting", "dead"} /\ tmpdir \in {"none", "present", "removed"}
=============================================================================
