SPECIFICATION Spec
CONSTANTS
  Dials <- DialsC
  Accepts <- AcceptsC
  AbortDials <- NoAborts
  DSide <- CSide
  DId <- CId
  ASide <- CSide
  AId <- CId
  W = 2
  IssueMax = 3
  MaxT = 8
  MaxProgress = TRUE
  FixDrain = TRUE
  FixDrop = FALSE
  AllowDown = FALSE
  MaxNextId = 0
INVARIANTS NoStuckAtEnd

CHECK_DEADLOCK FALSE
