----------------------------- MODULE RPCSession -----------------------------
(***************************************************************************)
(* The net/rpc session layer of go-plugin above the MuxBroker              *)
(* (rpc_client.go, rpc_server.go): what NewRPCClient / RPCServer.ServeConn *)
(* set up on one connection, how Dispense gets from a plugin name to the   *)
(* server object made for that call, how the plugin's stdout / stderr are  *)
(* copied to the connected hosts, and how Quit ends the server.  Several   *)
(* connections may be served by one RPCServer (a reattached host next to   *)
(* the launching one): every connection has its own yamux session, broker  *)
(* and id counter, all share Plugins, Stdout, Stderr and DoneCh.           *)
(*                                                                         *)
(* One action per step of the code that another goroutine can observe:     *)
(*   COpen        yamux Open of the next client stream (control, stdout,   *)
(*                stderr, in this order)                                   *)
(*   CBrokerUp    newMuxBroker + go Run on the client; NewRPCClient returns *)
(*   SAccept      mux.Accept in ServeConn: the k-th accepted stream is used *)
(*                as control / stdout / stderr by position                 *)
(*   SServe       copyStream goroutines, broker, rpc server on control     *)
(*   CallDispense RPCClient.Dispense: local name lookup, request on control *)
(*   SCreate      dispenseServer.Dispense: name lookup, p.Server(broker)   *)
(*   SAlloc       broker.NextId, reply, go Accept(id)                      *)
(*   SAppId       the plugin's own code calling NextId on the same broker  *)
(*   CDial        broker.Dial(id) on the client: the MuxBroker (MuxBroker. *)
(*                tla, property C06) joins it to the Accept(id) of the     *)
(*                same session                                             *)
(*   SWrite/SRead/CDeliver   a chunk written to the plugin's stdout/stderr *)
(*                pipe, read by one connection's copyStream goroutine,     *)
(*                written to the host's sync writer                        *)
(*   CClose/SQuit/LoopEnd    RPCClient.Close -> Control.Quit -> done(),    *)
(*                the accept loop ending -> done()                         *)
(***************************************************************************)
EXTENDS Integers, Sequences, FiniteSets, TLC

CONSTANTS
  Conns,        \* connections served by the one RPCServer
  Calls,        \* Dispense calls (identities)
  Kind,         \* plugin name -> "ok" | "fail" (Server returns an error) | "cunknown" (not in the host's map) | "sunknown" (not in the plugin's map)
  AppIdsMax,    \* NextId calls made by the plugin's own code
  Tokens,       \* chunks written per stdio stream
  SharedImpl,   \* sensitivity: the server reuses one object per name instead of making one per Dispense
  NoNilCheck,   \* sensitivity: done() closes DoneCh without the nil check
  SwapStd       \* sensitivity: the server uses its second accepted stream for stderr and the third for stdout

Names == DOMAIN Kind
Streams == {"out", "err"}
Other(s) == IF s = "out" THEN "err" ELSE "out"
NoCall == [conn |-> 0, name |-> "", st |-> "idle", id |-> 0, inst |-> 0, bound |-> 0]

VARIABLES
  cph,      \* cph[c]: 0..3 client streams opened, 4 broker running (usable), 5 closed
  sph,      \* sph[c]: 0..3 streams accepted by ServeConn, 4 serving
  synq,     \* synq[c]: streams opened and not yet accepted, in order (1 control, 2 stdout, 3 stderr)
  srole,    \* srole[c]: the client roles of the streams the server accepted, by position
  nextid,   \* nextid[c]: next value of the plugin-side broker's counter
  used,     \* used[c]: ids handed out so far, in order, with their user (a call or "app")
  call,     \* call[k]: [conn, name, st, id, inst, bound]
  impl,     \* objects made by Plugin.Server, in order of creation: [name, conn]
  acc,      \* goroutines in Accept(id): <<conn, id, inst>>
  apps,     \* number of application NextId calls so far
  pipe,     \* pipe[s]: chunks written to the plugin's stdout / stderr and not yet read by a copier
  wrote,    \* wrote[s]: number of chunks written
  chan,     \* chan[c][s]: chunks on the way to host c's stream s (s: the *client's* role of the stream)
  got,      \* got[c][s]: chunks host c's sync writer for s received, in order
  lost,     \* chunks read by the copier of a connection that was already closed
  quitq,    \* connections whose Quit request is on its way
  done,     \* DoneCh is closed
  closes,   \* number of close(DoneCh) executed
  loopEnded,\* Serve's accept loop has returned
  draining  \* clients whose Close has begun (no new calls) and not finished (what is in flight still arrives)

vars == <<cph, sph, synq, srole, nextid, used, call, impl, acc, apps, pipe, wrote, chan, got, lost, quitq, done, closes, loopEnded, draining>>
sessVars == <<cph, sph, synq, srole>>
dispVars == <<nextid, used, call, impl, acc, apps>>
stdioVars == <<pipe, wrote, chan, got, lost>>
quitVars == <<quitq, done, closes, loopEnded, draining>>

Init ==
  /\ cph = [c \in Conns |-> 0] /\ sph = [c \in Conns |-> 0]
  /\ synq = [c \in Conns |-> <<>>] /\ srole = [c \in Conns |-> <<>>]
  /\ nextid = [c \in Conns |-> 1] /\ used = [c \in Conns |-> <<>>]
  /\ call = [k \in Calls |-> NoCall] /\ impl = <<>> /\ acc = {} /\ apps = 0
  /\ pipe = [s \in Streams |-> <<>>] /\ wrote = [s \in Streams |-> 0]
  /\ chan = [c \in Conns |-> [s \in Streams |-> <<>>]]
  /\ got = [c \in Conns |-> [s \in Streams |-> <<>>]]
  /\ lost = {} /\ quitq = {} /\ done = FALSE /\ closes = 0 /\ loopEnded = FALSE /\ draining = {}

\* ---- connection set-up -------------------------------------------------------------------------
COpen(c) == /\ cph[c] \in 0..2 /\ ~loopEnded
            /\ cph' = [cph EXCEPT ![c] = @ + 1]
            /\ synq' = [synq EXCEPT ![c] = Append(@, cph[c] + 1)]
            /\ UNCHANGED <<sph, srole, dispVars, stdioVars, quitVars>>
CBrokerUp(c) == /\ cph[c] = 3
                /\ cph' = [cph EXCEPT ![c] = 4]
                /\ UNCHANGED <<sph, synq, srole, dispVars, stdioVars, quitVars>>
SAccept(c) == /\ sph[c] \in 0..2 /\ synq[c] # <<>>
              /\ sph' = [sph EXCEPT ![c] = @ + 1]
              /\ srole' = [srole EXCEPT ![c] = Append(@, Head(synq[c]))]
              /\ synq' = [synq EXCEPT ![c] = Tail(@)]
              /\ UNCHANGED <<cph, dispVars, stdioVars, quitVars>>
SServe(c) == /\ sph[c] = 3
             /\ sph' = [sph EXCEPT ![c] = 4]
             /\ UNCHANGED <<cph, synq, srole, dispVars, stdioVars, quitVars>>

\* the client role of the stream the server copies its stdio stream s to
ServerStreamFor(c, s) ==
  LET pos == IF SwapStd THEN (IF s = "out" THEN 3 ELSE 2) ELSE (IF s = "out" THEN 2 ELSE 3)
  IN IF srole[c][pos] = 2 THEN "out" ELSE "err"

\* ---- Dispense ----------------------------------------------------------------------------------
\* (on a client that has been closed the call fails at once; while its Close is still waiting for the Quit reply
\* the control stream is open and the request goes out like any other)
CallDispense(k, c, n) ==
  /\ call[k].st = "idle" /\ cph[c] \in {4, 5} /\ n \in Names
  /\ call' = [call EXCEPT ![k] = [NoCall EXCEPT !.conn = c, !.name = n,
                                   !.st = IF Kind[n] = "cunknown" \/ (cph[c] = 5 /\ c \notin draining) THEN "err" ELSE "sent"]]
  /\ UNCHANGED <<sessVars, nextid, used, impl, acc, apps, stdioVars, quitVars>>

\* name lookup and Plugin.Server(broker) in the handler of Dispenser.Dispense
SCreate(k) ==
  LET c == call[k].conn  n == call[k].name IN
  /\ call[k].st = "sent" /\ sph[c] = 4
  /\ IF Kind[n] # "ok"
       THEN /\ call' = [call EXCEPT ![k].st = "err"]
            /\ UNCHANGED impl
       ELSE LET old == {i \in 1..Len(impl) : impl[i].name = n /\ impl[i].conn = c} IN
            IF SharedImpl /\ old # {}
              THEN /\ call' = [call EXCEPT ![k].st = "made", ![k].inst = CHOOSE i \in old : TRUE]
                   /\ UNCHANGED impl
              ELSE /\ impl' = Append(impl, [name |-> n, conn |-> c])
                   /\ call' = [call EXCEPT ![k].st = "made", ![k].inst = Len(impl) + 1]
  /\ UNCHANGED <<sessVars, nextid, used, acc, apps, stdioVars, quitVars>>

\* NextId, the reply, and the goroutine that waits in Accept(id)
SAlloc(k) ==
  LET c == call[k].conn IN
  /\ call[k].st = "made"
  /\ call' = [call EXCEPT ![k].st = "replied", ![k].id = nextid[c]]
  /\ used' = [used EXCEPT ![c] = Append(@, <<nextid[c], k>>)]
  /\ nextid' = [nextid EXCEPT ![c] = @ + 1]
  /\ acc' = acc \cup {<<c, nextid[c], call[k].inst>>}
  /\ UNCHANGED <<sessVars, impl, apps, stdioVars, quitVars>>

SAppId(c) ==
  /\ apps < AppIdsMax /\ sph[c] = 4
  /\ apps' = apps + 1
  /\ used' = [used EXCEPT ![c] = Append(@, <<nextid[c], "app">>)]
  /\ nextid' = [nextid EXCEPT ![c] = @ + 1]
  /\ UNCHANGED <<sessVars, call, impl, acc, stdioVars, quitVars>>

\* Dial(id) on the client: joined by the broker of this session to the Accept of the same id
CDial(k) ==
  LET c == call[k].conn IN
  /\ call[k].st = "replied" /\ (cph[c] = 4 \/ c \in draining)     \* (a call under way may still complete while Close waits for its Quit reply)
  /\ \E a \in acc : /\ a[1] = c /\ a[2] = call[k].id
                    /\ call' = [call EXCEPT ![k].st = "ok", ![k].bound = a[3]]
                    /\ acc' = acc \ {a}
  /\ UNCHANGED <<sessVars, nextid, used, impl, apps, stdioVars, quitVars>>

\* a call under way when its connection is closed fails
CallFails(k) ==
  /\ call[k].st \in {"sent", "made", "replied"} /\ cph[call[k].conn] = 5
  /\ call' = [call EXCEPT ![k].st = "err"]
  /\ UNCHANGED <<sessVars, nextid, used, impl, acc, apps, stdioVars, quitVars>>

\* ---- stdio -------------------------------------------------------------------------------------
SWrite(s) ==
  /\ wrote[s] < Tokens
  /\ wrote' = [wrote EXCEPT ![s] = @ + 1]
  /\ pipe' = [pipe EXCEPT ![s] = Append(@, <<s, wrote[s] + 1>>)]
  /\ UNCHANGED <<sessVars, dispVars, chan, got, lost, quitVars>>
\* one of the connections' copyStream goroutines gets the next chunk
SRead(c, s) ==
  /\ sph[c] = 4 /\ pipe[s] # <<>>
  /\ pipe' = [pipe EXCEPT ![s] = Tail(@)]
  /\ IF cph[c] = 5 /\ c \notin draining
       THEN lost' = lost \cup {Head(pipe[s])} /\ UNCHANGED chan
       ELSE chan' = [chan EXCEPT ![c][ServerStreamFor(c, s)] = Append(@, Head(pipe[s]))] /\ UNCHANGED lost
  /\ UNCHANGED <<sessVars, dispVars, wrote, got, quitVars>>
CDeliver(c, s) ==
  /\ (cph[c] = 4 \/ c \in draining) /\ chan[c][s] # <<>>
  /\ got' = [got EXCEPT ![c][s] = Append(@, Head(chan[c][s]))]
  /\ chan' = [chan EXCEPT ![c][s] = Tail(@)]
  /\ UNCHANGED <<sessVars, dispVars, pipe, wrote, lost, quitVars>>

\* ---- the end -----------------------------------------------------------------------------------
Done == IF NoNilCheck \/ ~done THEN done' = TRUE /\ closes' = closes + 1
                               ELSE UNCHANGED <<done, closes>>
\* RPCClient.Close: asks the server to quit, then closes its streams and the session
CClose(c) ==
  /\ cph[c] = 4
  /\ cph' = [cph EXCEPT ![c] = 5]
  /\ draining' = draining \cup {c}
  /\ quitq' = IF sph[c] = 4 THEN quitq \cup {c} ELSE quitq
  /\ UNCHANGED <<sph, synq, srole, dispVars, stdioVars, done, closes, loopEnded>>
\* Close returns: whatever was still on its way to this host is gone
CCloseEnd(c) ==
  /\ c \in draining /\ draining' = draining \ {c}
  /\ chan' = [chan EXCEPT ![c] = [s \in Streams |-> <<>>]]
  /\ lost' = lost \cup UNION {{chan[c][s][i] : i \in 1..Len(chan[c][s])} : s \in Streams}
  /\ UNCHANGED <<sessVars, dispVars, pipe, wrote, got, quitq, done, closes, loopEnded>>
SQuit(c) ==
  /\ c \in quitq /\ quitq' = quitq \ {c} /\ Done
  /\ UNCHANGED <<sessVars, dispVars, stdioVars, loopEnded, draining>>
\* the listener is closed (by the owner once DoneCh is closed, or an accept error): Serve returns through done()
LoopEnd ==
  /\ ~loopEnded /\ loopEnded' = TRUE /\ Done
  /\ UNCHANGED <<sessVars, dispVars, stdioVars, quitq, draining>>

Next ==
  \/ \E c \in Conns : COpen(c) \/ CBrokerUp(c) \/ SAccept(c) \/ SServe(c) \/ SAppId(c) \/ CClose(c) \/ CCloseEnd(c) \/ SQuit(c)
  \/ \E k \in Calls, c \in Conns, n \in Names : CallDispense(k, c, n)
  \/ \E k \in Calls : SCreate(k) \/ SAlloc(k) \/ CDial(k) \/ CallFails(k)
  \/ \E s \in Streams : SWrite(s) \/ (\E c \in Conns : SRead(c, s) \/ CDeliver(c, s))
  \/ LoopEnd

Fair == /\ \A c \in Conns : WF_vars(SAccept(c)) /\ WF_vars(SServe(c)) /\ WF_vars(SQuit(c))
        /\ \A k \in Calls : WF_vars(SCreate(k)) /\ WF_vars(SAlloc(k)) /\ WF_vars(CDial(k)) /\ WF_vars(CallFails(k))
Spec == Init /\ [][Next]_vars /\ Fair

\* the whole state of the model is forgotten (a new case of a packed trace)
ResetAll ==
  /\ cph' = [c \in Conns |-> 0] /\ sph' = [c \in Conns |-> 0]
  /\ synq' = [c \in Conns |-> <<>>] /\ srole' = [c \in Conns |-> <<>>]
  /\ nextid' = [c \in Conns |-> 1] /\ used' = [c \in Conns |-> <<>>]
  /\ call' = [k \in Calls |-> NoCall] /\ impl' = <<>> /\ acc' = {} /\ apps' = 0
  /\ pipe' = [s \in Streams |-> <<>>] /\ wrote' = [s \in Streams |-> 0]
  /\ chan' = [c \in Conns |-> [s \in Streams |-> <<>>]]
  /\ got' = [c \in Conns |-> [s \in Streams |-> <<>>]]
  /\ lost' = {} /\ quitq' = {} /\ done' = FALSE /\ closes' = 0 /\ loopEnded' = FALSE /\ draining' = {}

\* ---- properties --------------------------------------------------------------------------------
\* the positions the server gives its accepted streams are the roles the client opened them for
RolesAgree == \A c \in Conns : \A i \in 1..Len(srole[c]) : srole[c][i] = i

\* C06, last clause: each Dispense reaches the server object created for that dispense
DispenseRouting ==
  \A k \in Calls : call[k].st = "ok" =>
     /\ call[k].bound = call[k].inst
     /\ impl[call[k].bound].name = call[k].name
     /\ impl[call[k].bound].conn = call[k].conn
OneImplPerDispense ==
  \A k1, k2 \in Calls : (k1 # k2 /\ call[k1].inst # 0 /\ call[k2].inst # 0) => call[k1].inst # call[k2].inst
\* only names both sides know and whose Server succeeds are ever connected
UnknownIsError == \A k \in Calls : call[k].st \in {"made", "replied", "ok"} => Kind[call[k].name] = "ok"
\* C20: NextId (used by Dispense and by the application at once) never hands out one id twice on a broker
IdsUnique == \A c \in Conns : \A i, j \in 1..Len(used[c]) : i # j => used[c][i][1] # used[c][j][1]

\* C11 (net/rpc): chunks are never crossed between the streams, arrive in order per host and stream,
\* and every chunk is in exactly one place
AllGot(s) == UNION {{got[c][s][i] : i \in 1..Len(got[c][s])} : c \in Conns}
AllChan(s) == UNION {{chan[c][s][i] : i \in 1..Len(chan[c][s])} : c \in Conns}
InPipe(s) == {pipe[s][i] : i \in 1..Len(pipe[s])}
StdioNotCrossed == \A c \in Conns, s \in Streams : \A i \in 1..Len(got[c][s]) : got[c][s][i][1] = s
StdioInOrder == \A c \in Conns, s \in Streams : \A i, j \in 1..Len(got[c][s]) : i < j => got[c][s][i][2] < got[c][s][j][2]
StdioOnce ==
  \A s \in Streams : \A n \in 1..wrote[s] :
     LET t == <<s, n>> IN
     Cardinality({p \in {"pipe", "chan", "got", "lost"} :
                    \/ p = "pipe" /\ t \in InPipe(s)
                    \/ p = "chan" /\ t \in (AllChan("out") \cup AllChan("err"))
                    \/ p = "got"  /\ t \in (AllGot("out") \cup AllGot("err"))
                    \/ p = "lost" /\ t \in lost}) = 1

\* DoneCh is closed at most once (a second close would panic)
DoneOnce == closes <= 1 /\ (done <=> closes >= 1)

TypeOK == /\ \A c \in Conns : cph[c] \in 0..5 /\ sph[c] \in 0..4 /\ Len(synq[c]) <= 3
          /\ \A k \in Calls : call[k].st \in {"idle", "sent", "made", "replied", "ok", "err"}

MCKind == [a |-> "ok", b |-> "ok", bad |-> "fail", zz |-> "cunknown", so |-> "sunknown"]
MCKindTrace == [a |-> "ok", b |-> "ok", c |-> "ok", bad |-> "fail", zz |-> "cunknown", so |-> "sunknown"]
MCKindSmall == [a |-> "ok", bad |-> "fail", zz |-> "cunknown", so |-> "sunknown"]

\* every call is answered (ok or error), whatever else happens
Answered == \A k \in Calls : (call[k].st = "sent") ~> (call[k].st \in {"ok", "err"})
=============================================================================
