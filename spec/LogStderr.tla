----------------------------- MODULE LogStderr -----------------------------
(***************************************************************************)
(* How the host turns the plugin's stderr into log records                 *)
(* (client.go logStderr, log_entry.go parseJSON).  A line is abstracted to *)
(* its kind and whether it fits the read buffer.  Step is the code's rule  *)
(* (with its two state bits: inside a panic trace, continuing a long       *)
(* line); LevelAllowed is what C10 says about the level of a record.       *)
(***************************************************************************)
EXTENDS Integers, Sequences, FiniteSets, TLC

Levels == {"trace", "debug", "info", "warn", "error"}
\* kinds of stderr lines
TextPrefix == {"p_trace", "p_debug", "p_info", "p_warn", "p_error"}       \* "[TRACE] ..." etc.
JsonLevel == {"j_trace", "j_debug", "j_info", "j_warn", "j_error"}        \* hclog JSON with a known @level
JsonOdd == {"j_unknownlevel", "j_nolevel", "j_null"}                      \* JSON object the code accepts, no usable level
NotHclog == {"j_badtype", "j_badts", "j_array", "j_scalar", "broken_json"} \* not an hclog entry: treated like text
Kinds == {"plain", "panic"} \cup TextPrefix \cup JsonLevel \cup JsonOdd \cup NotHclog
Fit == {"fits", "long"}          \* long: does not fit the read buffer, delivered in chunks
Tokens == [kind : Kinds, fit : Fit]

LevelOf(k) == CASE k \in {"p_trace", "j_trace"} -> "trace" [] k \in {"p_debug", "j_debug"} -> "debug"
                [] k \in {"p_info", "j_info"} -> "info" [] k \in {"p_warn", "j_warn"} -> "warn"
                [] k \in {"p_error", "j_error"} -> "error" [] OTHER -> "none"

\* the code: returns <<record level, message class, panic' >>
\* message classes: "line" (the whole line), "message" (the JSON @message with key/values), "chunks"
Step(inPanic, t) ==
  IF t.fit = "long" THEN <<"debug", "chunks", inPanic>>            \* over-long lines: every chunk at debug, state untouched
  ELSE IF t.kind \in JsonLevel THEN <<LevelOf(t.kind), "message", FALSE>>
  ELSE IF t.kind \in JsonOdd THEN <<"debug", "line", FALSE>>
  ELSE IF t.kind \in TextPrefix THEN <<LevelOf(t.kind), "line", FALSE>>
  ELSE IF t.kind = "panic" THEN <<"error", "line", TRUE>>
  ELSE <<IF inPanic THEN "error" ELSE "debug", "line", inPanic>>   \* plain text and everything that is not hclog JSON

\* the property: the level of the record for a line
LevelAllowed(t, lvl, panicSeen) ==
  IF t.fit = "long" THEN lvl \in Levels                             \* some level; the content must be complete (checked on the bytes)
  ELSE IF LevelOf(t.kind) # "none" THEN lvl = LevelOf(t.kind)       \* its JSON level or [LEVEL] prefix
  ELSE IF t.kind = "panic" THEN lvl = "error"
  ELSE lvl = "debug" \/ (lvl = "error" /\ panicSeen)                \* falling back to debug (error inside a panic trace)

VARIABLES input, pos, inPanic, panicSeen, recs
lv == <<input, pos, inPanic, panicSeen, recs>>
MaxLen == 3
LInit == /\ input \in UNION {[1..n -> Tokens] : n \in 1..MaxLen} /\ pos = 1 /\ inPanic = FALSE /\ panicSeen = FALSE /\ recs = <<>>
LStep == /\ pos <= Len(input)
         /\ LET r == Step(inPanic, input[pos]) IN
            /\ recs' = Append(recs, [level |-> r[1], msg |-> r[2]])
            /\ inPanic' = r[3]
         /\ panicSeen' = (panicSeen \/ (input[pos].kind = "panic" /\ input[pos].fit = "fits"))
         /\ pos' = pos + 1 /\ UNCHANGED input
LSpec == LInit /\ [][LStep]_lv

\* one record per line, in order, at an allowed level
OneRecordPerLine == Len(recs) = pos - 1
LevelsAllowed == \A k \in 1..Len(recs) :
                   LevelAllowed(input[k], recs[k].level,
                                \E j \in 1..(k - 1) : input[j].kind = "panic" /\ input[j].fit = "fits")
\* hclog JSON entries carry their message and fields, everything else the line itself
MessageCarried == \A k \in 1..Len(recs) :
                    (input[k].fit = "fits") => (recs[k].msg = IF input[k].kind \in JsonLevel THEN "message" ELSE "line")
=============================================================================
