SPECIFICATION TraceSpec
CONSTANTS
  Ids = {1, 2, 3, 4, 5, 6}
  AcceptorIsPlugin = FALSE
  FixOrder = TRUE
  W = 5000
  IssueMax = 100000000
  MaxT = 0
  MaxAttempts = 50
  Strict = TRUE
CONSTRAINT TraceConstraint
INVARIANTS Routing MainAlive
POSTCONDITION TraceAccepted
CHECK_DEADLOCK FALSE
