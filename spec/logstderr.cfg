SPECIFICATION LSpec
INVARIANTS OneRecordPerLine LevelsAllowed MessageCarried
CHECK_DEADLOCK FALSE
