SPECIFICATION VSpec
INVARIANTS HighestCommon NoCommonRefused NoListLowest NeverMixed
CHECK_DEADLOCK FALSE
