SPECIFICATION Spec
CONSTANTS
  Ids = {1, 2}
  W = 3
  IssueMax = 4
  MaxT = 12
  MaxGen = 2
  DialsPerId = 1
  Shared = FALSE
INVARIANTS TypeOK Routing NoPanic FirstCallOK NoGoroutineLeft
PROPERTIES DialsReturn
CHECK_DEADLOCK FALSE
