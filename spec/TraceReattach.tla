---------------------------- MODULE TraceReattach ----------------------------
(* Trace validation for Reattach: histories executed on real plugins (real processes, or an       *)
(* in-process test-mode server), packed in one log per mode, each history starting with "reset". *)
EXTENDS Reattach, Json, IOUtils

Trace == ndJsonDeserialize(IOEnv.VERIF_TRACE)
VARIABLES l
E == Trace[l]

Op == CASE E.op = "Start" -> Start
        [] E.op = "Reattach" -> Reattach(E.c)
        [] E.op = "Set" -> Set(E.c, E.v)
        [] E.op = "Get" -> Get(E.c)
        [] E.op = "Kill" -> Kill(E.c)
        [] E.op = "Cancel" -> Cancel
        [] E.op = "Crash" -> Crash
        [] E.op = "Again" -> Again(E.c)
        [] E.op = "Freeze" -> Freeze
        [] E.op = "Ghost" -> Ghost
        [] OTHER -> FALSE

TNext ==
  /\ l <= Len(Trace) /\ l' = l + 1
  /\ \/ E.ev = "reset" /\ RReset
     \/ /\ E.ev = "ret" /\ Op
        /\ last'[3] = E.res                                   \* the observed result is the model's
        /\ (E.op = "Get" /\ inst = "alive") => E.same_instance   \* ... from the very same plugin instance
        /\ E.alive = (inst' = "alive")                        \* and the plugin is (not) running afterwards
TSpec == RInit /\ l = 1 /\ [][TNext]_<<rv, l>>

HighWater == TLCSet(1, IF l > TLCGet(1) THEN l ELSE TLCGet(1))
TraceConstraint == HighWater
TraceAccepted == /\ PrintT(<<"HIGHWATER", TLCGet(1), Len(Trace)>>)
                 /\ TLCGet(1) = Len(Trace) + 1
ASSUME TLCSet(1, 0)
=============================================================================
