-------------------------------- MODULE Kill --------------------------------
(***************************************************************************)
(* Client.Kill (client.go) against a plugin process with a given shutdown  *)
(* behaviour, called from several goroutines.  One action per step of Kill *)
(* (take the kill lock, read the fields, close the protocol client = the   *)
(* shutdown request, wait for the grace period or the exit, force kill,    *)
(* wait for the management goroutines, forget the runner); the process     *)
(* exiting and the wait goroutine reaping it are separate actions.  Time   *)
(* is discrete with maximal progress.                                      *)
(*                                                                         *)
(* Behaviour: "prompt" exits as soon as asked, "delay" exits Delay later   *)
(* (inside the grace period), "ignore" never exits on its own, "frozen"    *)
(* does not even answer the request (it takes CloseBlock until the close   *)
(* gives up; FrozenCloseOk says whether Close then reports success),       *)
(* "crashed" is already dead, "unconnected" is alive but never completed   *)
(* the handshake (no address: Kill skips the shutdown request).            *)
(* SerialiseKill = FALSE is the behaviour before the fix (no kill lock).   *)
(***************************************************************************)
EXTENDS Integers, Sequences, FiniteSets, TLC

CONSTANTS Callers, Behaviour, Delay, Grace, CloseBlock, FrozenCloseOk, SerialiseKill, MaxT,
          Lag   \* how late the host may learn that the process has exited (0 for a child it waits on; a reattached client polls the pid once a second)

VARIABLES now, proc, quitAt, exitDue, reaped, exitedFlag, runnerSet, clientClosed, lock,
          cpc, cstart, cend, cdl, forcedGraceful, marker
kv == <<now, proc, quitAt, exitDue, reaped, exitedFlag, runnerSet, clientClosed, lock,
        cpc, cstart, cend, cdl, forcedGraceful, marker>>

KInit ==
  /\ now = 0
  /\ proc = (IF Behaviour = "crashed" THEN "dead" ELSE IF Behaviour = "frozen" THEN "frozen" ELSE "alive")
  /\ quitAt = -1 /\ exitDue = -1 /\ reaped = FALSE /\ exitedFlag = FALSE /\ runnerSet = TRUE
  /\ clientClosed = FALSE /\ lock = "free"
  /\ cpc = [c \in Callers |-> "idle"] /\ cstart = [c \in Callers |-> -1] /\ cend = [c \in Callers |-> -1]
  /\ cdl = [c \in Callers |-> 0]
  /\ forcedGraceful = FALSE /\ marker = FALSE

\* every variable back to its initial value (packed traces)
KReset ==
  /\ now' = 0
  /\ proc' = (IF Behaviour = "crashed" THEN "dead" ELSE IF Behaviour = "frozen" THEN "frozen" ELSE "alive")
  /\ quitAt' = -1 /\ exitDue' = -1 /\ reaped' = FALSE /\ exitedFlag' = FALSE /\ runnerSet' = TRUE
  /\ clientClosed' = FALSE /\ lock' = "free"
  /\ cpc' = [c \in Callers |-> "idle"] /\ cstart' = [c \in Callers |-> -1] /\ cend' = [c \in Callers |-> -1]
  /\ cdl' = [c \in Callers |-> 0]
  /\ forcedGraceful' = FALSE /\ marker' = FALSE

\* a Kill call at any time (the model-checking configurations issue all calls at time 0: Call)
CallAnyTime(c) ==
           /\ cpc[c] = "idle"
           /\ cpc' = [cpc EXCEPT ![c] = "want"] /\ cstart' = [cstart EXCEPT ![c] = now]
           /\ UNCHANGED <<now, proc, quitAt, exitDue, reaped, exitedFlag, runnerSet, clientClosed, lock, cend, cdl, forcedGraceful, marker>>
Call(c) == /\ cpc[c] = "idle" /\ now = 0
           /\ cpc' = [cpc EXCEPT ![c] = "want"] /\ cstart' = [cstart EXCEPT ![c] = now]
           /\ UNCHANGED <<now, proc, quitAt, exitDue, reaped, exitedFlag, runnerSet, clientClosed, lock, cend, cdl, forcedGraceful, marker>>

TakeLock(c) == /\ cpc[c] = "want" /\ (SerialiseKill => lock = "free")
               /\ lock' = (IF SerialiseKill THEN c ELSE lock)
               /\ cpc' = [cpc EXCEPT ![c] = "read"]
               /\ UNCHANGED <<now, proc, quitAt, exitDue, reaped, exitedFlag, runnerSet, clientClosed, cstart, cend, cdl, forcedGraceful, marker>>

Finish(c) == /\ cend' = [cend EXCEPT ![c] = now]
             /\ lock' = (IF lock = c THEN "free" ELSE lock)

Read(c) == /\ cpc[c] = "read"
           /\ IF ~runnerSet
              THEN cpc' = [cpc EXCEPT ![c] = "done"] /\ Finish(c) /\ UNCHANGED cdl
              ELSE IF Behaviour = "unconnected"
              THEN cpc' = [cpc EXCEPT ![c] = "force"] /\ UNCHANGED <<lock, cend, cdl>>      \* no address: nothing to close
              ELSE /\ cpc' = [cpc EXCEPT ![c] = "closing"] /\ UNCHANGED <<lock, cend>>
                   \* a close on a plugin that does not answer takes CloseBlock
                   /\ cdl' = [cdl EXCEPT ![c] = IF proc = "frozen" /\ ~clientClosed THEN now + CloseBlock ELSE now]
           /\ UNCHANGED <<now, proc, quitAt, exitDue, reaped, exitedFlag, runnerSet, clientClosed, cstart, forcedGraceful, marker>>

\* client.Close(): the shutdown request
Close(c) ==
  /\ cpc[c] = "closing" /\ now >= cdl[c]
  /\ clientClosed' = TRUE
  /\ IF clientClosed
     THEN \* the connection is already closed: Close fails, no grace period
          /\ cpc' = [cpc EXCEPT ![c] = "force"] /\ UNCHANGED <<quitAt, exitDue, cdl>>
     ELSE IF proc = "dead"
     THEN \* the plugin is gone: the close fails (net/rpc: the request cannot be sent) or reports
          \* success all the same (gRPC ignores the error of the shutdown request); in the latter case
          \* the grace period ends at once because the exit has been / is about to be observed
          /\ UNCHANGED <<quitAt, exitDue>>
          /\ \/ cpc' = [cpc EXCEPT ![c] = "force"] /\ UNCHANGED cdl
             \/ cpc' = [cpc EXCEPT ![c] = "grace"] /\ cdl' = [cdl EXCEPT ![c] = now + Grace]
     ELSE IF proc = "frozen"
     THEN /\ cpc' = [cpc EXCEPT ![c] = IF FrozenCloseOk THEN "grace" ELSE "force"]
          /\ cdl' = [cdl EXCEPT ![c] = now + Grace] /\ UNCHANGED <<quitAt, exitDue>>
     ELSE /\ quitAt' = now
          /\ exitDue' = (CASE Behaviour = "prompt" -> now [] Behaviour = "delay" -> now + Delay [] OTHER -> -1)
          /\ cpc' = [cpc EXCEPT ![c] = "grace"] /\ cdl' = [cdl EXCEPT ![c] = now + Grace]
  /\ UNCHANGED <<now, proc, reaped, exitedFlag, runnerSet, lock, cstart, cend, forcedGraceful, marker>>

GraceExit(c) == /\ cpc[c] = "grace" /\ exitedFlag
                /\ cpc' = [cpc EXCEPT ![c] = "tail"]
                /\ UNCHANGED <<now, proc, quitAt, exitDue, reaped, exitedFlag, runnerSet, clientClosed, lock, cstart, cend, cdl, forcedGraceful, marker>>
GraceExpire(c) == /\ cpc[c] = "grace" /\ ~exitedFlag /\ now >= cdl[c]
                  /\ cpc' = [cpc EXCEPT ![c] = "force"]
                  /\ UNCHANGED <<now, proc, quitAt, exitDue, reaped, exitedFlag, runnerSet, clientClosed, lock, cstart, cend, cdl, forcedGraceful, marker>>
Force(c) == /\ cpc[c] = "force"
            /\ IF proc # "dead"
               THEN /\ proc' = "dead"
                    \* was it about to exit on its own inside the grace period?
                    /\ forcedGraceful' = (forcedGraceful \/ (exitDue >= 0 /\ exitDue - quitAt + Lag < Grace))
               ELSE UNCHANGED <<proc, forcedGraceful>>
            /\ cpc' = [cpc EXCEPT ![c] = "tail"]
            /\ UNCHANGED <<now, quitAt, exitDue, reaped, exitedFlag, runnerSet, clientClosed, lock, cstart, cend, cdl, marker>>
KTail(c) == /\ cpc[c] = "tail" /\ reaped         \* clientWaitGroup.Wait(): the exit has been observed
           /\ runnerSet' = FALSE /\ cpc' = [cpc EXCEPT ![c] = "done"] /\ Finish(c)
           /\ UNCHANGED <<now, proc, quitAt, exitDue, reaped, exitedFlag, clientClosed, cstart, cdl, forcedGraceful, marker>>

ProcExit == /\ proc = "alive" /\ exitDue >= 0 /\ now >= exitDue
            /\ proc' = "dead" /\ marker' = TRUE                       \* it finished its cleanup
            /\ UNCHANGED <<now, quitAt, exitDue, reaped, exitedFlag, runnerSet, clientClosed, lock, cpc, cstart, cend, cdl, forcedGraceful>>
Reap == /\ proc = "dead" /\ ~reaped /\ reaped' = TRUE /\ exitedFlag' = TRUE
        /\ UNCHANGED <<now, proc, quitAt, exitDue, runnerSet, clientClosed, lock, cpc, cstart, cend, cdl, forcedGraceful, marker>>

Instant == \/ \E c \in Callers : TakeLock(c) \/ Read(c) \/ Close(c) \/ GraceExit(c) \/ GraceExpire(c) \/ Force(c) \/ KTail(c)
           \/ ProcExit \/ Reap
Tick == /\ ~ENABLED Instant /\ now < MaxT /\ now' = now + 1
        /\ UNCHANGED <<proc, quitAt, exitDue, reaped, exitedFlag, runnerSet, clientClosed, lock, cpc, cstart, cend, cdl, forcedGraceful, marker>>
KNext == (\E c \in Callers : Call(c)) \/ Instant \/ Tick
KSpec == KInit /\ [][KNext]_kv /\ WF_kv(Instant) /\ WF_kv(Tick)

\* ---- C04
KillPost == \A c \in Callers : cpc[c] = "done" => (proc = "dead" /\ reaped /\ exitedFlag)
GracefulRespected == ~forcedGraceful
MarkerIffGraceful == (\A c \in Callers : cpc[c] \in {"idle", "done"}) /\ (\E c \in Callers : cpc[c] = "done")
                       => (marker = (Behaviour \in {"prompt", "delay"}))
\* how long a Kill may take: its own steps plus, when serialised, the call holding the lock before it
OneKill == (IF Behaviour = "frozen" THEN CloseBlock ELSE 0) + (IF Behaviour \in {"ignore", "frozen"} THEN Grace ELSE IF Behaviour = "delay" THEN Delay ELSE 0)
Bounded == \A c \in Callers : cpc[c] = "done" => cend[c] - cstart[c] <= OneKill
KillTerminates == \A c \in Callers : (cpc[c] = "want") ~> (cpc[c] = "done")
=============================================================================
