SPECIFICATION TraceSpec
CONSTANTS
  Ids = {1, 2, 3, 4, 5, 6}
  AcceptorIsPlugin = TRUE
  FixOrder = TRUE
  W = 5000
  IssueMax = 100000000
  MaxT = 0
  MaxAttempts = 50
  Strict = FALSE
CONSTRAINT TraceConstraint

POSTCONDITION TraceAccepted
CHECK_DEADLOCK FALSE
