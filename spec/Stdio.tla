-------------------------------- MODULE Stdio --------------------------------
(***************************************************************************)
(* Synced stdout/stderr (server.go pipes, grpc_stdio.go copyChan /          *)
(* StreamStdio / client Run; rpc_server.go and rpc_client.go copyStream).   *)
(* The plugin writes tokens to its two streams; each stream has its own    *)
(* pipe and reader; over gRPC the chunks of both streams travel tagged on  *)
(* one FIFO, over net/rpc on two.  Chunking is arbitrary.  The host        *)
(* delivers each chunk to the writer of its tag.                           *)
(* CrossTag = TRUE models a sender that tags stderr chunks as stdout (must *)
(* break NoCrossing); Reuse = TRUE a sender that reuses one buffer for     *)
(* consecutive chunks (must break Prefix).                                 *)
(***************************************************************************)
EXTENDS Integers, Sequences, FiniteSets, SequencesExt, TLC

CONSTANTS MaxWrites, OneFifo, CrossTag, Reuse
Streams == {"out", "err"}

VARIABLES written, pipe, chunk, fifo, delivered, nw, lastbuf
sv == <<written, pipe, chunk, fifo, delivered, nw, lastbuf>>

SInit == /\ written = [s \in Streams |-> <<>>] /\ pipe = [s \in Streams |-> <<>>]
         /\ chunk = [s \in Streams |-> <<>>] /\ fifo = [s \in Streams |-> <<>>]
         /\ delivered = [s \in Streams |-> <<>>] /\ nw = 0 /\ lastbuf = <<>>

\* the plugin writes the next token (tokens are numbered, so any token identifies stream and position)
Write(s) == /\ nw < MaxWrites /\ nw' = nw + 1
            /\ written' = [written EXCEPT ![s] = Append(@, <<s, Len(@) + 1>>)]
            /\ pipe' = [pipe EXCEPT ![s] = Append(@, <<s, Len(written[s]) + 1>>)]
            /\ UNCHANGED <<chunk, fifo, delivered, lastbuf>>
\* the reader goroutine takes a non-empty prefix of the pipe as one chunk
Read(s, k) == /\ chunk[s] = <<>> /\ k \in 1..Len(pipe[s])
              /\ chunk' = [chunk EXCEPT ![s] = SubSeq(pipe[s], 1, k)]
              /\ pipe' = [pipe EXCEPT ![s] = SubSeq(pipe[s], k + 1, Len(pipe[s]))]
              /\ UNCHANGED <<written, fifo, delivered, nw, lastbuf>>
Q(s) == IF OneFifo THEN "out" ELSE s          \* which FIFO carries stream s
\* the chunk is sent, tagged with its stream
Send(s) == /\ chunk[s] # <<>>
           /\ LET tag == IF CrossTag THEN "out" ELSE s
                  data == IF Reuse /\ lastbuf # <<>> THEN lastbuf ELSE chunk[s] IN
              /\ fifo' = [fifo EXCEPT ![Q(s)] = Append(@, <<tag, data>>)]
              /\ lastbuf' = chunk[s]
           /\ chunk' = [chunk EXCEPT ![s] = <<>>]
           /\ UNCHANGED <<written, pipe, delivered, nw>>
\* the host takes the next message and writes it to the writer of its tag
Deliver(q) == /\ fifo[q] # <<>>
              /\ LET m == Head(fifo[q]) IN delivered' = [delivered EXCEPT ![m[1]] = @ \o m[2]]
              /\ fifo' = [fifo EXCEPT ![q] = Tail(@)]
              /\ UNCHANGED <<written, pipe, chunk, nw, lastbuf>>
SNext == \E s \in Streams : Write(s) \/ Send(s) \/ Deliver(s) \/ \E k \in 1..MaxWrites : Read(s, k)
SSpec == SInit /\ [][SNext]_sv /\ WF_sv(SNext)

\* C11
Prefix == \A s \in Streams : IsPrefix(delivered[s], written[s])        \* exactly once, in order, nothing invented
NoCrossing == \A s \in Streams : \A k \in 1..Len(delivered[s]) : delivered[s][k][1] = s
Quiet == \A s \in Streams : pipe[s] = <<>> /\ chunk[s] = <<>> /\ fifo[s] = <<>>
Complete == (Quiet /\ nw = MaxWrites) => \A s \in Streams : delivered[s] = written[s]
EventuallyAll == <>(\A s \in Streams : nw = MaxWrites => delivered[s] = written[s])
=============================================================================
