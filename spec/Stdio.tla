-------------------------------- MODULE Stdio --------------------------------
(***************************************************************************)
(* Synced stdout/stderr (server.go pipes, grpc_stdio.go copyChan /          *)
(* StreamStdio / client Run; rpc_server.go and rpc_client.go copyStream).   *)
(* The plugin writes tokens to its two streams; each stream has its own    *)
(* pipe and reader; over gRPC the chunks of both streams travel tagged on  *)
(* one FIFO, over net/rpc on two.  Chunking is arbitrary.  The host        *)
(* delivers each chunk to the writer of its tag.                           *)
(* CrossTag = TRUE models a sender that tags stderr chunks as stdout (must *)
(* break NoCrossing); Reuse = TRUE a sender that reuses one buffer for     *)
(* consecutive chunks (must break Prefix).                                 *)
(* Handover = TRUE adds a second host: the first one's connection goes     *)
(* away (Detach: whatever was on its way to it is lost with it) and        *)
(* another host attaches to the plugin, which kept running; what that host *)
(* receives is a gap-free, in-order run of what was written (Run).         *)
(* Requeue = TRUE models a sender that puts the chunk it could not send    *)
(* back behind the output that followed it (must break Run).               *)
(***************************************************************************)
EXTENDS Integers, Sequences, FiniteSets, SequencesExt, TLC

CONSTANTS MaxWrites, OneFifo, CrossTag, Reuse, Handover, Requeue
Streams == {"out", "err"}

VARIABLES written, pipe, chunk, fifo, delivered, nw, lastbuf, gen
sv == <<written, pipe, chunk, fifo, delivered, nw, lastbuf, gen>>

SInit == /\ written = [s \in Streams |-> <<>>] /\ pipe = [s \in Streams |-> <<>>]
         /\ chunk = [s \in Streams |-> <<>>] /\ fifo = [s \in Streams |-> <<>>]
         /\ delivered = [s \in Streams |-> <<>>] /\ nw = 0 /\ lastbuf = <<>> /\ gen = 1

\* the plugin writes the next token (tokens are numbered, so any token identifies stream and position)
Write(s) == /\ nw < MaxWrites /\ nw' = nw + 1
            /\ written' = [written EXCEPT ![s] = Append(@, <<s, Len(@) + 1>>)]
            /\ pipe' = [pipe EXCEPT ![s] = Append(@, <<s, Len(written[s]) + 1>>)]
            /\ UNCHANGED <<chunk, fifo, delivered, lastbuf, gen>>
\* the reader goroutine takes a non-empty prefix of the pipe as one chunk
Read(s, k) == /\ chunk[s] = <<>> /\ k \in 1..Len(pipe[s])
              /\ chunk' = [chunk EXCEPT ![s] = SubSeq(pipe[s], 1, k)]
              /\ pipe' = [pipe EXCEPT ![s] = SubSeq(pipe[s], k + 1, Len(pipe[s]))]
              /\ UNCHANGED <<written, fifo, delivered, nw, lastbuf, gen>>
Q(s) == IF OneFifo THEN "out" ELSE s          \* which FIFO carries stream s
\* the chunk is sent, tagged with its stream
Send(s) == /\ chunk[s] # <<>>
           /\ LET tag == IF CrossTag THEN "out" ELSE s
                  data == IF Reuse /\ lastbuf # <<>> THEN lastbuf ELSE chunk[s] IN
              /\ fifo' = [fifo EXCEPT ![Q(s)] = Append(@, <<tag, data>>)]
              /\ lastbuf' = chunk[s]
           /\ chunk' = [chunk EXCEPT ![s] = <<>>]
           /\ UNCHANGED <<written, pipe, delivered, nw, gen>>
\* the host takes the next message and writes it to the writer of its tag
Deliver(q) == /\ fifo[q] # <<>>
              /\ LET m == Head(fifo[q]) IN delivered' = [delivered EXCEPT ![m[1]] = @ \o m[2]]
              /\ fifo' = [fifo EXCEPT ![q] = Tail(@)]
              /\ UNCHANGED <<written, pipe, chunk, nw, lastbuf, gen>>
\* the first host's connection goes away; the plugin keeps running and the next host attaches at once.
\* What was in flight to the first host is gone with it, and so is the chunk whose send failed --
\* unless the sender puts it back (Requeue), which it does behind the chunk the reader goroutine has
\* meanwhile taken from the pipe.
Detach ==
  /\ Handover /\ gen = 1 /\ gen' = 2
  /\ fifo' = [s \in Streams |-> <<>>]
  /\ delivered' = [s \in Streams |-> <<>>]
  /\ IF Requeue
       THEN \E s \in Streams, k \in 1..MaxWrites :
              /\ chunk[s] # <<>> /\ k \in 1..Len(pipe[s])
              /\ chunk' = [chunk EXCEPT ![s] = SubSeq(pipe[s], 1, k)]
              /\ pipe' = [pipe EXCEPT ![s] = chunk[s] \o SubSeq(pipe[s], k + 1, Len(pipe[s]))]
       ELSE chunk' = [s \in Streams |-> <<>>] /\ UNCHANGED pipe
  /\ UNCHANGED <<written, nw, lastbuf>>
SNext == Detach \/ \E s \in Streams : Write(s) \/ Send(s) \/ Deliver(s) \/ \E k \in 1..MaxWrites : Read(s, k)
SSpec == SInit /\ [][SNext]_sv /\ WF_sv(SNext)

\* C11
Prefix == gen = 1 => \A s \in Streams : IsPrefix(delivered[s], written[s])        \* exactly once, in order, nothing invented
\* whichever host: what it has received so far is a gap-free run of what was written, in order
IsRun(d, w) == \E off \in 0..(Len(w) - Len(d)) : SubSeq(w, off + 1, off + Len(d)) = d
Run == \A s \in Streams : Len(delivered[s]) <= Len(written[s]) /\ IsRun(delivered[s], written[s])
NoCrossing == \A s \in Streams : \A k \in 1..Len(delivered[s]) : delivered[s][k][1] = s
Quiet == \A s \in Streams : pipe[s] = <<>> /\ chunk[s] = <<>> /\ fifo[s] = <<>>
Complete == (gen = 1 /\ Quiet /\ nw = MaxWrites) => \A s \in Streams : delivered[s] = written[s]
EventuallyAll == <>(\A s \in Streams : (gen = 1 /\ nw = MaxWrites) => delivered[s] = written[s])
=============================================================================
