--------------------------- MODULE TraceLogStderr ---------------------------
(***************************************************************************)
(* Conformance of the real stderr forwarding with LogStderr.  One log line *)
(* per stderr stream fed to a real Client: the token sequence, and per     *)
(* input line what was observed (copied verbatim to the Stderr writer, the *)
(* log record's level, whether its message is the line / the JSON @message *)
(* with its fields / the line's chunks in order).                          *)
(***************************************************************************)
EXTENDS LogStderr, Json, IOUtils

Obs == ndJsonDeserialize(IOEnv.VERIF_TRACE)
VARIABLES i, bad
tv == <<i, bad>>

Tok(x) == [kind |-> x.kind, fit |-> x.fit]

RECURSIVE Run(_, _, _, _, _)
\* walks the observed lines with the model's state; TRUE iff every line conforms
Run(o, k, ip, seen, acc) ==
  IF k > Len(o.lines) THEN acc
  ELSE LET x == o.lines[k]  t == Tok(x)  r == Step(ip, t) IN
       Run(o, k + 1, r[3], seen \/ (t.kind = "panic" /\ t.fit = "fits"),
           acc /\ x.copied                                      \* copied unchanged, in order, to the Stderr writer
               /\ x.nrecords >= 1                               \* emitted as a log record
               /\ LevelAllowed(t, x.level, seen)                \* the property
               /\ x.level = r[1]                                \* the model of the code
               /\ (t.fit = "fits" => (x.nrecords = 1 /\ x.msg = r[2] /\ (r[2] = "message" => x.kv_ok)))
               /\ (t.fit = "long" => x.msg = "chunks"))

Conforms(o) ==
  /\ ~o.out.panic /\ o.out.finished                 \* the host neither panics nor stops consuming
  /\ o.out.start_ok                                 \* ... also before the handshake line has arrived (stderr written first)
  /\ o.out.stdout_drained                           \* the plugin's stdout writer was never blocked
  /\ o.out.extra_records = 0
  /\ Run(o, 1, FALSE, FALSE, TRUE)

TInit == i = 1 /\ bad = 0
TNext ==
  /\ i <= Len(Obs)
  /\ i' = i + 1
  /\ IF Conforms(Obs[i]) THEN bad' = bad
     ELSE bad' = bad + 1 /\ PrintT(<<"DEVIATION", i, Obs[i].name>>)
  /\ UNCHANGED lv
TSpec == TInit /\ input = <<[kind |-> "plain", fit |-> "fits"]>> /\ pos = 1 /\ inPanic = FALSE /\ panicSeen = FALSE /\ recs = <<>>
         /\ [][TNext]_<<tv, lv>>
Done == (i = Len(Obs) + 1) => PrintT(<<"JUDGED", Len(Obs), "BAD", bad>>)
=============================================================================
