SPECIFICATION TraceSpec
CONSTANTS
  Plan = "startfails"
  MaxCalls = 1000000
  RetryLaunch = FALSE
CONSTRAINT TraceConstraint
INVARIANTS LaunchAtMostOnce FailedStartKills KillPost
POSTCONDITION TraceAccepted
CHECK_DEADLOCK FALSE
