SPECIFICATION Spec
CONSTANTS
  Conns = {1, 2}
  Calls = {1, 2}
  Kind <- MCKind
  AppIdsMax = 1
  Tokens = 0
  SharedImpl = FALSE
  NoNilCheck = TRUE
  SwapStd = FALSE
INVARIANTS TypeOK RolesAgree DispenseRouting OneImplPerDispense UnknownIsError IdsUnique DoneOnce
CHECK_DEADLOCK FALSE
