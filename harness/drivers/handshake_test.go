package drivers

// Driver for C01 (and the launch side of C05): every abstract handshake-line class is turned
// into concrete bytes, fed to the real Client.Start through a scripted in-memory runner, and
// the observed outcome is logged for TLC (spec/TraceHandshake.tla).

import (
	"crypto/ecdsa"
	"crypto/elliptic"
	"crypto/rand"
	"crypto/tls"
	"crypto/x509"
	"crypto/x509/pkix"
	"encoding/base64"
	"encoding/json"
	"fmt"
	"math/big"
	"net"
	"os"
	"os/exec"
	"path/filepath"
	"reflect"
	"runtime"
	"strconv"
	"strings"
	"sync"
	"testing"
	"time"

	hclog "github.com/hashicorp/go-hclog"
	plugin "github.com/hashicorp/go-plugin"
	"github.com/hashicorp/go-plugin/verifharness/vp"
)

type hsLine struct {
	N     int    `json:"n"`
	Core  string `json:"core"`
	Ver   string `json:"ver"`
	Net   string `json:"net"`
	Addr  string `json:"addr"`
	Proto string `json:"proto"`
	Cert  string `json:"cert"`
	Mux   string `json:"mux"`
	Ws    string `json:"ws"`
}
type hsCfg struct {
	Allowed string `json:"allowed"`
	TLS     string `json:"tls"`
	MuxReq  bool   `json:"muxreq"`
}
type hsCase struct {
	Name     string `json:"name"`
	Line     hsLine `json:"line"`
	Cfg      hsCfg  `json:"cfg"`
	Variant  int    `json:"variant"`
	TLSPools int    `json:"tls_pools"` // which pools a caller-supplied TLS configuration has (0 both, 1 roots only, 2 client CAs only, 3 none)
	Offers   string `json:"offers"`
	// Long = 1: the fourth field is padded with spaces so that the first 64 KiB of the line are a line of their own
	// (four fields); the rest of the line follows. LogBuf > 0: PluginLogBufferSize, with a Unix address longer than it.
	// Real: the plugin is a real child process launched with Cmd (the stock command runner and its address
	// translation are in the path), printing the line and then sleeping
	Real   bool   `json:"real,omitempty"`
	Long   int    `json:"long,omitempty"`
	LogBuf int    `json:"log_buf,omitempty"`
	Raw    string `json:"raw,omitempty"` // set by the driver: the concrete line
}

var (
	certOnce   sync.Once
	validCert  string
	staticTLS  *tls.Config
	badDERCert = base64.RawStdEncoding.EncodeToString(make([]byte, 60))
)

func selfSigned() (tls.Certificate, []byte) {
	key, _ := ecdsa.GenerateKey(elliptic.P256(), rand.Reader)
	tmpl := &x509.Certificate{SerialNumber: big.NewInt(7), Subject: pkix.Name{CommonName: "localhost"},
		DNSNames: []string{"localhost"}, NotBefore: time.Now().Add(-time.Hour), NotAfter: time.Now().Add(24 * time.Hour),
		KeyUsage: x509.KeyUsageDigitalSignature | x509.KeyUsageCertSign, IsCA: true, BasicConstraintsValid: true,
		ExtKeyUsage: []x509.ExtKeyUsage{x509.ExtKeyUsageClientAuth, x509.ExtKeyUsageServerAuth}}
	der, _ := x509.CreateCertificate(rand.Reader, tmpl, tmpl, key.Public(), key)
	return tls.Certificate{Certificate: [][]byte{der}, PrivateKey: key}, der
}

func initCerts() {
	certOnce.Do(func() {
		_, der := selfSigned()
		validCert = base64.RawStdEncoding.EncodeToString(der)
		c, _ := selfSigned()
		staticTLS = &tls.Config{Certificates: []tls.Certificate{c}, ServerName: "localhost", MinVersion: tls.VersionTLS12}
	})
}

func pick(v int, opts ...string) string { return opts[((v%len(opts))+len(opts))%len(opts)] }

// concretize returns the concrete line bytes, the address text and the version the line carries.
func concretize(c hsCase) (raw string, addrText string, version int, offered []int) {
	initCerts()
	l, v := c.Line, c.Variant
	if c.Offers == "versioned" {
		offered = []int{2, 3}
	} else {
		offered = []int{1}
	}
	var core, ver, netw, addr, proto, cert, mux string
	switch l.Core {
	case "one":
		core = pick(v, "1", "+1", "01", "1", "001")
	case "otherInt":
		core = pick(v, "0", "2", "-1", "10", "11")
	case "nonInt":
		core = pick(v, "1.0", "one", "0x1", "1 ", "1a", "18446744073709551616")
	}
	switch l.Ver {
	case "offered":
		n := offered[(v/2)%len(offered)]
		version = n
		ver = pick(v, strconv.Itoa(n), "+"+strconv.Itoa(n), "0"+strconv.Itoa(n))
	case "unoffered":
		ver = pick(v, "7", "0", "-1", "99999", "4")
	case "nonInt":
		ver = pick(v, "x", "2.0", "1 ", "0x2", "9223372036854775808")
	}
	switch l.Net {
	case "tcp":
		netw = "tcp"
		if l.Addr == "ok" {
			addr = pick(v, "127.0.0.1:1", "[::1]:1", ":1", "127.0.0.1:65535")
		} else {
			addr = pick(v, "notanaddr:xyz", "127.0.0.1", "127.0.0.1:99999999", "::::", "[::1")
		}
	case "unix":
		netw = "unix"
		addr = pick(v, "/nonexistent/verif.sock", "relative/sock", "/tmp/x y", "")
	case "other":
		netw = pick(v, "udp", "TCP", "tcp4", "unixgram", " tcp", "tcp ")
		addr = "127.0.0.1:1"
	case "empty":
		netw = ""
		addr = "127.0.0.1:1"
	}
	switch l.Proto {
	case "netrpc", "grpc":
		proto = l.Proto
	case "other":
		proto = pick(v, "GRPC", "http", "net/rpc", "grpc2")
	}
	switch l.Cert {
	case "short":
		cert = pick(v, "extra", strings.Repeat("x", 50), "e30", strings.Repeat("A", 49))
	case "valid":
		cert = validCert
	case "badB64":
		cert = pick(v, strings.Repeat("!", 60), strings.Repeat("%", 51), validCert[:60]+"*"+validCert[60:])
	case "badDER":
		cert = pick(v, badDERCert, validCert[:len(validCert)-8], base64.RawStdEncoding.EncodeToString([]byte(strings.Repeat("not a certificate ", 4))))
	}
	switch l.Mux {
	case "true":
		mux = pick(v, "true", "1", "t", "TRUE", "True")
	case "false":
		mux = pick(v, "false", "0", "F", "False")
	case "garbage":
		mux = pick(v, "yes", "2", "tru", "y", "on")
	}
	if c.LogBuf > 0 && netw == "unix" {
		addr = "/nonexistent/" + strings.Repeat("d", 90) + "/verif.sock"
	}
	if c.Long == 1 && l.N >= 5 && l.Ws == "none" {
		head := len(core) + len(ver) + len(netw) + len(addr) + 3
		if head < 65536 {
			addr += strings.Repeat(" ", 65536-head)
		}
	}
	parts := []string{core, ver, netw, addr, proto, cert, mux, "extra8"}[:l.N]
	raw = strings.Join(parts, "|")
	switch l.Ws {
	case "none":
		raw += "\n"
	case "crlf":
		raw += "\r\n"
	case "padded":
		raw = pick(v, "  ", "\t", " \t ") + raw + pick(v, " \n", "\t\r\n", "   \n")
	}
	return raw, addr, version, offered
}

// shortRaw keeps the observation readable for lines padded to 64 KiB
func shortRaw(s string) string {
	if len(s) > 400 {
		return s[:200] + fmt.Sprintf("...(%d bytes)...", len(s)-400) + s[len(s)-200:]
	}
	return s
}

type nopPlugin struct{ plugin.NetRPCUnsupportedPlugin }

func hsClientConfig(c hsCase, sr *ScriptedRunner, tmp string) *plugin.ClientConfig {
	initCerts()
	cfg := &plugin.ClientConfig{
		HandshakeConfig:  plugin.HandshakeConfig{MagicCookieKey: "VERIF_COOKIE", MagicCookieValue: "yes"},
		RunnerFunc:       sr.RunnerFunc(),
		StartTimeout:     3 * time.Second,
		Logger:           hclog.NewNullLogger(),
		UnixSocketConfig: &plugin.UnixSocketConfig{TempDir: tmp},
		SkipHostEnv:      true,
	}
	if c.LogBuf > 0 {
		cfg.PluginLogBufferSize = c.LogBuf
	}
	set := plugin.PluginSet{"p": &nopPlugin{}}
	if c.Offers == "versioned" {
		cfg.VersionedPlugins = map[int]plugin.PluginSet{2: set, 3: set}
	} else {
		cfg.ProtocolVersion = 1
		cfg.Plugins = set
	}
	switch c.Cfg.Allowed {
	case "netrpc":
		cfg.AllowedProtocols = []plugin.Protocol{plugin.ProtocolNetRPC}
	case "grpc":
		cfg.AllowedProtocols = []plugin.Protocol{plugin.ProtocolGRPC}
	case "both":
		cfg.AllowedProtocols = []plugin.Protocol{plugin.ProtocolNetRPC, plugin.ProtocolGRPC}
	case "emptylist":
		cfg.AllowedProtocols = []plugin.Protocol{}
	}
	switch c.Cfg.TLS {
	case "static":
		// a TLS configuration of the caller's own: complete, with only one of the two pools, or with none
		t := staticTLS.Clone()
		own := func() *x509.CertPool {
			p := x509.NewCertPool()
			if leaf, err := x509.ParseCertificate(t.Certificates[0].Certificate[0]); err == nil {
				p.AddCert(leaf)
			}
			return p
		}
		switch c.TLSPools % 4 {
		case 0:
			t.RootCAs, t.ClientCAs = own(), own()
		case 1:
			t.RootCAs = own()
		case 2:
			t.ClientCAs = own()
		}
		cfg.TLSConfig = t
	case "auto":
		cfg.AutoMTLS = true
	}
	cfg.GRPCBrokerMultiplex = c.Cfg.MuxReq
	return cfg
}

type hsOut struct {
	Ok             bool   `json:"ok"`
	Proto          string `json:"proto"`
	Net            string `json:"net"`
	AddrNonNil     bool   `json:"addr_nonnil"`
	AddrMatches    bool   `json:"addr_matches"`
	VersionMatches bool   `json:"version_matches"`
	Killed         bool   `json:"killed"`
	Panic          bool   `json:"panic"`
	PanicMsg       string `json:"panic_msg,omitempty"`
	Err            string `json:"err,omitempty"`
	Ms             int64  `json:"ms"`
	LimitMs        int64  `json:"limit_ms"`
	Launches       int32  `json:"launches"`
	AgainOk        bool   `json:"again_ok"`
	Hung           bool   `json:"hung"`
}

func runHandshakeCase(c hsCase, tmp string) (hsCase, hsOut) {
	raw, addrText, version, _ := concretize(c)
	c.Raw = raw
	sr := NewScriptedRunner(func(r *ScriptedRunner) {
		r.StdoutW().Write([]byte(raw))
		if c.Variant%2 == 1 {
			// the plugin keeps writing to its stdout after the first line, whatever the host made of it
			go func() {
				for i := 0; i < 3; i++ {
					if _, err := r.StdoutW().Write([]byte("more plugin output on stdout\n")); err != nil {
						return
					}
				}
			}()
		}
		<-r.Gone()
	})
	ccfg := hsClientConfig(c, sr, tmp)
	var realCmd *exec.Cmd
	if c.Real {
		realCmd = exec.Command("/bin/sh", "-c", `printf '%s' "$1"; exec sleep 30`, "sh", raw)
		ccfg.RunnerFunc = nil
		ccfg.Cmd = realCmd
	}
	cl := plugin.NewClient(ccfg)
	var out hsOut
	out.LimitMs = 3000 + 1500
	var addr net.Addr
	var err error
	t0 := time.Now()
	startDone := make(chan struct{})
	go func() {
		defer close(startDone)
		defer func() {
			if r := recover(); r != nil {
				out.Panic = true
				out.PanicMsg = fmt.Sprint(r)
			}
		}()
		addr, err = cl.Start()
	}()
	select {
	case <-startDone:
		out.Ms = time.Since(t0).Milliseconds()
	case <-time.After(time.Duration(out.LimitMs+2000) * time.Millisecond):
		// Start is still blocked well past the start timeout: record that, then make the
		// scripted plugin go away so that the call can return and be cleaned up.
		out.Ms = time.Since(t0).Milliseconds()
		out.Hung = true
		sr.Exit()
		select {
		case <-startDone:
		case <-time.After(5 * time.Second):
			out.Err = "Start never returned"
			return c, out
		}
	}
	out.Killed = sr.Kills.Load() > 0
	if c.Real && realCmd.Process != nil && err != nil {
		for i := 0; i < 200 && !vp.PidGone(realCmd.Process.Pid); i++ {
			time.Sleep(10 * time.Millisecond)
		}
		out.Killed = vp.PidGone(realCmd.Process.Pid)
	}
	out.Ok = err == nil && !out.Panic && !out.Hung
	if err != nil {
		out.Err = err.Error()
		if len(out.Err) > 200 {
			out.Err = out.Err[:200]
		}
	}
	if out.Ok {
		out.AddrNonNil = addr != nil && !(reflect.ValueOf(addr).Kind() == reflect.Ptr && reflect.ValueOf(addr).IsNil())
		if out.AddrNonNil {
			out.Net = addr.Network()
			var want net.Addr
			switch c.Line.Net {
			case "tcp":
				want, _ = net.ResolveTCPAddr("tcp", addrText)
			case "unix":
				want, _ = net.ResolveUnixAddr("unix", addrText)
			}
			out.AddrMatches = want != nil && want.String() == addr.String() && want.Network() == addr.Network()
		}
		out.Proto = string(cl.Protocol())
		out.VersionMatches = cl.NegotiatedVersion() == version
	} else {
		out.Proto, out.Net = "-", "-"
	}
	if !out.Ok && !out.Hung && !out.Panic {
		// the same client asked again: the line it rejected must stay rejected
		func() {
			defer func() { recover() }()
			done := make(chan error, 1)
			go func() { _, e := cl.Start(); done <- e }()
			select {
			case e := <-done:
				out.AgainOk = e == nil
			case <-time.After(5 * time.Second):
			}
		}()
	}
	// the scripted plugin goes away first, so that Kill does not sit out its grace period
	sr.Exit()
	killDone := make(chan struct{})
	go func() {
		defer close(killDone)
		defer func() { recover() }()
		cl.Kill()
	}()
	select {
	case <-killDone:
	case <-time.After(10 * time.Second):
		// Kill after the start (failed or not) never returned
		out.Hung = true
		out.Ok = false
		out.Ms = out.LimitMs + 10000
		out.Err = "Kill after Start did not return within 10 s"
	}
	out.Launches = sr.Starts.Load()
	return c, out
}

func TestHandshakeCases(t *testing.T) {
	in, outp := os.Getenv("VERIF_IN"), os.Getenv("VERIF_OUT")
	if in == "" || outp == "" {
		t.Skip("VERIF_IN / VERIF_OUT not set")
	}
	var cases []hsCase
	readCases(in, func(raw json.RawMessage) {
		var c hsCase
		if err := json.Unmarshal(raw, &c); err != nil {
			fmt.Fprintf(os.Stderr, "DRIVER-ERROR: bad case: %v\n", err)
			os.Exit(2)
		}
		cases = append(cases, c)
	})
	tmp := filepath.Join(filepath.Dir(outp), "tmp")
	os.MkdirAll(tmp, 0o755)
	ow := newObsWriter(outp)
	defer ow.close()
	cw := newCaseWatch(ow, 40*time.Second)
	workers := runtime.GOMAXPROCS(0)
	if w, err := strconv.Atoi(os.Getenv("VERIF_WORKERS")); err == nil && w > 0 {
		workers = w
	}
	ch := make(chan hsCase)
	var wg sync.WaitGroup
	for i := 0; i < workers; i++ {
		wg.Add(1)
		go func() {
			defer wg.Done()
			for c := range ch {
				if workers == 1 {
					fmt.Printf("SCENARIO %s\n", c.Name)
				}
				cw.begin(c.Name)
				cc, o := runHandshakeCase(c, tmp)
				cw.end(c.Name)
				ow.write(map[string]interface{}{"name": cc.Name, "line": cc.Line, "cfg": cc.Cfg, "variant": cc.Variant,
					"offers": cc.Offers, "raw": shortRaw(cc.Raw), "long": cc.Long, "log_buf": cc.LogBuf, "out": o})
			}
		}()
	}
	for _, c := range cases {
		ch <- c
	}
	close(ch)
	wg.Wait()
}
