package drivers

// Driver for C12: with AutoMTLS every plugin connection is mutually authenticated. An intruder
// (this driver, without access to either key) connects to every socket of a real pair with each
// credential class; an impostor plugin announces one certificate and serves with another.

import (
	"bufio"
	"context"
	"crypto/ecdsa"
	"crypto/elliptic"
	"crypto/rand"
	"crypto/tls"
	"crypto/x509"
	"crypto/x509/pkix"
	"encoding/json"
	"fmt"
	plugin "github.com/hashicorp/go-plugin"
	"math/big"
	"net"
	"net/rpc"
	"os"
	"os/exec"
	"path/filepath"
	"strconv"
	"strings"
	"testing"
	"time"

	"github.com/hashicorp/go-plugin/verifharness/vp"
	"github.com/hashicorp/yamux"
	"google.golang.org/grpc"
	"google.golang.org/grpc/credentials"
	"google.golang.org/grpc/credentials/insecure"
	"google.golang.org/grpc/health/grpc_health_v1"
	"google.golang.org/protobuf/types/known/wrapperspb"
)

type mtCase struct {
	Name     string `json:"name"`
	Kind     string `json:"kind"`               // intrude, impostor
	Impostor string `json:"impostor,omitempty"` // othercert (default), nocert
	Proto    string `json:"proto"`
	// TCP: the impostor announces a TCP address (connections are passed on to the socket it really serves on)
	TCP bool `json:"tcp,omitempty"`
	// Upgrade: the plugin serves version 1 over net/rpc and version 2 over gRPC (a gRPC server is configured); the
	// host only speaks version 1, so the connection is net/rpc
	Upgrade bool `json:"upgrade,omitempty"`
}

type mtAttempt struct {
	Listener string `json:"listener"`
	Cred     string `json:"cred"`
	Served   bool   `json:"served"`
	Err      string `json:"err,omitempty"`
}

func intruderCert(sameName bool) tls.Certificate {
	key, _ := ecdsa.GenerateKey(elliptic.P521(), rand.Reader)
	sn, _ := rand.Int(rand.Reader, new(big.Int).Lsh(big.NewInt(1), 128))
	name := pkix.Name{CommonName: "intruder", Organization: []string{"Evil"}}
	dns := []string{"intruder"}
	if sameName {
		name = pkix.Name{CommonName: "localhost", Organization: []string{"HashiCorp"}}
		dns = []string{"localhost"}
	}
	tmpl := &x509.Certificate{Subject: name, DNSNames: dns, SerialNumber: sn, NotBefore: time.Now().Add(-30 * time.Second), NotAfter: time.Now().Add(24 * time.Hour),
		ExtKeyUsage: []x509.ExtKeyUsage{x509.ExtKeyUsageClientAuth, x509.ExtKeyUsageServerAuth},
		KeyUsage:    x509.KeyUsageDigitalSignature | x509.KeyUsageKeyEncipherment | x509.KeyUsageKeyAgreement | x509.KeyUsageCertSign, BasicConstraintsValid: true, IsCA: true}
	der, _ := x509.CreateCertificate(rand.Reader, tmpl, tmpl, key.Public(), key)
	return tls.Certificate{Certificate: [][]byte{der}, PrivateKey: key}
}

func intruderTLS(cred string) *tls.Config {
	cfg := &tls.Config{InsecureSkipVerify: true, ServerName: "localhost", MinVersion: tls.VersionTLS12}
	switch cred {
	case "tls_selfsigned":
		cfg.Certificates = []tls.Certificate{intruderCert(false)}
	case "tls_samename_otherkey":
		cfg.Certificates = []tls.Certificate{intruderCert(true)}
	}
	return cfg
}

// attempt one request against a socket; served = got an answer
func intrude(path, proto, listener, cred string) mtAttempt {
	a := mtAttempt{Listener: listener, Cred: cred}
	if proto == "netrpc" {
		conn, err := net.DialTimeout("unix", path, 2*time.Second)
		if err != nil {
			a.Err = err.Error()
			return a
		}
		defer conn.Close()
		conn.SetDeadline(time.Now().Add(3 * time.Second))
		var c net.Conn = conn
		if cred != "plaintext" {
			c = tls.Client(conn, intruderTLS(cred))
		}
		ycfg := yamux.DefaultConfig()
		ycfg.LogOutput = nopWriter{}
		ycfg.EnableKeepAlive = false
		sess, err := yamux.Client(c, ycfg)
		if err != nil {
			a.Err = err.Error()
			return a
		}
		defer sess.Close()
		st, err := sess.Open()
		if err != nil {
			a.Err = err.Error()
			return a
		}
		cl := rpc.NewClient(st)
		var empty struct{}
		call := cl.Go("Control.Ping", true, &empty, make(chan *rpc.Call, 1))
		select {
		case <-call.Done:
			a.Served = call.Error == nil
			if call.Error != nil {
				a.Err = call.Error.Error()
			}
		case <-time.After(2 * time.Second):
			a.Err = "no answer"
		}
		return a
	}
	var opt grpc.DialOption
	if cred == "plaintext" {
		opt = grpc.WithTransportCredentials(insecure.NewCredentials())
	} else {
		opt = grpc.WithTransportCredentials(credentials.NewTLS(intruderTLS(cred)))
	}
	cc, err := grpc.Dial("unused", opt, grpc.WithContextDialer(func(ctx context.Context, _ string) (net.Conn, error) {
		return (&net.Dialer{}).DialContext(ctx, "unix", path)
	}))
	if err != nil {
		a.Err = err.Error()
		return a
	}
	defer cc.Close()
	ctx, cancel := context.WithTimeout(context.Background(), 2*time.Second)
	defer cancel()
	if listener == "main" {
		_, err = grpc_health_v1.NewHealthClient(cc).Check(ctx, &grpc_health_v1.HealthCheckRequest{Service: "plugin"})
	} else {
		err = cc.Invoke(ctx, "/verif.Who/Who", wrapperspb.String(""), new(wrapperspb.StringValue))
	}
	a.Served = err == nil
	if err != nil {
		a.Err = truncate(err.Error(), 120)
	}
	return a
}

type nopWriter struct{}

func (nopWriter) Write(p []byte) (int, error) { return len(p), nil }

func newSockets(dir string, before map[string]bool) []string {
	var out []string
	es, _ := os.ReadDir(dir)
	for _, e := range es {
		p := filepath.Join(dir, e.Name())
		if !before[p] {
			if fi, err := os.Stat(p); err == nil && fi.Mode()&os.ModeSocket != 0 {
				out = append(out, p)
			}
		}
	}
	return out
}

func snapshot(dir string) map[string]bool {
	m := map[string]bool{}
	es, _ := os.ReadDir(dir)
	for _, e := range es {
		m[filepath.Join(dir, e.Name())] = true
	}
	return m
}

var intruderCreds = []string{"plaintext", "tls_nocert", "tls_selfsigned", "tls_samename_otherkey"}

// runMangledCase: the plugin alone, told to do mutual TLS (PLUGIN_CLIENT_CERT set) but with a host
// certificate that reached it damaged. Whatever it makes of that, nobody without the launching host's
// key may be served.
func runMangledCase(c mtCase, bin, tmp string) map[string]interface{} {
	out := map[string]interface{}{"setup_ok": false, "legit_ok_before": true, "legit_ok_after": true, "first_use_ok": false}
	wire, _ := protoSets(c.Proto)
	pc := &vp.PluginCfg{LegacyVersion: 1, Legacy: &vp.SetCfg{Proto: wire, Tag: "1"}, GRPCServer: wire == "grpc", CookieKey: vp.CookieKey, CookieValue: vp.CookieValue}
	pcb, _ := json.Marshal(pc)
	hostPEM, _, _ := vp.StaticTLS()
	damaged := map[string]string{"firstline": strings.SplitN(hostPEM, "\n", 2)[0], "truncated": hostPEM[:len(hostPEM)/2], "garbage": "not a certificate"}[c.Impostor]
	cmd := exec.Command(bin)
	cmd.Env = []string{vp.CfgEnv + "=" + string(pcb), vp.CookieKey + "=" + vp.CookieValue, "PLUGIN_CLIENT_CERT=" + damaged,
		"PLUGIN_UNIX_SOCKET_DIR=" + tmp, "TMPDIR=" + tmp, "PLUGIN_PROTOCOL_VERSIONS=1"}
	stdout, _ := cmd.StdoutPipe()
	if err := cmd.Start(); err != nil {
		out["err"] = err.Error()
		return out
	}
	defer func() { cmd.Process.Kill(); cmd.Wait() }()
	lineCh := make(chan string, 1)
	go func() { l, _ := bufio.NewReader(stdout).ReadString('\n'); lineCh <- l }()
	var line string
	select {
	case line = <-lineCh:
	case <-time.After(5 * time.Second):
	}
	parts := strings.Split(strings.TrimSpace(line), "|")
	if len(parts) < 5 {
		// it refused to serve at all: nothing to attack, which is fine
		out["setup_ok"] = true
		out["attempts"] = []mtAttempt{}
		out["refused_to_serve"] = true
		return out
	}
	out["setup_ok"] = true
	var attempts []mtAttempt
	for _, cred := range intruderCreds {
		attempts = append(attempts, intrude(parts[3], wire, "main", cred))
	}
	out["attempts"] = attempts
	return out
}

func runMTLSCase(c mtCase, bin, tmp string) map[string]interface{} {
	if c.Kind == "mangled" {
		return runMangledCase(c, bin, tmp)
	}
	out := map[string]interface{}{"setup_ok": false, "legit_ok_before": false, "legit_ok_after": false, "first_use_ok": false}
	wire, mux := protoSets(c.Proto)
	pc := &vp.PluginCfg{LegacyVersion: 1, Legacy: &vp.SetCfg{Proto: wire, Tag: "1"}, GRPCServer: wire == "grpc"}
	hc := &vp.HostCfg{LegacyVersion: 1, Legacy: &vp.SetCfg{Proto: "grpc", Tag: "1"}, Allowed: []string{"netrpc", "grpc"}, Mux: mux, TLS: "auto"}
	if c.Upgrade {
		pc = &vp.PluginCfg{Versioned: map[int]vp.SetCfg{1: {Proto: "netrpc", Tag: "1"}, 2: {Proto: "grpc", Tag: "2"}}, GRPCServer: true}
		hc = &vp.HostCfg{Versioned: map[int]vp.SetCfg{1: {Proto: "netrpc", Tag: "1"}}, Allowed: []string{"netrpc", "grpc"}, TLS: "auto"}
	}
	var extra []string
	if c.Kind == "impostor" {
		mode := "1" // announces one certificate, serves with another
		if c.Impostor == "nocert" {
			mode = "nocert" // announces no certificate, serves in plaintext
		}
		if c.Impostor == "chain" {
			mode = "chain" // announces X, serves with its own key pair Y and appends X to the chain it presents
		}
		if c.Impostor == "replay" {
			// the same ClientConfig value is used for two launches: the first plugin is honest (announces and
			// serves A); the second announces a fresh certificate but serves A again
			mode = "replay"
			extra = append(extra, "VPLUGIN_IMPOSTOR_STATE="+filepath.Join(tmp, c.Name+".state"))
		}
		extra = append(extra, "VPLUGIN_IMPOSTOR="+mode)
		if c.TCP {
			extra = append(extra, "VPLUGIN_IMPOSTOR_TCP=1")
		}
	}
	p := vp.NewPair(bin, hc, pc, extra, nil)
	if c.Kind == "impostor" && c.Impostor == "replay" {
		os.Remove(filepath.Join(tmp, c.Name+".state"))
		stub0, cp0, err0 := p.Dispense()
		firstOK := err0 == nil && cp0.Ping() == nil
		if firstOK {
			_, e := stub0.Do(vp.Cmd{Op: "tag"})
			firstOK = e == nil
		}
		out["first_launch_ok"] = firstOK
		p.Client.Kill()
		// the second launch: the config value of the first, a fresh command with the same environment
		p2 := vp.NewPair(bin, hc, pc, extra, nil)
		p.Config.Cmd = p2.Cmd
		p.Cmd = p2.Cmd
		p.Client = plugin.NewClient(p.Config)
	}
	defer func() { p.Client.Kill() }()
	addr, err := p.Client.Start()
	if err != nil {
		out["err"] = err.Error()
		return out
	}
	out["setup_ok"] = true
	stub, cp, err := p.Dispense()
	first := err == nil
	if first {
		first = cp.Ping() == nil
	}
	if first && stub != nil {
		_, e := stub.Do(vp.Cmd{Op: "tag"})
		first = e == nil
	}
	out["first_use_ok"] = first
	if c.Kind == "impostor" {
		return out
	}
	out["legit_ok_before"] = first
	if !first {
		return out
	}
	var attempts []mtAttempt
	attempts = append(attempts, mtAttempt{Listener: "main", Cred: "peer_keypair", Served: first})
	for _, cred := range intruderCreds {
		attempts = append(attempts, intrude(addr.String(), c.Proto, "main", cred))
	}
	if c.Proto == "grpc" || c.Proto == "grpcmux" {
		// a listener the plugin opens for a brokered id, and one the host opens. Without multiplexing
		// each is a socket file of its own (found as the new socket under TMPDIR) that the intruder
		// attacks; with multiplexing the stream travels inside the main socket. In both cases the
		// legitimate brokered connection must itself be mutually authenticated.
		before := snapshot(tmp)
		stub.Do(vp.Cmd{Op: "serve", ID: 501, S: "501"})
		var socks []string
		if c.Proto == "grpc" {
			for i := 0; i < 200 && len(socks) == 0; i++ {
				time.Sleep(10 * time.Millisecond)
				socks = newSockets(tmp, before)
			}
		}
		tag, err := stub.Broker.DialWho(501)
		attempts = append(attempts, mtAttempt{Listener: "plugin_brokered", Cred: "peer_keypair", Served: err == nil && tag == "501" && vp.SecOf(501) == "tls",
			Err: fmt.Sprintf("err=%v tag=%s peer-auth=%s", err, tag, vp.SecOf(501))})
		for _, s := range socks {
			for _, cred := range intruderCreds {
				attempts = append(attempts, intrude(s, "grpc", "plugin_brokered", cred))
			}
		}
		nfound := len(socks)
		before = snapshot(tmp)
		stub.Broker.ServeWho(502, "502")
		socks = nil
		if c.Proto == "grpc" {
			for i := 0; i < 200 && len(socks) == 0; i++ {
				time.Sleep(10 * time.Millisecond)
				socks = newSockets(tmp, before)
			}
		} else {
			time.Sleep(50 * time.Millisecond)
		}
		r, err := stub.Do(vp.Cmd{Op: "dial", ID: 502})
		sec := ""
		if len(r.L) > 0 {
			sec = r.L[0]
		}
		attempts = append(attempts, mtAttempt{Listener: "host_brokered", Cred: "peer_keypair", Served: err == nil && r.S == "502" && sec == "tls",
			Err: fmt.Sprintf("err=%v tag=%s peer-auth=%s", err, r.S, sec)})
		for _, s := range socks {
			for _, cred := range intruderCreds {
				attempts = append(attempts, intrude(s, "grpc", "host_brokered", cred))
			}
		}
		out["brokered_sockets_found"] = nfound + len(socks)
	}
	out["attempts"] = attempts
	after := cp.Ping() == nil
	if after {
		r, e := stub.Do(vp.Cmd{Op: "tag"})
		after = e == nil && r.S == "1"
	}
	out["legit_ok_after"] = after
	return out
}

func TestMTLSCases(t *testing.T) {
	in, outp, bin := os.Getenv("VERIF_IN"), os.Getenv("VERIF_OUT"), os.Getenv("VERIF_VPLUGIN")
	if in == "" || outp == "" || bin == "" {
		t.Skip("VERIF_IN / VERIF_OUT / VERIF_VPLUGIN not set")
	}
	// sockets of both sides are created under TMPDIR: a private one per driver process, cases one at a time
	tmp := filepath.Join(filepath.Dir(outp), "mt"+strconv.Itoa(os.Getpid()))
	os.MkdirAll(tmp, 0o755)
	os.Setenv("TMPDIR", tmp)
	ow := newObsWriter(outp)
	defer ow.close()
	cw := newCaseWatch(ow, 120*time.Second)
	readCases(in, func(raw json.RawMessage) {
		var c mtCase
		if err := json.Unmarshal(raw, &c); err != nil {
			fmt.Fprintf(os.Stderr, "DRIVER-ERROR: bad case: %v\n", err)
			os.Exit(2)
		}
		fmt.Printf("SCENARIO %s\n", c.Name)
		cw.begin(c.Name)
		o := runMTLSCase(c, bin, tmp)
		cw.end(c.Name)
		imp := c.Impostor
		if imp == "" {
			imp = "othercert"
		}
		ow.write(map[string]interface{}{"name": c.Name, "kind": c.Kind, "impostor": imp, "proto": c.Proto, "out": o})
	})
}
