package drivers

// Driver for C16: the plugin binary started directly (no Client), with every class of magic
// cookie environment and serve configuration.

import (
	"bufio"
	"bytes"
	"encoding/json"
	"fmt"
	"io"
	"net"
	"os"
	"os/exec"
	"path/filepath"
	"runtime"
	"strconv"
	"strings"
	"sync"
	"testing"
	"time"

	"github.com/hashicorp/go-plugin/verifharness/vp"
)

type svCase struct {
	Name        string      `json:"name"`
	CookieCfg   string      `json:"cookie_cfg"`
	CookieEnv   string      `json:"cookie_env"`
	MuxVar      string      `json:"mux_var"`
	TLS         string      `json:"tls"` // none, static, auto
	Served      []verServed `json:"served"`
	GRPCFactory bool        `json:"grpc_factory"`
	Offered     []int       `json:"offered"`
	// OfferedJunk: entries that are not numbers, mixed into PLUGIN_PROTOCOL_VERSIONS (they are to be
	// ignored -- and complained about on stderr only)
	OfferedJunk []string `json:"offered_junk,omitempty"`
	// EarlyConnect: a connection is made to the socket the moment it exists -- before the line is printed
	// (the plugin pauses just before printing) -- and kept; the announced address must still accept afterwards
	EarlyConnect bool `json:"early_connect,omitempty"`
	// Prints: the plugin writes to its own stdout / stderr right after it started serving
	Prints bool `json:"prints,omitempty"`
}

var staticOnce sync.Once
var stCert, stKey string

func runServeCase(c svCase, bin, tmp string) map[string]interface{} {
	staticOnce.Do(func() { stCert, stKey, _ = vp.StaticTLS() })
	out := map[string]interface{}{}
	key, val := vp.CookieKey, vp.CookieValue
	pc := &vp.PluginCfg{CookieKey: key, CookieValue: val, GRPCServer: c.GRPCFactory, Versioned: map[int]vp.SetCfg{}}
	switch c.CookieCfg {
	case "emptykey":
		pc.CookieKey = ""
	case "blankvalue":
		// a configured value that is blank but not empty: only that very value is the right cookie
		val = " "
		pc.CookieValue = val
	case "emptyvalue":
		pc.CookieValue = ""
	}
	for _, s := range c.Served {
		pc.Versioned[s.V] = vp.SetCfg{Proto: s.Proto, Tag: strconv.Itoa(s.V)}
	}
	if c.TLS == "static" {
		pc.TLS, pc.CertPEM, pc.KeyPEM = "static", stCert, stKey
	}
	if c.EarlyConnect {
		pc.HoldEvent, pc.HoldMs = "serve.line.printing", 120
	}
	if c.Prints {
		// the plugin's own code prints to its (by then redirected) stdout and stderr as soon as it serves:
		// none of that may show up on the real stdout
		pc.StdioScript = []vp.StdioWrite{{Stream: "out", N: 300, Seed: 7}, {Stream: "err", N: 200, Seed: 8}, {Stream: "out", N: 5000, Seed: 9}}
	}
	// (directory names with characters a careless formatter would interpret)
	sockDir := filepath.Join(tmp, c.Name+[]string{".sock", ".so%20ck", ".100%sure", ".s%v", ".sock"}[len(c.Name)%5])
	os.MkdirAll(sockDir, 0o755)
	evlog := filepath.Join(tmp, c.Name+".events")
	pc.EventLog = evlog
	pcb, _ := json.Marshal(pc)
	cmd := exec.Command(bin)
	env := []string{vp.CfgEnv + "=" + string(pcb), "PLUGIN_UNIX_SOCKET_DIR=" + sockDir, "PLUGIN_MIN_PORT=10000", "PLUGIN_MAX_PORT=25000"}
	switch c.CookieEnv {
	case "empty":
		env = append(env, key+"=")
	case "prefix":
		env = append(env, key+"="+val[:len(val)-1])
	case "suffix":
		env = append(env, key+"="+val+"x")
	case "case":
		env = append(env, key+"="+strings.ToUpper(val))
	case "spaced":
		// the right value with whitespace around it is not the right value
		if val == " " {
			env = append(env, key+"=\t")
		} else {
			env = append(env, key+"="+[]string{val + " ", " " + val, val + "\n", val + "\r\n", "\t" + val}[len(c.Name)%5])
		}
	case "other":
		env = append(env, key+"=something-else")
	case "exact":
		env = append(env, key+"="+val)
	}
	switch c.MuxVar {
	case "empty":
		env = append(env, "PLUGIN_MULTIPLEX_GRPC=")
	case "true":
		env = append(env, "PLUGIN_MULTIPLEX_GRPC=true")
	case "false":
		env = append(env, "PLUGIN_MULTIPLEX_GRPC=false")
	case "one":
		env = append(env, "PLUGIN_MULTIPLEX_GRPC=1")
	case "garbage":
		env = append(env, "PLUGIN_MULTIPLEX_GRPC=maybe")
	}
	if c.TLS == "auto" {
		env = append(env, "PLUGIN_CLIENT_CERT="+stCert)
	}
	if len(c.Offered) > 0 {
		var vs []string
		for _, v := range c.Offered {
			vs = append(vs, strconv.Itoa(v))
		}
		for i, j := range c.OfferedJunk {
			if i%2 == 0 {
				vs = append(vs, j)
			} else {
				vs = append([]string{j}, vs...)
			}
		}
		env = append(env, "PLUGIN_PROTOCOL_VERSIONS="+strings.Join(vs, ","))
	}
	cmd.Env = env
	stdout, _ := cmd.StdoutPipe()
	var stderr bytes.Buffer
	cmd.Stderr = &stderr
	if err := cmd.Start(); err != nil {
		out["err"] = err.Error()
		return out
	}
	// watch the socket directory while the process runs
	socketSeen := false
	var early net.Conn
	earlyTried := false
	defer func() {
		if early != nil {
			early.Close()
		}
	}()
	stopWatch := make(chan struct{})
	var watchWG sync.WaitGroup
	watchWG.Add(1)
	go func() {
		defer watchWG.Done()
		for {
			if es, _ := os.ReadDir(sockDir); len(es) > 0 {
				socketSeen = true
				if c.EarlyConnect && early == nil && !earlyTried {
					// somebody connects the moment the socket exists, before the line is out, and stays connected
					earlyTried = true
					early, _ = net.DialTimeout("unix", filepath.Join(sockDir, es[0].Name()), time.Second)
				}
			}
			select {
			case <-stopWatch:
				return
			case <-time.After(500 * time.Microsecond):
			}
		}
	}()
	rd := bufio.NewReader(stdout)
	type lineRes struct {
		line string
		err  error
	}
	lc := make(chan lineRes, 1)
	go func() {
		l, err := rd.ReadString('\n')
		lc <- lineRes{l, err}
	}()
	exited := make(chan struct{})
	var first lineRes
	gotLine := false
	select {
	case first = <-lc:
		gotLine = first.err == nil
	case <-time.After(8 * time.Second):
	}
	out["connect_ok"] = false
	total := len(first.line)
	if gotLine {
		parts := strings.Split(strings.TrimRight(first.line, "\n"), "|")
		out["fields"] = len(parts)
		get := func(i int) string {
			if i < len(parts) {
				return parts[i]
			}
			return ""
		}
		out["core"], _ = strconv.Atoi(get(0))
		out["version"], _ = strconv.Atoi(get(1))
		out["network"] = get(2)
		out["proto"] = get(4)
		out["cert_len"] = len(get(5))
		out["mux_field"] = get(6)
		// the announced address must already accept connections
		if conn, err := net.DialTimeout(get(2), get(3), 2*time.Second); err == nil {
			out["connect_ok"] = true
			conn.Close()
		} else {
			out["connect_err"] = err.Error()
		}
		// anything else on the real stdout?
		extra := make(chan int, 1)
		go func() {
			n, _ := io.Copy(io.Discard, rd)
			extra <- int(n)
		}()
		time.Sleep(150 * time.Millisecond)
		cmd.Process.Kill()
		n := <-extra
		out["extra_stdout_bytes"] = n
		total += n
		out["lines"] = 1
	} else {
		out["fields"], out["core"], out["version"], out["network"], out["proto"], out["cert_len"], out["mux_field"] = 0, 0, -1, "", "", 0, ""
		out["lines"], out["extra_stdout_bytes"] = 0, 0
	}
	go func() { cmd.Wait(); close(exited) }()
	select {
	case <-exited:
	case <-time.After(5 * time.Second):
		cmd.Process.Kill()
		<-exited
	}
	close(stopWatch)
	watchWG.Wait()
	out["exit_code"] = cmd.ProcessState.ExitCode()
	out["stdout_bytes"] = total
	out["socket_seen"] = socketSeen
	var events []string
	if b, err := os.ReadFile(evlog); err == nil {
		for _, l := range strings.Split(string(b), "\n") {
			var e struct {
				Ev string `json:"ev"`
			}
			if json.Unmarshal([]byte(l), &e) == nil && strings.HasPrefix(e.Ev, "serve.") && e.Ev != "serve.done" {
				events = append(events, e.Ev)
			}
		}
	}
	if events == nil {
		events = []string{}
	}
	out["events"] = events
	out["stderr_head"] = truncate(stderr.String(), 120)
	os.RemoveAll(sockDir)
	os.Remove(evlog)
	return out
}

func TestServeCases(t *testing.T) {
	in, outp, bin := os.Getenv("VERIF_IN"), os.Getenv("VERIF_OUT"), os.Getenv("VERIF_VPLUGIN")
	if in == "" || outp == "" || bin == "" {
		t.Skip("VERIF_IN / VERIF_OUT / VERIF_VPLUGIN not set")
	}
	var cases []svCase
	readCases(in, func(raw json.RawMessage) {
		var c svCase
		if err := json.Unmarshal(raw, &c); err != nil {
			fmt.Fprintf(os.Stderr, "DRIVER-ERROR: bad case: %v\n", err)
			os.Exit(2)
		}
		cases = append(cases, c)
	})
	tmp := filepath.Join(filepath.Dir(outp), "svtmp")
	os.MkdirAll(tmp, 0o755)
	ow := newObsWriter(outp)
	defer ow.close()
	cw := newCaseWatch(ow, 40*time.Second)
	workers := runtime.GOMAXPROCS(0)
	if w, err := strconv.Atoi(os.Getenv("VERIF_WORKERS")); err == nil && w > 0 {
		workers = w
	}
	ch := make(chan svCase)
	var wg sync.WaitGroup
	for i := 0; i < workers; i++ {
		wg.Add(1)
		go func() {
			defer wg.Done()
			for c := range ch {
				if workers == 1 {
					fmt.Printf("SCENARIO %s\n", c.Name)
				}
				cw.begin(c.Name)
				o := runServeCase(c, bin, tmp)
				cw.end(c.Name)
				ow.write(map[string]interface{}{"name": c.Name, "cookie_cfg": c.CookieCfg, "cookie_env": c.CookieEnv, "mux_var": c.MuxVar, "tls": c.TLS,
					"served": c.Served, "grpc_factory": c.GRPCFactory, "offered": c.Offered, "out": o})
			}
		}()
	}
	for _, c := range cases {
		ch <- c
	}
	close(ch)
	wg.Wait()
}
