package drivers

// Driver for C19 / C05 (custom-runner side): call sequences generated from TLC's state graph of
// spec/Lifecycle.tla are executed on a real plugin.Client whose "process" is a scripted runner
// (plus, for plan "ok", an in-process RPCServer on a Unix socket). Every call and its observed
// result goes to an NDJSON trace that TLC validates against TraceLifecycle.tla.

import (
	"encoding/json"
	"errors"
	"fmt"
	"net"
	"os"
	"os/exec"
	"path/filepath"
	"runtime"
	"strconv"
	"strings"
	"sync"
	"testing"
	"time"

	hclog "github.com/hashicorp/go-hclog"
	plugin "github.com/hashicorp/go-plugin"
	"github.com/hashicorp/go-plugin/runner"
	"github.com/hashicorp/go-plugin/verifharness/vp"
)

// fakePlugin is an in-process net/rpc plugin server that can "die".
type fakePlugin struct {
	mu    sync.Mutex
	ln    net.Listener
	conns []net.Conn
	path  string
	done  chan struct{}
	sr    *ScriptedRunner
}

func newFakePlugin(dir string, sr *ScriptedRunner) (*fakePlugin, error) {
	f, err := os.CreateTemp(dir, "fp")
	if err != nil {
		return nil, err
	}
	path := f.Name()
	f.Close()
	os.Remove(path)
	ln, err := net.Listen("unix", path)
	if err != nil {
		return nil, err
	}
	fp := &fakePlugin{ln: ln, path: path, done: make(chan struct{}), sr: sr}
	srv := &plugin.RPCServer{Plugins: vp.Set("netrpc", "1"), Stdout: emptyReader{}, Stderr: emptyReader{}, DoneCh: fp.done}
	go func() {
		for {
			c, err := ln.Accept()
			if err != nil {
				return
			}
			fp.mu.Lock()
			fp.conns = append(fp.conns, c)
			fp.mu.Unlock()
			go srv.ServeConn(c)
		}
	}()
	// a quit request makes the "process" exit
	go func() {
		select {
		case <-fp.done:
			fp.die()
		case <-sr.Gone():
			fp.die()
		}
	}()
	return fp, nil
}

type emptyReader struct{}

func (emptyReader) Read([]byte) (int, error) { select {} }

func (fp *fakePlugin) die() {
	fp.mu.Lock()
	fp.ln.Close()
	for _, c := range fp.conns {
		c.Close()
	}
	fp.conns = nil
	fp.mu.Unlock()
	os.Remove(fp.path)
	fp.sr.Exit()
}

type lcCase struct {
	Name        string   `json:"name"`
	Plan        string   `json:"plan"`
	Calls       []string `json:"calls"`
	Concurrent  bool     `json:"concurrent"` // run the calls from two goroutines (alternating assignment)
	LineDelay   int      `json:"line_delay_ms"`
	LineVariant int      `json:"line_variant"` // which rejected line plan "badline" prints
}

func runLifecycleCase(c lcCase, tmp string) []map[string]interface{} {
	var evs []map[string]interface{}
	var evMu sync.Mutex
	var launchCount int32
	var fp *fakePlugin
	var tmpDirs []string
	var srs []*ScriptedRunner
	var mu sync.Mutex
	mkRunner := func() *ScriptedRunner {
		sr := NewScriptedRunner(nil)
		if c.Plan == "startfails" {
			sr.StartErr = errors.New("scripted runner: cannot start")
		}
		sr.Script = func(r *ScriptedRunner) {
			if c.LineDelay > 0 {
				time.Sleep(time.Duration(c.LineDelay) * time.Millisecond)
			}
			switch c.Plan {
			case "ok":
				f, err := newFakePlugin(tmp, r)
				if err != nil {
					r.Exit()
					return
				}
				mu.Lock()
				fp = f
				mu.Unlock()
				fmt.Fprintf(r.StdoutW(), "1|1|unix|%s|netrpc|\n", f.path)
			case "badline":
				// a line the client rejects -- at the field count, or only after the address has been
				// resolved (protocol not allowed / certificate that does not parse)
				switch c.LineVariant % 3 {
				case 0:
					fmt.Fprintf(r.StdoutW(), "1|1|unix\n")
				case 1:
					fmt.Fprintf(r.StdoutW(), "1|1|unix|%s|grpc|\n", filepath.Join(tmp, "nobody-listens.sock"))
				default:
					fmt.Fprintf(r.StdoutW(), "1|1|tcp|127.0.0.1:1|netrpc|%s\n", strings.Repeat("not-a-certificate-", 4))
				}
			case "silent":
			case "partial":
				fmt.Fprintf(r.StdoutW(), "1|1|unix|/nonexistent/half")
			case "closeout":
				r.stdoutW.Close()
			case "exitearly":
				r.Exit()
				return
			}
			<-r.Gone()
		}
		return sr
	}
	warnLog := &vp.SyncBuf{} // what the client complained about (diagnostics attached to Kill events)
	cfg := &plugin.ClientConfig{
		HandshakeConfig:  plugin.HandshakeConfig{ProtocolVersion: 1, MagicCookieKey: "K", MagicCookieValue: "V"},
		Plugins:          vp.Set("grpc", "1"),
		StartTimeout:     10 * time.Second,
		Logger:           hclog.New(&hclog.LoggerOptions{Output: warnLog, Level: hclog.Warn}),
		UnixSocketConfig: &plugin.UnixSocketConfig{TempDir: tmp},
		SkipHostEnv:      true,
	}
	if c.Plan == "silent" || c.Plan == "partial" || c.Plan == "closeout" {
		cfg.StartTimeout = 250 * time.Millisecond
	}
	cfg.RunnerFunc = func(l hclog.Logger, cmd *exec.Cmd, tmpDir string) (runner.Runner, error) {
		mu.Lock()
		launchCount++
		sr := mkRunner()
		sr.TmpDir = tmpDir
		srs = append(srs, sr)
		tmpDirs = append(tmpDirs, tmpDir)
		mu.Unlock()
		return sr, nil
	}
	cl := plugin.NewClient(cfg)

	var firstAddr net.Addr
	var firstClient plugin.ClientProtocol
	var idMu sync.Mutex
	snapshot := func() (int32, int32, bool) {
		mu.Lock()
		defer mu.Unlock()
		var kills int32
		for _, s := range srs {
			kills += s.Kills.Load()
		}
		present := false
		for _, d := range tmpDirs {
			if _, err := os.Stat(d); err == nil {
				present = true
			}
		}
		return launchCount, kills, present
	}
	logEv := func(g int, op, res string, extra map[string]interface{}) {
		l, k, p := snapshot()
		mu.Lock()
		ndirs := len(tmpDirs)
		mu.Unlock()
		m := map[string]interface{}{"ev": "ret", "op": op, "res": res, "g": g, "launches": l, "kills": k, "tmp_present": p, "tmpdirs": ndirs}
		for kk, v := range extra {
			m[kk] = v
		}
		evMu.Lock()
		evs = append(evs, m)
		evMu.Unlock()
	}
	doCall := func(g int, op string) {
		defer func() {
			if r := recover(); r != nil {
				logEv(g, op, "panic", map[string]interface{}{"panic": fmt.Sprint(r)})
			}
		}()
		switch op {
		case "Start":
			a, err := cl.Start()
			res := "err"
			if err == nil {
				idMu.Lock()
				if firstAddr == nil {
					firstAddr = a
				}
				same := firstAddr == a
				idMu.Unlock()
				res = "ok"
				if !same {
					res = "ok-different-address"
				}
			}
			logEv(g, op, res, nil)
		case "Protocol":
			p := cl.Protocol()
			res := string(p)
			if p == plugin.ProtocolInvalid {
				res = "invalid"
			}
			logEv(g, op, res, nil)
		case "ClientCall":
			cp, err := cl.Client()
			res := "err"
			if err == nil {
				idMu.Lock()
				if firstClient == nil {
					firstClient = cp
					res = "ok"
				} else if firstClient == cp {
					res = "ok"
				} else {
					res = "different-client"
				}
				idMu.Unlock()
			}
			logEv(g, op, res, nil)
		case "ReattachConfig":
			rc := cl.ReattachConfig()
			res := "nil"
			if rc != nil {
				res = "cfg"
			}
			logEv(g, op, res, nil)
		case "ID":
			res := "empty"
			if cl.ID() != "" {
				res = "id"
			}
			logEv(g, op, res, nil)
		case "Exited":
			logEv(g, op, strconv.FormatBool(cl.Exited()), nil)
		case "Kill":
			t0 := time.Now()
			cl.Kill()
			mu.Lock()
			f := fp
			mu.Unlock()
			quitSeen := false
			if f != nil {
				select {
				case <-f.done:
					quitSeen = true
				default:
				}
			}
			logEv(g, op, "done", map[string]interface{}{"ms": time.Since(t0).Milliseconds(), "quit_seen": quitSeen, "warn": string(warnLog.Bytes())})
		case "Crash":
			mu.Lock()
			f := fp
			mu.Unlock()
			if f != nil {
				f.die()
			}
			logEv(g, op, "-", nil)
		}
	}
	if !c.Concurrent {
		for _, op := range c.Calls {
			doCall(0, op)
		}
	} else {
		var wg sync.WaitGroup
		for g := 0; g < 2; g++ {
			wg.Add(1)
			go func(g int) {
				defer wg.Done()
				for i, op := range c.Calls {
					if i%2 == g {
						doCall(g, op)
						time.Sleep(time.Duration(20*(g+1)) * time.Millisecond)
					}
				}
			}(g)
		}
		wg.Wait()
	}
	// cleanup (not part of the trace)
	func() {
		defer func() { recover() }()
		mu.Lock()
		for _, s := range srs {
			s.Exit()
		}
		mu.Unlock()
		cl.Kill()
	}()
	l, k, p := snapshot()
	evs = append(evs, map[string]interface{}{"ev": "end", "launches": l, "kills": k, "tmp_present": p, "tmpdirs": len(tmpDirs)})
	return evs
}

func TestLifecycleCases(t *testing.T) {
	in, outp := os.Getenv("VERIF_IN"), os.Getenv("VERIF_OUT")
	if in == "" || outp == "" {
		t.Skip("VERIF_IN / VERIF_OUT not set")
	}
	var cases []lcCase
	readCases(in, func(raw json.RawMessage) {
		var c lcCase
		if err := json.Unmarshal(raw, &c); err != nil {
			fmt.Fprintf(os.Stderr, "DRIVER-ERROR: bad case: %v\n", err)
			os.Exit(2)
		}
		cases = append(cases, c)
	})
	tmp := filepath.Join(filepath.Dir(outp), "lctmp")
	os.MkdirAll(tmp, 0o755)
	ow := newObsWriter(outp)
	defer ow.close()
	cw := newCaseWatch(ow, 40*time.Second)
	workers := runtime.GOMAXPROCS(0)
	if w, err := strconv.Atoi(os.Getenv("VERIF_WORKERS")); err == nil && w > 0 {
		workers = w
	}
	ch := make(chan lcCase)
	var wg sync.WaitGroup
	for i := 0; i < workers; i++ {
		wg.Add(1)
		go func() {
			defer wg.Done()
			for c := range ch {
				if workers == 1 {
					fmt.Printf("SCENARIO %s\n", c.Name)
				}
				cw.begin(c.Name)
				evs := runLifecycleCase(c, tmp)
				cw.end(c.Name)
				ow.write(map[string]interface{}{"name": c.Name, "plan": c.Plan, "calls": c.Calls, "concurrent": c.Concurrent, "events": evs})
			}
		}()
	}
	for _, c := range cases {
		ch <- c
	}
	close(ch)
	wg.Wait()
}
