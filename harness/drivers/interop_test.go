package drivers

// Driver for C14: host and plugin configurations interoperate exactly when compatible.

import (
	"context"
	"encoding/json"
	"errors"
	"fmt"
	"os"
	"path/filepath"
	"runtime"
	"strconv"
	"sync"
	"testing"
	"time"

	hclog "github.com/hashicorp/go-hclog"
	plugin "github.com/hashicorp/go-plugin"
	"github.com/hashicorp/go-plugin/verifharness/vp"
)

type ioCell struct {
	Proto   string `json:"proto"`
	Allowed string `json:"allowed"`
	HTLS    string `json:"htls"`
	PTLS    string `json:"ptls"`
	MuxReq  bool   `json:"muxreq"`
	PMux    string `json:"pmux"`
	Launch  string `json:"launch"`
}
type ioCase struct {
	Name string `json:"name"`
	Cell ioCell `json:"cell"`
}

var ioIDs struct {
	sync.Mutex
	n uint32
}

func nextIOID() uint32 { ioIDs.Lock(); defer ioIDs.Unlock(); ioIDs.n++; return 9000 + ioIDs.n }

func runInteropCase(c ioCase, bin, tmp string) map[string]interface{} {
	out := map[string]interface{}{"panic": false, "hang": false, "start_ok": false, "first_use_ok": false, "err_is_mux": false, "pid_gone": false,
		"protocol": "", "call_ok": false, "ping_ok": false, "large_ok": false, "callback_h2p_ok": false, "callback_p2h_ok": false, "unknown_name_err": false, "unserved_name_err": false, "callback_h2p_sec": "", "callback_p2h_sec": ""}
	cell := c.Cell
	cert, key, _ := vp.StaticTLS()
	pc := &vp.PluginCfg{LegacyVersion: 1, Legacy: &vp.SetCfg{Proto: cell.Proto, Tag: "1"}, GRPCServer: cell.Proto == "grpc", CertPEM: cert, KeyPEM: key}
	if cell.PTLS == "static" {
		pc.TLS = "static"
	}
	// every other cell declares its plugin sets by version on both sides (the negotiated set is then what
	// Dispense has to look names up in); launches by reattach do not negotiate and keep the plain sets
	versioned := len(c.Name)%2 == 1 && cell.Launch != "reattach"
	if versioned {
		pc.LegacyVersion, pc.Legacy = 0, nil
		// (the highest common version, 2, is neither the host's newest nor the plugin's lowest)
		pc.Versioned = map[int]vp.SetCfg{1: {Proto: cell.Proto, Tag: "1"}, 2: {Proto: cell.Proto, Tag: "1"}}
	}
	mkHost := func(launch string) *vp.HostCfg {
		hc := &vp.HostCfg{LegacyVersion: 1, Legacy: &vp.SetCfg{Proto: "grpc", Tag: "1"}, Mux: cell.MuxReq, Launch: launch, TempDir: tmp, StartTimeoutMs: 8000}
		if versioned {
			hc.LegacyVersion, hc.Legacy = 0, nil
			hc.Versioned = map[int]vp.SetCfg{2: {Proto: "grpc", Tag: "1"}, 3: {Proto: "grpc", Tag: "1"}}
		}
		if launch == "runner" {
			// the custom runner is one under which the plugin sees the socket directory under another path:
			// every address crossing over is translated, each direction with its own translation
			hc.Translate = "symlink"
		}
		switch cell.Allowed {
		case "netrpc", "grpc":
			hc.Allowed = []string{cell.Allowed}
		case "both":
			hc.Allowed = []string{"netrpc", "grpc"}
		case "emptylist":
			hc.AllowedSet = true
		}
		hc.TLS = map[string]string{"none": "", "static": "static", "auto": "auto"}[cell.HTLS]
		return hc
	}
	var extra []string
	switch cell.PMux {
	case "old":
		extra = append(extra, "VPLUGIN_IMPOSTOR=dropmux")
	case "false":
		extra = append(extra, "VPLUGIN_IMPOSTOR=muxfalse")
	case "legacy":
		extra = append(extra, "VPLUGIN_IMPOSTOR=legacyline") // a plugin from before the protocol field: four fields
	}
	var cl *plugin.Client
	var launcher *vp.Pair
	pid := 0
	if cell.Launch == "reattach" {
		// launch with a neutral host (no connection is made), then reattach with the cell's host config
		lh := &vp.HostCfg{LegacyVersion: 1, Legacy: &vp.SetCfg{Proto: "grpc", Tag: "1"}, Allowed: []string{"netrpc", "grpc"}, TempDir: tmp}
		launcher = vp.NewPair(bin, lh, pc, nil, nil)
		defer launcher.Client.Kill()
		if _, err := launcher.Client.Start(); err != nil {
			out["err"] = "launcher: " + err.Error()
			return out
		}
		pid = launcher.Pid()
		rc := launcher.Client.ReattachConfig()
		p2 := vp.NewPair(bin, mkHost("cmd"), pc, nil, nil)
		cfg := p2.Config
		cfg.Cmd = nil
		if cell.PMux == "legacy" {
			rcc := *rc
			rcc.Protocol = "" // a reattach configuration that does not name the protocol: net/rpc
			rc = &rcc
		}
		cfg.Reattach = rc
		cfg.Logger = hclog.NewNullLogger()
		cl = plugin.NewClient(cfg)
	} else {
		p := vp.NewPair(bin, mkHost(cell.Launch), pc, extra, nil)
		cl = p.Client
		defer func() {
			if pid == 0 {
				pid = p.Pid()
			}
		}()
		launcher = p
	}
	defer cl.Kill()
	done := make(chan struct{})
	go func() {
		defer close(done)
		defer func() {
			if r := recover(); r != nil {
				out["panic"] = true
				out["panic_msg"] = fmt.Sprint(r)
			}
		}()
		_, err := cl.Start()
		if cell.Launch != "reattach" {
			pid = launcher.Pid()
		}
		if err != nil {
			out["err"] = truncate(err.Error(), 200)
			out["err_is_mux"] = errors.Is(err, plugin.ErrGRPCBrokerMuxNotSupported)
			for i := 0; i < 400 && !vp.PidGone(pid); i++ {
				time.Sleep(5 * time.Millisecond)
			}
			out["pid_gone"] = vp.PidGone(pid) || vp.PidState(pid) == "Z"
			return
		}
		out["start_ok"] = true
		out["protocol"] = string(cl.Protocol())
		cp, err := cl.Client()
		if err != nil {
			out["use_err"] = truncate(err.Error(), 160)
			return
		}
		if err := cp.Ping(); err != nil {
			out["use_err"] = truncate(err.Error(), 160)
			return
		}
		out["ping_ok"] = true
		raw, err := cp.Dispense("v")
		if err != nil {
			out["use_err"] = truncate(err.Error(), 160)
			return
		}
		stub := raw.(*vp.Stub)
		ctx, cancel := context.WithTimeout(context.Background(), 30*time.Second)
		defer cancel()
		r, err := stub.DoCtx(ctx, vp.Cmd{Op: "tag"})
		if err != nil {
			out["use_err"] = truncate(err.Error(), 160)
			return
		}
		out["first_use_ok"] = true
		out["call_ok"] = r.S == "1"
		big, err := stub.DoCtx(ctx, vp.Cmd{Op: "bigascii", N: 8 << 20, Seed: 3})
		ok := err == nil && len(big.S) == 8<<20
		if ok {
			for _, i := range []int{0, 1, 4095, 1 << 20, (8 << 20) - 1} {
				if big.S[i] != byte('a'+(i*7+3)%26) {
					ok = false
				}
			}
		}
		out["large_ok"] = ok
		id1, id2 := nextIOID(), nextIOID()
		stub.DoCtx(ctx, vp.Cmd{Op: "serve", ID: id1, S: strconv.Itoa(int(id1))})
		tag, err := stub.Broker.DialWho(id1)
		out["callback_h2p_ok"] = err == nil && tag == strconv.Itoa(int(id1))
		out["callback_h2p_sec"] = vp.SecOf(id1)
		if err != nil {
			out["h2p_err"] = truncate(err.Error(), 160)
		}
		stub.Broker.ServeWho(id2, strconv.Itoa(int(id2)))
		r2, err := stub.DoCtx(ctx, vp.Cmd{Op: "dial", ID: id2})
		out["callback_p2h_ok"] = err == nil && r2.S == strconv.Itoa(int(id2))
		out["callback_p2h_sec"] = ""
		if len(r2.L) > 0 {
			out["callback_p2h_sec"] = r2.L[0]
		}
		if err != nil {
			out["p2h_err"] = truncate(err.Error(), 160)
		}
		_, err = cp.Dispense("no-such-plugin")
		out["unknown_name_err"] = err != nil
		// a name the host knows but the plugin does not serve: net/rpc asks the plugin, which must refuse
		_, err = cp.Dispense("ghost")
		out["unserved_name_err"] = err != nil
	}()
	select {
	case <-done:
	case <-time.After(70 * time.Second):
		out["hang"] = true
	}
	return out
}

func TestInteropCases(t *testing.T) {
	in, outp, bin := os.Getenv("VERIF_IN"), os.Getenv("VERIF_OUT"), os.Getenv("VERIF_VPLUGIN")
	if in == "" || outp == "" || bin == "" {
		t.Skip("VERIF_IN / VERIF_OUT / VERIF_VPLUGIN not set")
	}
	var cases []ioCase
	readCases(in, func(raw json.RawMessage) {
		var c ioCase
		if err := json.Unmarshal(raw, &c); err != nil {
			fmt.Fprintf(os.Stderr, "DRIVER-ERROR: bad case: %v\n", err)
			os.Exit(2)
		}
		cases = append(cases, c)
	})
	tmp := filepath.Join(filepath.Dir(outp), "iotmp"+strconv.Itoa(os.Getpid()))
	os.MkdirAll(tmp, 0o755)
	os.Setenv("TMPDIR", tmp)
	ow := newObsWriter(outp)
	defer ow.close()
	cw := newCaseWatch(ow, 150*time.Second)
	workers := runtime.GOMAXPROCS(0)
	if w, err := strconv.Atoi(os.Getenv("VERIF_WORKERS")); err == nil && w > 0 {
		workers = w
	}
	ch := make(chan ioCase)
	var wg sync.WaitGroup
	for i := 0; i < workers; i++ {
		wg.Add(1)
		go func() {
			defer wg.Done()
			for c := range ch {
				if workers == 1 {
					fmt.Printf("SCENARIO %s\n", c.Name)
				}
				cw.begin(c.Name)
				o := runInteropCase(c, bin, tmp)
				cw.end(c.Name)
				ow.write(map[string]interface{}{"name": c.Name, "cell": c.Cell, "out": o})
			}
		}()
	}
	for _, c := range cases {
		ch <- c
	}
	close(ch)
	wg.Wait()
}
