package drivers

// Driver for C07 / C08 (and the gRPC half of C09): brokered connections over the gRPC broker,
// plain and multiplexed, in-process pairs (both brokers in one process, hook events recorded,
// goroutines can be held at hook points) and real vplugin processes.

import (
	"encoding/json"
	"fmt"
	"os"
	"path/filepath"
	"runtime"
	"sort"
	"strconv"
	"strings"
	"sync"
	"sync/atomic"
	"testing"
	"time"

	plugin "github.com/hashicorp/go-plugin"
	"github.com/hashicorp/go-plugin/verifharness/sched"
	"github.com/hashicorp/go-plugin/verifharness/vp"
)

type gbEst struct {
	ID      uint32 `json:"id"`
	Dir     string `json:"dir"`   // "h2p": the host dials a server accepted by the plugin; "p2h": the reverse
	Order   string `json:"order"` // accept_first, dial_first
	GapMs   int    `json:"gap_ms"`
	StartMs int    `json:"start_ms"`
	Keep    bool   `json:"keep"`   // keep the dialled connection and call it again at the end
	NoPeer  string `json:"nopeer"` // "", "dial_only", "accept_only": the other call never comes
	Pre     string `json:"pre"`    // "abandoned_accept": before the establishment the accepting side reserves the id with the raw Accept and closes the listener unused
}
type gbHold struct {
	Gate string `json:"gate"`
	Side string `json:"side"` // "H" or "P" (the broker the hook fires on), "" = any
	Ms   int    `json:"ms"`
}
type gbCase struct {
	Name       string  `json:"name"`
	Mux        bool    `json:"mux"`
	Pair       string  `json:"pair"` // inproc, process
	TLS        string  `json:"tls"`  // "", "auto" (process pairs)
	Launch     string  `json:"launch"`
	Translate  string  `json:"translate,omitempty"` // a custom runner with a non-identity address translation: "tcpforward" (network and address change), "symlink" (another path, direction matters)
	Sequential bool    `json:"sequential"`
	Ests       []gbEst `json:"ests"`
	Hold       *gbHold `json:"hold,omitempty"`
	// CloseDuringSend: an Accept's message is held inside the broker stream's send goroutine
	// (hook grpc.stream.send) while the pair is shut down ("h2p": the plugin's stream, "p2h": the host's)
	CloseDuringSend string `json:"close_during_send,omitempty"`
	// CloseDuringDial: client and server are closed while a dial in the given direction waits for its peer
	CloseDuringDial string `json:"close_during_dial,omitempty"`
	// StopRace: the owner of an in-process server calls GRPCServer.Stop at the moment the
	// controller's Shutdown handler (hook grpc.shutdown) is about to do the same
	StopRace bool `json:"stop_race,omitempty"`
	// LeakCheck (in-process pairs): after client and server are closed, no goroutine of the two brokers may remain
	LeakCheck bool `json:"leak_check,omitempty"`
	// CloseRace: n goroutines close the host's protocol client at once; they are held at the entry of
	// GRPCBroker.Close (hook grpc.broker.close) until all have arrived
	CloseRace int `json:"close_race,omitempty"`
}

type gbEstObs struct {
	ID        uint32 `json:"id"`
	Dir       string `json:"dir"`
	Order     string `json:"order"`
	GapMs     int    `json:"gap_ms"`
	NoPeer    string `json:"nopeer"`
	DialOK    bool   `json:"dial_ok"`
	ServedBy  int    `json:"served_by"` // the id the answering server was accepted on; -1 none
	DialMs    int64  `json:"dial_ms"`
	Err       string `json:"err,omitempty"`
	MainOK    bool   `json:"main_ok"` // main connection works after this establishment
	KeptOK    bool   `json:"kept_ok"` // the kept connection still answers correctly at the end
	Keep      bool   `json:"keep"`
	StartedMs int64  `json:"started_ms"`
}

type fakeT struct{ testing.TB }

func (fakeT) Fatalf(format string, args ...interface{}) { panic(fmt.Sprintf(format, args...)) }
func (fakeT) Fatal(args ...interface{})                 { panic(fmt.Sprint(args...)) }

// gbTag is what the server accepted for an establishment answers with: the side it runs on (P for host-dials-plugin,
// H for plugin-dials-host) and the id.
func gbSide(e gbEst) string {
	if e.Dir == "h2p" {
		return "P"
	}
	return "H"
}
func gbTag(e gbEst) string { return gbSide(e) + strconv.Itoa(int(e.ID)) }

func runGBCase(c gbCase, bin, tmp string, t *testing.T) map[string]interface{} {
	var goroutinesBefore map[string]string
	if c.LeakCheck {
		goroutinesBefore = pluginGoroutines()
	}
	out := map[string]interface{}{}
	var stub *vp.Stub
	var cp plugin.ClientProtocol
	var cleanup func()
	rec := sched.NewRecorder()
	var pluginBroker vp.BrokerAPI
	var inprocClient *plugin.GRPCClient
	var inprocServer *plugin.GRPCServer
	if c.Pair == "inproc" {
		vpl := &vp.VPlugin{Name: "v", Tag: "1", OnBroker: func(b vp.BrokerAPI) { pluginBroker = b }}
		ps := map[string]plugin.Plugin{"v": vpl}
		var client *plugin.GRPCClient
		var server *plugin.GRPCServer
		func() {
			defer func() {
				if r := recover(); r != nil {
					out["setup_err"] = fmt.Sprint(r)
				}
			}()
			client, server = plugin.TestPluginGRPCConn(fakeT{t}, c.Mux, ps)
		}()
		if client == nil {
			return out
		}
		raw, err := client.Dispense("v")
		if err != nil {
			out["setup_err"] = err.Error()
			return out
		}
		stub = raw.(*vp.Stub)
		cp = client
		cleanup = func() { client.Close(); server.Stop() }
		inprocClient, inprocServer = client, server
		if gb, ok := stub.Broker.(vp.GRPCAPI); ok {
			rec.NameObj(gb.B, "H")
		}
		if gb, ok := pluginBroker.(vp.GRPCAPI); ok {
			rec.NameObj(gb.B, "P")
		}
	} else {
		pc := &vp.PluginCfg{LegacyVersion: 1, Legacy: &vp.SetCfg{Proto: "grpc", Tag: "1"}, GRPCServer: true}
		hc := &vp.HostCfg{LegacyVersion: 1, Legacy: &vp.SetCfg{Proto: "grpc", Tag: "1"}, Allowed: []string{"grpc"}, Mux: c.Mux, TLS: c.TLS,
			Launch: c.Launch, TempDir: tmp, Translate: c.Translate}
		p := vp.NewPair(bin, hc, pc, []string{"TMPDIR=" + tmp}, nil)
		s, proto, err := p.Dispense()
		if err != nil {
			out["setup_err"] = err.Error()
			p.Client.Kill()
			return out
		}
		stub, cp = s, proto
		cleanup = func() { p.Client.Kill() }
	}
	var cleanupOnce sync.Once
	defer func() { cleanupOnce.Do(func() { cleanup() }) }()

	// hook events (in-process pairs only see both sides; process pairs only the host side)
	hold := c.Hold
	var hookMu sync.Mutex
	held := map[string]bool{}
	handler := func(ev string, obj interface{}, a, b int64) {
		rec.Hook(ev, obj, a, b)
		if hold != nil && ev == hold.Gate {
			key := ev + "/" + strconv.FormatInt(a, 10)
			hookMu.Lock()
			first := !held[key]
			held[key] = true
			hookMu.Unlock()
			if first {
				time.Sleep(time.Duration(hold.Ms) * time.Millisecond)
			}
		}
	}
	if c.Pair == "inproc" {
		plugin.VerifSetHook(handler)
		defer plugin.VerifSetHook(nil)
	}

	if c.CloseRace > 0 && c.Pair == "inproc" {
		var arrived int32
		all := make(chan struct{})
		var once sync.Once
		n := int32(c.CloseRace)
		plugin.VerifSetHook(func(ev string, obj interface{}, a, b int64) {
			if ev != "grpc.broker.close" || ptrEq(obj, pluginBrokerPtr(pluginBroker)) {
				return
			}
			if atomic.AddInt32(&arrived, 1) >= n {
				once.Do(func() { close(all) })
			}
			select {
			case <-all:
			case <-time.After(500 * time.Millisecond):
			}
		})
		var wg sync.WaitGroup
		for i := 0; i < c.CloseRace; i++ {
			wg.Add(1)
			go func() {
				defer wg.Done()
				inprocClient.Close()
			}()
		}
		wg.Wait()
		inprocServer.Stop()
		cleanup = func() {}
		out["ests"] = []gbEstObs{}
		out["close_race"] = true
		out["listener_before_ack"] = true
		return out
	}
	if c.StopRace && c.Pair == "inproc" {
		atShutdown := make(chan struct{})
		var once sync.Once
		plugin.VerifSetHook(func(ev string, obj interface{}, a, b int64) {
			if ev == "grpc.shutdown" {
				once.Do(func() { close(atShutdown) })
			}
		})
		stopped := make(chan struct{})
		go func() {
			defer close(stopped)
			select {
			case <-atShutdown:
			case <-time.After(3 * time.Second):
			}
			inprocServer.Stop()
		}()
		inprocClient.Close()
		<-stopped
		cleanup = func() {}
		out["ests"] = []gbEstObs{}
		out["stop_race"] = true
		out["listener_before_ack"] = true
		return out
	}
	if c.CloseDuringDial != "" && c.Pair == "inproc" {
		// a dial whose peer has not accepted yet (multiplexed: its knock is out, the acknowledgement is not in) is
		// in flight when client and server are closed
		e := gbEst{ID: 4343, Dir: c.CloseDuringDial}
		done := make(chan struct{})
		go func() {
			defer close(done)
			defer func() { recover() }()
			if e.Dir == "h2p" {
				stub.Broker.DialWho(e.ID)
			} else {
				stub.Do(vp.Cmd{Op: "dial", ID: e.ID})
			}
		}()
		time.Sleep(150 * time.Millisecond)
		cleanup()
		cleanup = func() {}
		select {
		case <-done:
		case <-time.After(8 * time.Second):
			out["dial_never_returned"] = true
		}
		out["ests"] = []gbEstObs{}
		out["closed_during_dial"] = true
		out["listener_before_ack"] = true
		return out
	}
	if c.CloseDuringSend != "" && c.Pair == "inproc" {
		hold = &gbHold{Gate: "grpc.stream.send", Ms: 500}
		e := gbEst{ID: 4242, Dir: c.CloseDuringSend}
		go func() {
			defer func() { recover() }()
			if e.Dir == "h2p" {
				stub.Do(vp.Cmd{Op: "serve", ID: e.ID, S: "4242"})
			} else {
				stub.Broker.ServeWho(e.ID, "4242")
			}
		}()
		time.Sleep(150 * time.Millisecond) // the message is now held in the send goroutine
		cleanup()
		cleanup = func() {}
		time.Sleep(900 * time.Millisecond) // the held Send completes (or fails) after the shutdown
		out["ests"] = []gbEstObs{}
		out["closed_during_send"] = true
		out["listener_before_ack"] = true
		return out
	}
	t0 := time.Now()
	ms := func() int64 { return time.Since(t0).Milliseconds() }
	obs := make([]gbEstObs, len(c.Ests))
	doAccept := func(e gbEst) {
		tag := gbTag(e)
		if e.Dir == "h2p" {
			stub.Do(vp.Cmd{Op: "serve", ID: e.ID, S: tag})
		} else {
			stub.Broker.ServeWho(e.ID, tag)
		}
	}
	doDial := func(e gbEst) (string, error) {
		if e.Dir == "h2p" {
			if e.Keep {
				return stub.Broker.DialKeep(e.ID)
			}
			return stub.Broker.DialWho(e.ID)
		}
		op := "dial"
		if e.Keep {
			op = "dialkeep"
		}
		r, err := stub.Do(vp.Cmd{Op: op, ID: e.ID})
		return r.S, err
	}
	runEst := func(i int, e gbEst) {
		o := &obs[i]
		*o = gbEstObs{ID: e.ID, Dir: e.Dir, Order: e.Order, GapMs: e.GapMs, NoPeer: e.NoPeer, ServedBy: -1, Keep: e.Keep, StartedMs: ms()}
		var wg sync.WaitGroup
		dialSide, acceptSide := "H", "P"
		if e.Dir == "p2h" {
			dialSide, acceptSide = "P", "H"
		}
		dial := func() {
			defer wg.Done()
			td := time.Now()
			rec.Log("call.dial", dialSide, int64(e.ID), 0, map[string]interface{}{"dir": e.Dir})
			tag, err := doDial(e)
			o.DialMs = time.Since(td).Milliseconds()
			if err != nil {
				o.Err = truncate(err.Error(), 200)
				rec.Log("ret.dial", dialSide, int64(e.ID), 0, map[string]interface{}{"dir": e.Dir, "ok": false, "served_by": -1,
					"timeout": strings.Contains(err.Error(), "timeout waiting for connection info")})
				return
			}
			o.DialOK = true
			// the answering server names the id it was accepted on and the side it runs on
			if strings.HasPrefix(tag, gbSide(e)) {
				if n, err := strconv.Atoi(tag[1:]); err == nil {
					o.ServedBy = n
				}
			} else if len(tag) > 1 {
				o.ServedBy = -2 // a server of the other side (one number used as an id in both directions)
			}
			rec.Log("ret.dial", dialSide, int64(e.ID), 0, map[string]interface{}{"dir": e.Dir, "ok": true, "served_by": o.ServedBy, "timeout": false})
		}
		doAccept := func(e gbEst) {
			rec.Log("call.accept", acceptSide, int64(e.ID), 0, map[string]interface{}{"dir": e.Dir})
			doAccept(e)
			rec.Log("ret.accept", acceptSide, int64(e.ID), 0, map[string]interface{}{"dir": e.Dir})
		}
		gap := time.Duration(e.GapMs) * time.Millisecond
		if e.Pre == "abandoned_accept" {
			if e.Dir == "h2p" {
				if r, err := stub.Do(vp.Cmd{Op: "accept_close", ID: e.ID}); err != nil || !r.OK {
					o.Err = "abandoned accept: " + fmt.Sprint(err) + " " + r.Err
				}
			} else if gb, isG := stub.Broker.(vp.GRPCAPI); isG {
				if err := gb.AcceptClose(e.ID); err != nil {
					o.Err = "abandoned accept: " + err.Error()
				}
			}
			time.Sleep(100 * time.Millisecond)
		}
		switch {
		case e.NoPeer == "dial_only", e.NoPeer == "dial_again":
			// (dial_again: the server accepted for this id by an earlier establishment is still serving)
			wg.Add(1)
			dial()
		case e.NoPeer == "accept_only":
			doAccept(e)
		case e.Order == "accept_first":
			doAccept(e)
			time.Sleep(gap)
			wg.Add(1)
			dial()
		default:
			wg.Add(1)
			go dial()
			time.Sleep(gap)
			doAccept(e)
		}
		wg.Wait()
		// the main control connection must still work
		pingDone := make(chan error, 1)
		go func() { pingDone <- cp.Ping() }()
		select {
		case err := <-pingDone:
			o.MainOK = err == nil
		case <-time.After(5 * time.Second):
			o.MainOK = false
		}
	}
	if c.Sequential {
		for i, e := range c.Ests {
			time.Sleep(time.Duration(e.StartMs) * time.Millisecond)
			runEst(i, e)
		}
	} else {
		var wg sync.WaitGroup
		for i, e := range c.Ests {
			wg.Add(1)
			go func(i int, e gbEst) {
				defer wg.Done()
				time.Sleep(time.Duration(e.StartMs) * time.Millisecond)
				runEst(i, e)
			}(i, e)
		}
		wg.Wait()
	}
	// earlier brokered connections keep working
	for i, e := range c.Ests {
		if e.Keep && obs[i].DialOK {
			var tag string
			var err error
			if e.Dir == "h2p" {
				tag, err = stub.Broker.CallKept(e.ID)
			} else {
				var r vp.Res
				r, err = stub.Do(vp.Cmd{Op: "callkept", ID: e.ID})
				tag = r.S
			}
			obs[i].KeptOK = err == nil && tag == gbTag(e)
		}
	}
	out["ests"] = obs
	out["total_ms"] = ms()
	// per id: was the listener registered before any knock for it was acknowledged? (mux, in-process)
	if c.Pair == "inproc" {
		time.Sleep(50 * time.Millisecond) // goroutines that still have a log line to write for a step already taken
	}
	evs := rec.Events()
	firstIdx := func(name string, id int64) int {
		for i, e := range evs {
			if e.Ev == name && e.A == id {
				return i
			}
		}
		return -1
	}
	order := true
	for _, e := range c.Ests {
		id := int64(e.ID)
		// the acceptor of this establishment: the plugin (its server muxer registers the listener) when the
		// host dials, the host (client muxer) when the plugin dials -- a number may be in use both ways
		regEv, accObj := "smux.listener", "P"
		if e.Dir == "p2h" {
			regEv, accObj = "cmux.listener", "H"
		}
		reg := firstIdx(regEv, id)
		ack := -1
		for i, ev := range evs {
			if ev.Ev == "grpc.lfk.took" && ev.A == id && ev.Obj == accObj {
				ack = i
				break
			}
		}
		if ack >= 0 && (reg < 0 || reg > ack) {
			order = false
		}
	}
	out["listener_before_ack"] = order
	if c.Pair == "inproc" {
		// the event log of an in-process pair is validated against GRPCPlainImpl.tla / GRPCMuxImpl
		var tr []map[string]interface{}
		for _, e := range evs {
			if e.Ev == "grpc.stream.send" || strings.HasPrefix(e.Ev, "stdio.") {
				continue
			}
			m := map[string]interface{}{"seq": e.Seq, "ev": e.Ev, "obj": e.Obj, "a": e.A, "b": e.B, "g": e.G, "t": e.T}
			for k, v := range e.F {
				m[k] = v
			}
			tr = append(tr, m)
		}
		out["events"] = tr
	}
	names := map[string]int{}
	for _, e := range evs {
		names[e.Ev]++
	}
	var evn []string
	for k, v := range names {
		evn = append(evn, fmt.Sprintf("%s=%d", k, v))
	}
	sort.Strings(evn)
	out["event_counts"] = evn
	if c.LeakCheck && c.Pair == "inproc" {
		// closing the client (and stopping the server) ends every goroutine the two brokers started -- the 5 s
		// expiry handlers included, so this takes a few seconds
		cleanupOnce.Do(func() { cleanup() })
		n := -1
		var sample []string
		for i := 0; i < 75; i++ {
			n = 0
			sample = nil
			for id, g := range pluginGoroutines() {
				if _, was := goroutinesBefore[id]; !was {
					n++
					if len(sample) < 3 {
						sample = append(sample, truncate(g, 500))
					}
				}
			}
			if n == 0 {
				break
			}
			time.Sleep(100 * time.Millisecond)
		}
		out["leftover_goroutines"] = n
		if n > 0 {
			out["goroutine_sample"] = sample
		}
	}
	return out
}

func TestGRPCBrokerCases(t *testing.T) {
	in, outp, bin := os.Getenv("VERIF_IN"), os.Getenv("VERIF_OUT"), os.Getenv("VERIF_VPLUGIN")
	if in == "" || outp == "" || bin == "" {
		t.Skip("VERIF_IN / VERIF_OUT / VERIF_VPLUGIN not set")
	}
	var cases []gbCase
	readCases(in, func(raw json.RawMessage) {
		var c gbCase
		if err := json.Unmarshal(raw, &c); err != nil {
			fmt.Fprintf(os.Stderr, "DRIVER-ERROR: bad case: %v\n", err)
			os.Exit(2)
		}
		cases = append(cases, c)
	})
	tmp := filepath.Join(filepath.Dir(outp), "gbtmp")
	os.MkdirAll(tmp, 0o755)
	os.Setenv("TMPDIR", tmp)
	ow := newObsWriter(outp)
	defer ow.close()
	cw := newCaseWatch(ow, 120*time.Second)
	// in-process pairs install a process-global hook handler: one at a time; process pairs in parallel
	workers := runtime.GOMAXPROCS(0)
	if w, err := strconv.Atoi(os.Getenv("VERIF_WORKERS")); err == nil && w > 0 {
		workers = w
	}
	var inproc, proc []gbCase
	for _, c := range cases {
		if c.Pair == "inproc" {
			inproc = append(inproc, c)
		} else {
			proc = append(proc, c)
		}
	}
	emit := func(c gbCase, o map[string]interface{}) {
		ow.write(map[string]interface{}{"name": c.Name, "mux": c.Mux, "pair": c.Pair, "tls": c.TLS, "sequential": c.Sequential, "hold": c.Hold, "out": o})
	}
	var wg sync.WaitGroup
	ch := make(chan gbCase)
	for i := 0; i < workers; i++ {
		wg.Add(1)
		go func() {
			defer wg.Done()
			for c := range ch {
				cw.begin(c.Name)
				o := runGBCase(c, bin, tmp, t)
				cw.end(c.Name)
				emit(c, o)
			}
		}()
	}
	wg.Add(1)
	go func() {
		defer wg.Done()
		for _, c := range inproc {
			fmt.Printf("SCENARIO %s\n", c.Name)
			cw.begin(c.Name)
			o := runGBCase(c, bin, tmp, t)
			cw.end(c.Name)
			emit(c, o)
		}
	}()
	for _, c := range proc {
		ch <- c
	}
	close(ch)
	wg.Wait()
}

// pluginBrokerPtr / ptrEq: the close-race scenario only holds callers of the host-side broker's Close
func pluginBrokerPtr(b vp.BrokerAPI) interface{} {
	if gb, ok := b.(vp.GRPCAPI); ok {
		return gb.B
	}
	return nil
}

func ptrEq(a, b interface{}) bool { return a != nil && b != nil && a == b }
