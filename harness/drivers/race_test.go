package drivers

// Driver for C20: many goroutines use one Client's methods, dispense plugins and use one broker
// pair concurrently with distinct ids, while (optionally) Kill races with the operations in
// flight. Built with -race (this binary and the plugin binary); the race detector is the monitor.

import (
	"encoding/json"
	"fmt"
	"math/rand"
	"os"
	"path/filepath"
	"strconv"
	"strings"
	"sync"
	"sync/atomic"
	"testing"
	"time"

	"github.com/hashicorp/go-plugin/verifharness/vp"
)

type rcCase struct {
	Name      string `json:"name"`
	Proto     string `json:"proto"`
	N         int    `json:"n"`
	Seed      int64  `json:"seed"`
	KillAfter int    `json:"kill_after_ms"` // 0: kill only after everything finished
	TLS       string `json:"tls"`
	// CrashFirst: the plugin dies after Start and before the first Client(); then the goroutines use the client
	CrashFirst bool `json:"crash_first,omitempty"`
}

// runCrashFirst: the plugin is started and dies before the host has ever connected; then n goroutines use
// the client at once (the first Client() fails; what the others get must be an error or something usable).
func runCrashFirst(c rcCase, p *vp.Pair, out map[string]interface{}) map[string]interface{} {
	if _, err := p.Client.Start(); err != nil {
		out["err"] = err.Error()
		p.Client.Kill()
		return out
	}
	out["setup_ok"] = true
	if pr, err := os.FindProcess(p.Pid()); err == nil {
		pr.Kill()
	}
	for i := 0; i < 400 && !p.Client.Exited(); i++ {
		time.Sleep(5 * time.Millisecond)
	}
	var mu sync.Mutex
	var ops atomic.Int64
	guard := func(f func()) {
		defer func() {
			if r := recover(); r != nil {
				mu.Lock()
				out["panic"] = true
				out["panic_msg"] = fmt.Sprint(r)
				mu.Unlock()
			}
		}()
		f()
	}
	guard(func() { p.Client.Client() }) // the first attempt, alone
	var wg sync.WaitGroup
	for g := 0; g < c.N; g++ {
		wg.Add(1)
		go func(g int) {
			defer wg.Done()
			rng := rand.New(rand.NewSource(c.Seed + int64(g)))
			for i := 0; i < 20; i++ {
				ops.Add(1)
				guard(func() {
					switch rng.Intn(6) {
					case 0:
						p.Client.Start()
					case 1, 2:
						if cp, err := p.Client.Client(); err == nil && cp != nil {
							cp.Ping()
							cp.Dispense("v")
						}
					case 3:
						p.Client.Protocol()
						p.Client.Exited()
					case 4:
						p.Client.ReattachConfig()
					case 5:
						if g == 0 && i > 10 {
							p.Client.Kill()
						}
					}
				})
			}
		}(g)
	}
	wg.Wait()
	guard(func() { p.Client.Kill() })
	out["ops"] = ops.Load()
	return out
}

func runRaceCase(c rcCase, bin, tmp string) map[string]interface{} {
	out := map[string]interface{}{"setup_ok": false, "panic": false, "dup_ids": false, "plugin_race": false}
	wire, mux := protoSets(c.Proto)
	pc := &vp.PluginCfg{LegacyVersion: 1, Legacy: &vp.SetCfg{Proto: wire, Tag: "1"}, GRPCServer: wire == "grpc"}
	hc := &vp.HostCfg{LegacyVersion: 1, Legacy: &vp.SetCfg{Proto: "grpc", Tag: "1"}, Allowed: []string{"netrpc", "grpc"}, Mux: mux, TLS: c.TLS, TempDir: tmp}
	raceLog := filepath.Join(tmp, c.Name+".pluginrace")
	p := vp.NewPair(bin, hc, pc, []string{"GORACE=halt_on_error=0 log_path=" + raceLog}, nil)
	if c.CrashFirst {
		return runCrashFirst(c, p, out)
	}
	stub, cp, err := p.Dispense()
	if err != nil {
		out["err"] = err.Error()
		p.Client.Kill()
		return out
	}
	out["setup_ok"] = true
	var wg sync.WaitGroup
	var idMu sync.Mutex
	hostIDs, pluginIDs := map[uint32]int{}, map[uint32]int{}
	var nextBroker atomic.Uint32
	nextBroker.Store(20000)
	var muxSeq sync.Mutex // multiplexed brokered connections are established one at a time
	var ops atomic.Int64
	guard := func(f func()) {
		defer func() {
			if r := recover(); r != nil {
				idMu.Lock()
				out["panic"] = true
				out["panic_msg"] = fmt.Sprint(r)
				idMu.Unlock()
			}
		}()
		f()
	}
	stop := make(chan struct{})
	for g := 0; g < c.N; g++ {
		wg.Add(1)
		go func(g int) {
			defer wg.Done()
			rng := rand.New(rand.NewSource(c.Seed + int64(g)))
			for i := 0; i < 40; i++ {
				select {
				case <-stop:
					return
				default:
				}
				ops.Add(1)
				guard(func() {
					switch rng.Intn(12) {
					case 0:
						p.Client.Start()
					case 1:
						p.Client.Client()
					case 2:
						p.Client.Protocol()
						p.Client.NegotiatedVersion()
					case 3:
						p.Client.ReattachConfig()
						p.Client.ID()
					case 4:
						p.Client.Exited()
					case 5:
						if raw, err := cp.Dispense("v"); err == nil {
							raw.(*vp.Stub).Do(vp.Cmd{Op: "tag"})
						}
					case 6:
						for k := 0; k < 20; k++ {
							v := stub.Broker.NextId()
							idMu.Lock()
							hostIDs[v]++
							idMu.Unlock()
						}
					case 7:
						if r, err := stub.Do(vp.Cmd{Op: "nextid"}); err == nil {
							idMu.Lock()
							pluginIDs[uint32(r.N)]++
							idMu.Unlock()
						}
					case 8, 9:
						id := nextBroker.Add(1)
						// (multiplexed: the knock-and-dial handshakes are made one at a time; an Accept for an id
						// nobody is dialling yet may be issued while another id's handshake is going on)
						if rng.Intn(2) == 0 {
							stub.Do(vp.Cmd{Op: "serve", ID: id, S: strconv.Itoa(int(id))})
							if mux {
								muxSeq.Lock()
								defer muxSeq.Unlock()
							}
							stub.Broker.DialWho(id)
						} else {
							stub.Broker.ServeWho(id, strconv.Itoa(int(id)))
							if mux {
								muxSeq.Lock()
								defer muxSeq.Unlock()
							}
							stub.Do(vp.Cmd{Op: "dial", ID: id})
						}
					case 10:
						cp.Ping()
						stub.Do(vp.Cmd{Op: "echo", S: "x"})
					case 11:
						// the plugin writes several chunks' worth to its stdout and stderr while everything else goes on
						stub.Do(vp.Cmd{Op: "stdio", S: "out", N: 5000, Seed: i})
						stub.Do(vp.Cmd{Op: "stdio", S: "err", N: 3000, Seed: i})
					}
				})
			}
		}(g)
	}
	done := make(chan struct{})
	go func() { wg.Wait(); close(done) }()
	if c.KillAfter > 0 {
		// shutdown racing with in-flight operations (from two goroutines)
		time.Sleep(time.Duration(c.KillAfter) * time.Millisecond)
		var kw sync.WaitGroup
		for k := 0; k < 2; k++ {
			kw.Add(1)
			go func() { defer kw.Done(); guard(func() { p.Client.Kill() }) }()
		}
		kw.Wait()
		close(stop)
	}
	select {
	case <-done:
	case <-time.After(90 * time.Second):
		out["hang"] = true
		close(stop)
	}
	guard(func() { p.Client.Kill() })
	for v, n := range hostIDs {
		if n > 1 {
			out["dup_ids"] = true
			out["dup"] = fmt.Sprintf("host NextId returned %d %d times", v, n)
		}
	}
	for v, n := range pluginIDs {
		if n > 1 {
			out["dup_ids"] = true
			out["dup"] = fmt.Sprintf("plugin NextId returned %d %d times", v, n)
		}
	}
	out["ops"] = ops.Load()
	// race reports of the plugin process
	time.Sleep(200 * time.Millisecond)
	matches, _ := filepath.Glob(raceLog + ".*")
	for _, m := range matches {
		b, _ := os.ReadFile(m)
		if strings.Contains(string(b), "DATA RACE") {
			out["plugin_race"] = true
			out["plugin_race_report"] = truncate(string(b), 6000)
		}
		os.Remove(m)
	}
	return out
}

func TestRaceCases(t *testing.T) {
	in, outp, bin := os.Getenv("VERIF_IN"), os.Getenv("VERIF_OUT"), os.Getenv("VERIF_VPLUGIN")
	if in == "" || outp == "" || bin == "" {
		t.Skip("VERIF_IN / VERIF_OUT / VERIF_VPLUGIN not set")
	}
	tmp := filepath.Join(filepath.Dir(outp), "rc"+strconv.Itoa(os.Getpid()))
	os.MkdirAll(tmp, 0o755)
	os.Setenv("TMPDIR", tmp)
	ow := newObsWriter(outp)
	defer ow.close()
	cw := newCaseWatch(ow, 150*time.Second)
	readCases(in, func(raw json.RawMessage) {
		var c rcCase
		if err := json.Unmarshal(raw, &c); err != nil {
			fmt.Fprintf(os.Stderr, "DRIVER-ERROR: bad case: %v\n", err)
			os.Exit(2)
		}
		fmt.Printf("SCENARIO %s\n", c.Name)
		cw.begin(c.Name)
		o := runRaceCase(c, bin, tmp)
		cw.end(c.Name)
		ow.write(map[string]interface{}{"name": c.Name, "proto": c.Proto, "n": c.N, "kill_after_ms": c.KillAfter, "tls": c.TLS, "out": o})
	})
}
