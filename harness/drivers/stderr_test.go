package drivers

// Driver for C10: plugin output never crashes or stalls the host; stderr is forwarded faithfully.
// A real Client with a scripted runner (and an in-process RPC server so that the start succeeds);
// the "plugin" writes concretised stderr lines and a volume of stdout after the handshake.

import (
	"bytes"
	"encoding/json"
	"fmt"
	"os"
	"os/exec"
	"path/filepath"
	"runtime"
	"strconv"
	"strings"
	"sync"
	"testing"
	"time"

	hclog "github.com/hashicorp/go-hclog"
	plugin "github.com/hashicorp/go-plugin"
	"github.com/hashicorp/go-plugin/runner"
	"github.com/hashicorp/go-plugin/verifharness/vp"
)

type seToken struct {
	Kind    string `json:"kind"`
	Fit     string `json:"fit"`
	Term    string `json:"term"` // "lf", "crlf"
	Variant int    `json:"variant"`
	LongLen string `json:"longlen"` // for long: "eq", "plus1", "multi"
}
type seCase struct {
	Name         string    `json:"name"`
	BufSize      int       `json:"bufsize"`
	Tokens       []seToken `json:"tokens"`
	Unterminated bool      `json:"unterminated"` // the last line has no newline
	StdoutBytes  int       `json:"stdout_bytes"`
	StdoutLines  []int     `json:"stdout_lines"` // line lengths used round-robin
	// StderrFirst: the plugin writes its whole stderr output before it prints the handshake line (and
	// blocks there if nobody reads its stderr meanwhile)
	StderrFirst bool `json:"stderr_first"`
	// Real: a real child process (sh) launched with Cmd writes the stderr bytes and then prints its first stdout
	// line -- a malformed one when BadLine (Start fails and kills it) -- while the host's Stderr writer takes
	// SlowWriteMs per write, so that the reader is behind the plugin when the kill comes
	Real        bool `json:"real,omitempty"`
	BadLine     bool `json:"bad_line,omitempty"`
	SlowWriteMs int  `json:"slow_write_ms,omitempty"`
}

// slowWriter is the host's Stderr writer of the real-process cases
type slowWriter struct {
	mu  sync.Mutex
	buf bytes.Buffer
	ms  int
	n   int
}

func (w *slowWriter) Write(p []byte) (int, error) {
	w.mu.Lock()
	w.n++
	slow := w.n <= 40
	w.mu.Unlock()
	if slow && w.ms > 0 {
		time.Sleep(time.Duration(w.ms) * time.Millisecond)
	}
	w.mu.Lock()
	defer w.mu.Unlock()
	return w.buf.Write(p)
}
func (w *slowWriter) String() string {
	w.mu.Lock()
	defer w.mu.Unlock()
	return w.buf.String()
}

const tsOK = "2026-01-02T15:04:05.000000Z"

// content returns the line (without terminator) and, for hclog JSON, the expected message and fields.
func seContent(t seToken, n int) (string, string, map[string]interface{}) {
	v := t.Variant
	lvl := strings.TrimPrefix(t.Kind, "j_")
	switch {
	case t.Kind == "plain" && t.Fit == "long":
		return pick(v, fmt.Sprintf("long plain line %d ", n), "[INFOx not a prefix ", "{not json "), "", nil
	case t.Kind == "plain":
		return pick(v, fmt.Sprintf("hello world %d", n), " [INFO] leading space", "[INFOx not a prefix", "panic without colon",
			"caf\xc3\xa9 \xff bytes", "{not json", "x", "[info] lower case"), "", nil
	case t.Kind == "panic":
		return pick(v, "panic: runtime error: index out of range", "panic: boom"), "", nil
	case strings.HasPrefix(t.Kind, "p_"):
		p := "[" + strings.ToUpper(strings.TrimPrefix(t.Kind, "p_")) + "]"
		return pick(v, p+" message "+strconv.Itoa(n), p+"tight", p), "", nil
	case t.Kind == "j_trace" || t.Kind == "j_debug" || t.Kind == "j_info" || t.Kind == "j_warn" || t.Kind == "j_error":
		spell := pick(v, lvl, strings.ToUpper(lvl), " "+lvl+" ")
		msg := fmt.Sprintf("json message %d", n)
		kv := map[string]interface{}{"k1": "v" + strconv.Itoa(n), "k2": float64(n)}
		switch v % 3 {
		case 0:
			return fmt.Sprintf(`{"@level":%q,"@message":%q,"@timestamp":%q,"k1":%q,"k2":%d}`, spell, msg, tsOK, kv["k1"], n), msg, kv
		case 1:
			return fmt.Sprintf(`{"@message":%q,"k2":%d,"@level":%q,"k1":%q}`, msg, n, spell, kv["k1"]), msg, kv
		default:
			kv = map[string]interface{}{}
			return fmt.Sprintf(`{"@level":%q,"@message":%q}`, spell, msg), msg, kv
		}
	case t.Kind == "j_unknownlevel":
		return fmt.Sprintf(`{"@level":%q,"@message":"m%d"}`, pick(v, "fatal", "critical", "", "notice"), n), "", nil
	case t.Kind == "j_nolevel":
		return pick(v, fmt.Sprintf(`{"@message":"m%d","a":1}`, n), `{"foo":"bar"}`, `{}`), "", nil
	case t.Kind == "j_null":
		return "null", "", nil
	case t.Kind == "j_badtype":
		return pick(v, `{"@message":5,"@level":"info"}`, `{"@level":null,"@message":"x"}`, `{"@timestamp":17,"@level":"info","@message":"x"}`,
			`{"@message":["a"],"@level":"warn"}`, `{"@level":{"a":1},"@message":"x"}`, `{"@message":true}`), "", nil
	case t.Kind == "j_badts":
		return pick(v, `{"@timestamp":"yesterday","@level":"info","@message":"m"}`, `{"@timestamp":"","@level":"error","@message":"m"}`), "", nil
	case t.Kind == "j_array":
		return pick(v, `[1,2]`, `[]`, `[{"@level":"info"}]`), "", nil
	case t.Kind == "j_scalar":
		return pick(v, `123`, `"str"`, `true`, `1e400`), "", nil
	case t.Kind == "broken_json":
		return pick(v, `{"@level":"info"`, `{"@level":"info","@message":"x"}}`, `{'@level':'info'}`), "", nil
	}
	return "?", "", nil
}

type seLine struct {
	Kind, Fit, Content, Term string
	Msg                      string
	KV                       map[string]interface{}
}

func buildLines(c seCase) ([]seLine, []byte) {
	var lines []seLine
	var stream []byte
	for i, t := range c.Tokens {
		content, msg, kv := seContent(t, i)
		termLen := 1
		if t.Term == "crlf" {
			termLen = 2
		}
		if i == len(c.Tokens)-1 && c.Unterminated {
			// the stream ends after this line's last byte; the reader only learns that the line is
			// over when it asks for more, which it does while there is room for one more byte
			termLen = 1
		}
		if t.Fit == "long" {
			want := c.BufSize
			switch t.LongLen {
			case "plus1":
				want = c.BufSize + 1
			case "multi":
				want = c.BufSize*2 + c.BufSize/2 + 3
			}
			if len(content) < want {
				content += strings.Repeat("x", want-len(content))
			}
		} else if len(content)+termLen > c.BufSize {
			// cannot fit: the generator should have chosen a bigger buffer; be honest about the class
			t.Fit = "long"
		} else if t.Variant%7 == 3 && t.Kind == "plain" {
			// the longest line that still fits
			if len(content)+termLen < c.BufSize {
				content += strings.Repeat("y", c.BufSize-termLen-len(content))
			}
		}
		last := i == len(c.Tokens)-1
		term := "\n"
		if t.Term == "crlf" {
			term = "\r\n"
		}
		if last && c.Unterminated {
			term = ""
		}
		lines = append(lines, seLine{Kind: t.Kind, Fit: t.Fit, Content: content, Term: term, Msg: msg, KV: kv})
		stream = append(stream, []byte(content+term)...)
	}
	return lines, stream
}

func runStderrCase(c seCase, tmp string) map[string]interface{} {
	lines, stream := buildLines(c)
	var stderrCopy bytes.Buffer
	var logBuf bytes.Buffer
	var logMu sync.Mutex
	logger := hclog.New(&hclog.LoggerOptions{Output: &lockedWriter{w: &logBuf, mu: &logMu}, Level: hclog.Trace, JSONFormat: true, Name: "host"})

	stderrDone := make(chan struct{})
	stdoutDone := make(chan struct{})
	sr := NewScriptedRunner(nil)
	sr.Script = func(r *ScriptedRunner) {
		f, err := newFakePlugin(tmp, r)
		if err != nil {
			r.Exit()
			return
		}
		writeStderr := func() {
			defer close(stderrDone)
			// a few writes of arbitrary sizes, not line aligned
			for off := 0; off < len(stream); {
				n := 1 + (off*7+13)%4096
				if off+n > len(stream) {
					n = len(stream) - off
				}
				if _, err := r.StderrW().Write(stream[off : off+n]); err != nil {
					return
				}
				off += n
			}
		}
		if c.StderrFirst {
			writeStderr()
		}
		fmt.Fprintf(r.StdoutW(), "1|1|unix|%s|netrpc|\n", f.path)
		if !c.StderrFirst {
			go writeStderr()
		}
		go func() {
			defer close(stdoutDone)
			written := 0
			for i := 0; written < c.StdoutBytes && len(c.StdoutLines) > 0; i++ {
				n := c.StdoutLines[i%len(c.StdoutLines)]
				line := append(bytes.Repeat([]byte{'o'}, n), '\n')
				if _, err := r.StdoutW().Write(line); err != nil {
					return
				}
				written += len(line)
			}
		}()
		<-r.Gone()
	}
	cfg := &plugin.ClientConfig{
		HandshakeConfig:     plugin.HandshakeConfig{ProtocolVersion: 1, MagicCookieKey: "K", MagicCookieValue: "V"},
		Plugins:             vp.Set("grpc", "1"),
		StartTimeout:        10 * time.Second,
		Logger:              logger,
		Stderr:              &stderrCopy,
		PluginLogBufferSize: c.BufSize,
		UnixSocketConfig:    &plugin.UnixSocketConfig{TempDir: tmp},
		SkipHostEnv:         true,
		RunnerFunc: func(l hclog.Logger, cmd *exec.Cmd, tmpDir string) (runner.Runner, error) {
			return sr, nil
		},
	}
	out := map[string]interface{}{"panic": false}
	module := "host.scripted-plugin"
	var sw *slowWriter
	if c.Real {
		sw = &slowWriter{ms: c.SlowWriteMs}
		dir, _ := os.MkdirTemp(tmp, "real")
		defer os.RemoveAll(dir)
		streamFile := filepath.Join(dir, "stderr.bin")
		os.WriteFile(streamFile, stream, 0o644)
		line := "1|1|unix|" + filepath.Join(dir, "nobody.sock") + "|netrpc|"
		if c.BadLine {
			line = "this is not a handshake line"
		}
		cfg.RunnerFunc = nil
		cfg.Cmd = exec.Command("/bin/sh", "-c", `cat "$1" >&2; printf '%s\n' "$2"; i=0; while [ $i -lt 40 ]; do echo "more on stdout $i"; i=$((i+1)); done; exec sleep 30`, "sh", streamFile, line)
		cfg.Stderr = sw
		cfg.StartTimeout = 20 * time.Second
		module = "host.sh"
		close(stderrDone)
		close(stdoutDone)
	}
	cl := plugin.NewClient(cfg)
	_, err := cl.Start()
	out["start_ok"] = err == nil
	if c.Real && c.BadLine {
		out["start_ok"] = err != nil // what is expected of this case: the line is rejected
	}
	if err != nil {
		out["start_err"] = err.Error()
	}
	if c.Real {
		// everything the plugin wrote to its stderr before it printed the line has to come out, killed or not
		want := 0
		for _, b := range stream {
			if b == '\n' {
				want++
			}
		}
		deadline := time.Now().Add(10 * time.Second)
		for time.Now().Before(deadline) && strings.Count(sw.String(), "\n") < want {
			time.Sleep(20 * time.Millisecond)
		}
		time.Sleep(100 * time.Millisecond)
	}
	finished, drained := true, true
	select {
	case <-stderrDone:
	case <-time.After(15 * time.Second):
		finished = false
	}
	select {
	case <-stdoutDone:
	case <-time.After(15 * time.Second):
		drained = false
	}
	out["finished"] = finished
	out["stdout_drained"] = drained
	sr.Exit()
	cl.Kill()
	if c.Real {
		stderrCopy.WriteString(sw.String())
	}

	// ---- what was copied to the Stderr writer, line by line
	norm := func(s string) string { return strings.TrimSuffix(s, "\r") }
	got := strings.Split(stderrCopy.String(), "\n")
	if len(got) > 0 && got[len(got)-1] == "" {
		got = got[:len(got)-1]
	}
	// ---- the log records of the stderr lines
	type rec struct {
		Level, Msg string
		KV         map[string]interface{}
	}
	var recs []rec
	logMu.Lock()
	for _, l := range strings.Split(logBuf.String(), "\n") {
		var m map[string]interface{}
		if json.Unmarshal([]byte(l), &m) != nil {
			continue
		}
		if mod, _ := m["@module"].(string); mod != module {
			continue
		}
		r := rec{KV: map[string]interface{}{}}
		r.Level, _ = m["@level"].(string)
		r.Msg, _ = m["@message"].(string)
		for k, v := range m {
			if !strings.HasPrefix(k, "@") {
				r.KV[k] = v
			}
		}
		recs = append(recs, r)
	}
	logMu.Unlock()
	var obsLines []map[string]interface{}
	ri := 0
	for i, ln := range lines {
		o := map[string]interface{}{"kind": ln.Kind, "fit": ln.Fit, "len": len(ln.Content)}
		o["copied"] = i < len(got) && got[i] == norm(ln.Content)
		o["level"], o["msg"], o["nrecords"], o["kv_ok"] = "none", "none", 0, false
		if ln.Fit == "fits" {
			if ri < len(recs) {
				r := recs[ri]
				ri++
				o["nrecords"] = 1
				o["level"] = r.Level
				// the capturing logger encodes records as JSON: invalid UTF-8 arrives as U+FFFD
				want := strings.ToValidUTF8(norm(ln.Content), "\uFFFD")
				switch {
				case ln.Msg != "" && r.Msg == ln.Msg:
					o["msg"] = "message"
					ok := true
					for k, v := range ln.KV {
						if fmt.Sprint(r.KV[k]) != fmt.Sprint(v) {
							ok = false
						}
					}
					if _, has := r.KV["timestamp"]; !has {
						ok = false
					}
					o["kv_ok"] = ok
				case r.Msg == want:
					o["msg"] = "line"
				default:
					o["msg"] = "other"
					o["got_msg"] = truncate(r.Msg, 80)
				}
			}
		} else {
			// long line: consecutive records whose messages concatenate to the line
			want := norm(ln.Content)
			acc := ""
			n := 0
			lvl := ""
			for ri < len(recs) && len(acc) < len(want) && strings.HasPrefix(want, acc+recs[ri].Msg) {
				acc += recs[ri].Msg
				if lvl == "" {
					lvl = recs[ri].Level
				} else if lvl != recs[ri].Level {
					lvl = "mixed"
				}
				ri++
				n++
			}
			// a line of exactly the buffer size ends with an empty chunk
			if ri < len(recs) && recs[ri].Msg == "" && acc == want && n > 0 {
				ri++
				n++
			}
			o["nrecords"] = n
			o["level"] = lvl
			if acc == want && n > 0 {
				o["msg"] = "chunks"
			} else {
				o["msg"] = "other"
			}
		}
		obsLines = append(obsLines, o)
	}
	out["extra_records"] = len(recs) - ri
	out["copied_lines"] = len(got)
	return map[string]interface{}{"lines": obsLines, "out": out}
}

type lockedWriter struct {
	w  *bytes.Buffer
	mu *sync.Mutex
}

func (l *lockedWriter) Write(p []byte) (int, error) {
	l.mu.Lock()
	defer l.mu.Unlock()
	return l.w.Write(p)
}

func TestStderrCases(t *testing.T) {
	in, outp := os.Getenv("VERIF_IN"), os.Getenv("VERIF_OUT")
	if in == "" || outp == "" {
		t.Skip("VERIF_IN / VERIF_OUT not set")
	}
	var cases []seCase
	readCases(in, func(raw json.RawMessage) {
		var c seCase
		if err := json.Unmarshal(raw, &c); err != nil {
			fmt.Fprintf(os.Stderr, "DRIVER-ERROR: bad case: %v\n", err)
			os.Exit(2)
		}
		cases = append(cases, c)
	})
	tmp := filepath.Join(filepath.Dir(outp), "setmp")
	os.MkdirAll(tmp, 0o755)
	ow := newObsWriter(outp)
	defer ow.close()
	cw := newCaseWatch(ow, 60*time.Second)
	workers := runtime.GOMAXPROCS(0)
	if w, err := strconv.Atoi(os.Getenv("VERIF_WORKERS")); err == nil && w > 0 {
		workers = w
	}
	ch := make(chan seCase)
	var wg sync.WaitGroup
	for i := 0; i < workers; i++ {
		wg.Add(1)
		go func() {
			defer wg.Done()
			for c := range ch {
				if workers == 1 {
					fmt.Printf("SCENARIO %s\n", c.Name)
				}
				cw.begin(c.Name)
				o := runStderrCase(c, tmp)
				cw.end(c.Name)
				o["name"] = c.Name
				o["bufsize"] = c.BufSize
				o["tokens"] = c.Tokens
				o["unterminated"] = c.Unterminated
				ow.write(o)
			}
		}()
	}
	for _, c := range cases {
		ch <- c
	}
	close(ch)
	wg.Wait()
}
