package drivers

// Driver for the net/rpc MuxBroker (properties C06, C09, parts of C20).
//
// Two real MuxBrokers are obtained through the public API (RPCServer.ServeConn
// / NewRPCClient over net.Pipe) inside a testing/synctest bubble, so the 5 s
// broker timers cost nothing and a controller can serialise the goroutines at
// the verif hook points (gates).  Every scenario produces an NDJSON trace that
// is validated against spec/TraceMux.tla by TLC.

import (
	"bufio"
	"encoding/json"
	"fmt"
	"io"
	"math/rand"
	"net"
	"net/rpc"
	"os"
	"path/filepath"
	"reflect"
	"runtime"
	"strings"
	"sync"
	"sync/atomic"
	"testing"
	"testing/synctest"
	"time"
	"unsafe"

	plugin "github.com/hashicorp/go-plugin"
	"github.com/hashicorp/go-plugin/verifharness/sched"
	"github.com/hashicorp/yamux"
)

type MuxCall struct {
	Name  string `json:"name"`
	Side  string `json:"side"`
	ID    uint32 `json:"id"`
	At    int64  `json:"at"`
	Abort bool   `json:"abort"` // a raw peer: open the stream, close it without writing an id
}

// sessionOf reaches the broker's yamux session (unexported field) so that the driver can play a
// peer that gives up mid-negotiation.
func sessionOf(b *plugin.MuxBroker) *yamux.Session {
	v := reflect.ValueOf(b).Elem().FieldByName("session")
	if !v.IsValid() || v.Kind() != reflect.Ptr {
		return nil
	}
	return (*yamux.Session)(unsafe.Pointer(v.Pointer()))
}

type MuxHold struct {
	G     string `json:"g"`
	Gate  string `json:"gate"`
	Until int64  `json:"until"`
}

type MuxScenario struct {
	Name    string    `json:"name"`
	Dials   []MuxCall `json:"dials"`
	Accepts []MuxCall `json:"accepts"`
	Mode    string    `json:"mode"` // "ctl" (gated, serialised) or "free"
	Seed    int64     `json:"seed"`
	LagPct  int       `json:"lagpct"`
	Holds   []MuxHold `json:"holds"`
	NextIDs int       `json:"nextids"`
	EndAt   int64     `json:"endat"`
	// DownAt/DownSide: at this (virtual) time the driver cuts the connection under the yamux session
	// from the given side: the peer process dying / the network going away
	DownAt   int64  `json:"down_at,omitempty"`
	DownSide string `json:"down_side,omitempty"`
	// SpinID/SpinN: the first goroutine that reaches the slot lookup (mux.getstream, inside the broker's
	// critical section) for this id yields the processor SpinN times there without blocking, so that
	// whoever else wants the same slot gets to the critical section meanwhile (free mode)
	SpinID uint32   `json:"spin_id,omitempty"`
	SpinN  int      `json:"spin_n,omitempty"`
	Script []string `json:"script"` // optional TLC-derived preference order of goroutine labels
	// Bulk: after the connection is established the dialer waits BulkDelay ms, then writes BulkLen
	// pattern bytes while the acceptor starts reading BulkReadDelay ms late (complete and in order?)
	// AcceptorFirst: the accepting side writes a greeting on the connection as soon as Accept returns, before it
	// reads anything; the dialer reads it first (with the dialer held before its ack read, acknowledgement and
	// greeting are both there when it reads the acknowledgement)
	AcceptorFirst bool `json:"acceptor_first,omitempty"`
	BulkLen       int  `json:"bulk_len"`
	BulkDelay     int  `json:"bulk_delay"`
	BulkReadDelay int  `json:"bulk_read_delay"`
}

var muxGates = []string{
	"mux.accept.slot", "mux.accept.took", "mux.accept.timeout", "mux.accept.closed",
	"mux.dial.opened", "mux.dial.wrote",
	"mux.run.stream", "mux.run.id", "mux.run.slot", "mux.run.park",
	"mux.tw.woke",
}

type CapImpl struct{}

func (CapImpl) Nop(a int, r *int) error { *r = a; return nil }

type capPlugin struct {
	srv chan *plugin.MuxBroker
	cli chan *plugin.MuxBroker
}

func (p *capPlugin) Server(b *plugin.MuxBroker) (interface{}, error) {
	p.srv <- b
	return &CapImpl{}, nil
}
func (p *capPlugin) Client(b *plugin.MuxBroker, c *rpc.Client) (interface{}, error) {
	p.cli <- b
	return c, nil
}

// progress is watched by a real-time watchdog outside the bubble.
var muxProgress atomic.Int64
var muxCurrent atomic.Value // string: scenario name

const greetLen = 64

func pattern(idx int, n int) []byte {
	b := make([]byte, n)
	for i := range b {
		b[i] = byte((idx*131 + i*7 + i/251) & 0xff)
	}
	return b
}

const xferLen = 8192

func TestMuxScenarios(t *testing.T) {
	in := os.Getenv("VERIF_IN")
	out := os.Getenv("VERIF_OUT")
	if in == "" || out == "" {
		t.Skip("VERIF_IN / VERIF_OUT not set")
	}
	f, err := os.Open(in)
	if err != nil {
		sched.Fatalf("open scenarios: %v", err)
	}
	defer f.Close()
	var scs []MuxScenario
	sc := bufio.NewScanner(f)
	sc.Buffer(make([]byte, 1<<20), 1<<24)
	for sc.Scan() {
		line := strings.TrimSpace(sc.Text())
		if line == "" {
			continue
		}
		var s MuxScenario
		if err := json.Unmarshal([]byte(line), &s); err != nil {
			sched.Fatalf("bad scenario: %v", err)
		}
		scs = append(scs, s)
	}
	res, err := os.OpenFile(filepath.Join(out, "results.ndjson"), os.O_CREATE|os.O_APPEND|os.O_WRONLY, 0o644)
	if err != nil {
		sched.Fatalf("results: %v", err)
	}
	defer res.Close()
	writeRes := func(m map[string]interface{}) {
		b, _ := json.Marshal(m)
		res.Write(append(b, '\n'))
		res.Sync()
	}

	// real-time watchdog: a wedged broker stops the bubble (a goroutine blocked on a
	// sync.Mutex is not durably blocked), so no progress for a while in real time means
	// the scenario hung.
	stopWD := make(chan struct{})
	go func() {
		last := muxProgress.Load()
		lastChange := time.Now()
		for {
			select {
			case <-stopWD:
				return
			case <-time.After(200 * time.Millisecond):
			}
			cur := muxProgress.Load()
			if cur != last {
				last, lastChange = cur, time.Now()
				continue
			}
			if time.Since(lastChange) > 8*time.Second {
				name, _ := muxCurrent.Load().(string)
				dump := sched.GoroutineDump()
				writeRes(map[string]interface{}{"name": name, "status": "hang", "dump": dump})
				fmt.Printf("HANG scenario=%s\n", name)
				os.Exit(3)
			}
		}
	}()
	defer close(stopWD)

	// All scenarios run in ONE bubble: yamux keeps a package-level sync.Pool of timers, and a
	// timer created in one bubble must not be used from another.
	synctest.Test(t, func(t *testing.T) {
		for _, s := range scs {
			s := s
			muxCurrent.Store(s.Name)
			muxProgress.Add(1)
			fmt.Printf("SCENARIO %s\n", s.Name)
			var result map[string]interface{}
			func() {
				defer func() {
					if r := recover(); r != nil {
						result = map[string]interface{}{"name": s.Name, "status": "panic", "detail": fmt.Sprint(r), "dump": sched.GoroutineDump()}
					}
				}()
				result = runMuxScenario(t, s, out)
			}()
			writeRes(result)
			if result["status"] == "panic" || result["status"] == "leak" || result["status"] == "incomplete" {
				// the bubble may be polluted by leftover goroutines: stop here, the caller restarts
				// a fresh process for the remaining scenarios
				fmt.Printf("ABORT-AFTER scenario=%s status=%v\n", s.Name, result["status"])
				os.Exit(4)
			}
		}
	})
}

func runMuxScenario(t *testing.T, s MuxScenario, outDir string) map[string]interface{} {
	var start time.Time
	vt := func() int64 { return time.Since(start).Milliseconds() }
	rng := rand.New(rand.NewSource(s.Seed))

	// --- set up the two brokers through the public API
	cp := &capPlugin{srv: make(chan *plugin.MuxBroker, 1), cli: make(chan *plugin.MuxBroker, 1)}
	ps := map[string]plugin.Plugin{"cap": cp}
	c1, c2 := net.Pipe()
	server := &plugin.RPCServer{Plugins: ps, Stdout: strings.NewReader(""), Stderr: strings.NewReader("")}
	go server.ServeConn(c2)
	client, err := plugin.NewRPCClient(c1, ps)
	if err != nil {
		sched.Fatalf("NewRPCClient: %v", err)
	}
	if _, err := client.Dispense("cap"); err != nil {
		sched.Fatalf("setup dispense: %v", err)
	}
	brokers := map[string]*plugin.MuxBroker{"H": <-cp.cli, "P": <-cp.srv}
	synctest.Wait()

	start = time.Now()
	rec := sched.NewRecorder()
	rec.NameObj(brokers["H"], "H")
	rec.NameObj(brokers["P"], "P")
	ctl := s.Mode == "ctl"
	if ctl {
		rec.SetGates(muxGates...)
	}
	var spun atomic.Bool
	plugin.VerifSetHook(func(ev string, obj interface{}, a, b int64) {
		rec.Hook(ev, obj, a, b)
		if s.SpinID != 0 && ev == "mux.getstream" && uint32(a) == s.SpinID && spun.CompareAndSwap(false, true) {
			for i := 0; i < s.SpinN; i++ {
				runtime.Gosched()
			}
		}
	})
	defer plugin.VerifSetHook(nil)

	dialIdx := map[string]int{}
	for i, d := range s.Dials {
		dialIdx[d.Name] = i + 1
	}
	var wg sync.WaitGroup
	var returned atomic.Int64
	issueDial := func(c MuxCall) {
		wg.Add(1)
		go func() {
			defer wg.Done()
			defer returned.Add(1)
			rec.LabelG(c.Name)
			if c.Abort {
				sess := sessionOf(brokers[c.Side])
				if sess == nil {
					sched.Fatalf("cannot reach the yamux session of the broker")
				}
				rec.Log("abort.open", c.Side, int64(c.ID), 0, nil)
				st, err := sess.OpenStream()
				if err != nil {
					rec.Log("note", c.Side, 0, 0, map[string]interface{}{"what": "abort open failed", "err": err.Error()})
					return
				}
				time.Sleep(time.Duration(c.ID%3) * time.Millisecond)
				st.Close()
				rec.Log("abort.closed", c.Side, int64(c.ID), 0, nil)
				return
			}
			rec.Log("call.dial", c.Side, int64(c.ID), 0, nil)
			conn, err := brokers[c.Side].Dial(c.ID)
			r := "ok"
			if err != nil {
				if strings.HasPrefix(err.Error(), "bad ack") {
					r = "badack"
				} else {
					r = "eof"
				}
			}
			rec.Log("ret.dial", c.Side, int64(c.ID), 0, map[string]interface{}{"res": r, "err": fmt.Sprint(err)})
			if err != nil {
				return
			}
			if s.AcceptorFirst {
				g := make([]byte, 2+greetLen)
				conn.SetDeadline(time.Now().Add(3 * time.Second))
				n, err := io.ReadFull(conn, g)
				ok := err == nil && g[0] == 0xA5 && string(g[2:]) == string(pattern(int(g[1])+500, greetLen))
				rec.Log("greet", c.Side, int64(c.ID), 0, map[string]interface{}{"dial": c.Name, "intact": ok, "n": n, "err": fmt.Sprint(err)})
			}
			// identify ourselves on the data path: index byte + pattern
			buf := append([]byte{byte(dialIdx[c.Name])}, pattern(dialIdx[c.Name], xferLen)...)
			conn.SetDeadline(time.Now().Add(3 * time.Second))
			if _, err := conn.Write(buf); err != nil {
				rec.Log("note", c.Side, 0, 0, map[string]interface{}{"what": "dial write failed", "err": err.Error()})
			}
			if s.BulkLen > 0 {
				time.Sleep(time.Duration(s.BulkDelay) * time.Millisecond)
				conn.SetDeadline(time.Time{})
				if n, err := conn.Write(pattern(dialIdx[c.Name]+1000, s.BulkLen)); err != nil {
					rec.Log("note", c.Side, 0, 0, map[string]interface{}{"what": "bulk write failed", "err": err.Error(), "n": n})
				}
				conn.SetDeadline(time.Now().Add(20 * time.Second))
			}
			// wait for the acceptor's echo of our index so that "arrives only at that peer" is two-way
			var back [1]byte
			if _, err := io.ReadFull(conn, back[:]); err == nil {
				if int(back[0]) != dialIdx[c.Name] {
					rec.Log("xfer.back", c.Side, 0, 0, map[string]interface{}{"dial": c.Name, "got": int(back[0])})
				}
			}
			conn.Close()
		}()
	}
	issueAccept := func(c MuxCall) {
		wg.Add(1)
		go func() {
			defer wg.Done()
			defer returned.Add(1)
			rec.LabelG(c.Name)
			rec.Log("call.accept", c.Side, int64(c.ID), 0, nil)
			conn, err := brokers[c.Side].Accept(c.ID)
			r := "ok"
			if err != nil {
				if strings.Contains(err.Error(), "timeout") {
					r = "timeout"
				} else {
					r = "err"
				}
			}
			rec.Log("ret.accept", c.Side, int64(c.ID), 0, map[string]interface{}{"res": r, "err": fmt.Sprint(err)})
			if err != nil {
				return
			}
			conn.SetDeadline(time.Now().Add(3 * time.Second))
			if s.AcceptorFirst {
				ai := int(c.ID % 200)
				conn.Write(append([]byte{0xA5, byte(ai)}, pattern(ai+500, greetLen)...))
			}
			buf := make([]byte, 1+xferLen)
			if _, err := io.ReadFull(conn, buf); err != nil {
				rec.Log("note", c.Side, 0, 0, map[string]interface{}{"what": "accept read failed", "err": err.Error()})
				conn.Close()
				return
			}
			idx := int(buf[0])
			name := "?"
			for n, i := range dialIdx {
				if i == idx {
					name = n
				}
			}
			intact := string(buf[1:]) == string(pattern(idx, xferLen))
			if s.BulkLen > 0 && intact {
				time.Sleep(time.Duration(s.BulkDelay+s.BulkReadDelay) * time.Millisecond)
				conn.SetDeadline(time.Now().Add(20 * time.Second))
				big := make([]byte, s.BulkLen)
				n, err := io.ReadFull(conn, big)
				if err != nil || string(big) != string(pattern(idx+1000, s.BulkLen)) {
					intact = false
					rec.Log("note", c.Side, 0, 0, map[string]interface{}{"what": "bulk read short or corrupt", "n": n, "err": fmt.Sprint(err)})
				}
			}
			rec.Log("xfer", c.Side, int64(c.ID), 0, map[string]interface{}{"acc": c.Name, "dial": name, "intact": intact})
			conn.Write([]byte{byte(idx)})
			conn.Close()
		}()
	}
	// NextId callers (C20: unique ids)
	var idMu sync.Mutex
	ids := map[string][]uint32{}
	for _, side := range []string{"H", "P"} {
		for i := 0; i < s.NextIDs; i++ {
			wg.Add(1)
			side := side
			go func() {
				defer wg.Done()
				v := brokers[side].NextId()
				idMu.Lock()
				ids[side] = append(ids[side], v)
				idMu.Unlock()
			}()
		}
	}

	type pend struct {
		c      MuxCall
		isDial bool
	}
	var pending []pend
	for _, d := range s.Dials {
		pending = append(pending, pend{d, true})
	}
	for _, a := range s.Accepts {
		pending = append(pending, pend{a, false})
	}
	total := int64(len(pending))
	held := func(a *sched.Arrival, now int64) bool {
		for _, h := range s.Holds {
			if h.G == a.Event.G && h.Gate == a.Event.Ev && now < h.Until {
				return true
			}
		}
		return false
	}
	script := append([]string(nil), s.Script...)
	downed := false

	steps := 0
	for {
		synctest.Wait()
		muxProgress.Add(1)
		steps++
		if steps > 20000 {
			break
		}
		now := vt()
		var due []int
		var nextT int64 = -1
		setNext := func(x int64) {
			if x > now && (nextT < 0 || x < nextT) {
				nextT = x
			}
		}
		for i, p := range pending {
			if p.c.At <= now {
				due = append(due, i)
			} else {
				setNext(p.c.At)
			}
		}
		var rel []*sched.Arrival
		for _, a := range rec.Waiting() {
			if held(a, now) {
				for _, h := range s.Holds {
					if h.G == a.Event.G && h.Gate == a.Event.Ev {
						setNext(h.Until)
					}
				}
				continue
			}
			rel = append(rel, a)
		}
		if s.DownAt > 0 && !downed {
			if now >= s.DownAt {
				// every goroutine is blocked right now (synctest.Wait above): the line is logged and the
				// connection cut before anybody can observe it
				downed = true
				rec.Log("session.down", s.DownSide, 0, 0, nil)
				if s.DownSide == "P" {
					c2.Close()
				} else {
					c1.Close()
				}
				continue
			}
			setNext(s.DownAt)
		}
		if now < s.EndAt {
			setNext(s.EndAt)
		}
		done := len(pending) == 0 && returned.Load() == total && len(rec.Waiting()) == 0 && now >= s.EndAt
		if done {
			break
		}
		nchoices := len(due) + len(rel)
		advance := nchoices == 0 || (s.LagPct > 0 && rng.Intn(100) < s.LagPct)
		if advance {
			d := int64(1000)
			if nextT > 0 {
				d = nextT - now
			}
			if nchoices > 0 {
				// lagging: let some time pass while goroutines are held at their gates
				d = []int64{1, 500, 1000, 2500, 5000}[rng.Intn(5)]
			}
			time.Sleep(time.Duration(d) * time.Millisecond)
			continue
		}
		if !ctl {
			// free mode: just issue what is due
			for len(due) > 0 {
				i := due[len(due)-1]
				due = due[:len(due)-1]
				p := pending[i]
				pending = append(pending[:i], pending[i+1:]...)
				if p.isDial {
					issueDial(p.c)
				} else {
					issueAccept(p.c)
				}
			}
			continue
		}
		// scripted preference: the next label of the TLC-derived script that is currently possible
		pick := -1
		for len(script) > 0 && pick < 0 {
			want := script[0]
			for i, di := range due {
				if pending[di].c.Name == want {
					pick = i
				}
			}
			for i, a := range rel {
				if pick < 0 && (a.Event.G == want || strings.HasPrefix(want, "@") && a.Event.Obj+":"+a.Event.Ev == want[1:]) {
					pick = len(due) + i
				}
			}
			script = script[1:]
		}
		if pick < 0 {
			pick = rng.Intn(nchoices)
		}
		if pick < len(due) {
			i := due[pick]
			p := pending[i]
			pending = append(pending[:i], pending[i+1:]...)
			if p.isDial {
				issueDial(p.c)
			} else {
				issueAccept(p.c)
			}
		} else {
			a := rel[pick-len(due)]
			rec.Log("rel", a.Event.Obj, a.Event.A, a.Event.B, map[string]interface{}{"gate": a.Event.Ev, "g": a.Event.G})
			rec.Release(a)
		}
	}
	rec.ReleaseAll()
	synctest.Wait()
	status := "ok"
	detail := ""
	if returned.Load() != total || len(pending) != 0 {
		status = "incomplete"
		detail = fmt.Sprintf("returned %d of %d calls by t=%d", returned.Load(), total, vt())
	}
	// NextId uniqueness
	for side, v := range ids {
		seen := map[uint32]bool{}
		for _, x := range v {
			if seen[x] {
				status = "dupid"
				detail = fmt.Sprintf("side %s id %d returned twice", side, x)
			}
			seen[x] = true
		}
	}
	evs := rec.Events()
	rec.Close()
	plugin.VerifSetHook(nil)

	// closing the client must end every broker goroutine
	client.Close()
	c1.Close()
	c2.Close()
	wgDone := make(chan struct{})
	go func() { wg.Wait(); close(wgDone) }()
	synctest.Wait()
	// expiry handlers and accepts that were still waiting end by their own 5 s timers
	time.Sleep(6 * time.Second)
	synctest.Wait()
	select {
	case <-wgDone:
	default:
		if status == "ok" {
			status = "incomplete"
			detail = "API goroutines still blocked after the session was closed"
		}
	}
	dump := sched.GoroutineDump()
	leaked := 0
	for _, g := range strings.Split(dump, "\n\n") {
		if strings.Contains(g, "go-plugin.(*MuxBroker)") || strings.Contains(g, "go-plugin.(*RPCServer)") {
			leaked++
		}
	}
	if leaked > 0 && status == "ok" {
		status = "leak"
		detail = fmt.Sprintf("%d go-plugin goroutines remain after Close", leaked)
	}

	// write the trace
	tf, err := os.Create(filepath.Join(outDir, s.Name+".ndjson"))
	if err != nil {
		sched.Fatalf("trace file: %v", err)
	}
	hdr := map[string]interface{}{"ev": "scenario", "name": s.Name, "mode": s.Mode, "dials": s.Dials, "accepts": s.Accepts, "t": 0,
		"strict": s.LagPct == 0 && len(s.Holds) == 0, "seed": s.Seed, "lagpct": s.LagPct, "holds": s.Holds}
	hb, _ := json.Marshal(hdr)
	tf.Write(append(hb, '\n'))
	sched.WriteNDJSON(tf, evs, nil)
	tf.Close()
	r := map[string]interface{}{"name": s.Name, "status": status, "detail": detail, "events": len(evs), "steps": steps}
	if status != "ok" {
		r["dump"] = dump
	}
	return r
}
