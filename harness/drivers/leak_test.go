package drivers

// Driver for C18: after a graceful Kill nothing go-plugin created for the pair is left: socket
// files, the custom runner's socket directory, goroutines in the host.

import (
	"context"
	"encoding/json"
	"fmt"
	"net"
	"os"
	"path/filepath"
	"regexp"
	"strconv"
	"strings"
	"sync"
	"testing"
	"time"

	hclog "github.com/hashicorp/go-hclog"
	plugin "github.com/hashicorp/go-plugin"
	"github.com/hashicorp/go-plugin/verifharness/sched"
	"github.com/hashicorp/go-plugin/verifharness/vp"
)

type lkCase struct {
	Name   string   `json:"name"`
	Proto  string   `json:"proto"`
	TLS    string   `json:"tls"`
	Launch string   `json:"launch"`
	Ops    []string `json:"ops"`
	// KilledByOther: before this client's Kill, a second client reattaches to the plugin and kills it (gracefully);
	// this client sees its plugin exit, and is killed afterwards
	KilledByOther bool `json:"killed_by_other,omitempty"`
}

var goroutineHdr = regexp.MustCompile(`(?m)^goroutine (\d+) \[`)

// pluginGoroutines returns the ids of goroutines whose stack has a go-plugin (or yamux / grpc
// transport created for it) frame.
func pluginGoroutines() map[string]string {
	out := map[string]string{}
	for _, g := range strings.Split(sched.GoroutineDump(), "\n\n") {
		m := goroutineHdr.FindStringSubmatch(g)
		if m == nil {
			continue
		}
		if strings.Contains(g, "hashicorp/go-plugin.") || strings.Contains(g, "hashicorp/go-plugin/internal") || strings.Contains(g, "hashicorp/yamux") {
			if strings.Contains(g, "verifharness/drivers.") && !strings.Contains(g, "hashicorp/go-plugin.(") {
				continue // the driver's own goroutine calling into the library
			}
			out[m[1]] = g
		}
	}
	return out
}

func listAll(dir string) []string {
	var out []string
	filepath.Walk(dir, func(p string, info os.FileInfo, err error) error {
		if err == nil && p != dir {
			out = append(out, p)
		}
		return nil
	})
	return out
}

func runLeakCase(c lkCase, bin, base string) map[string]interface{} {
	out := map[string]interface{}{"setup_ok": false, "graceful": false, "ops_ok": false, "leftover_sockets": []string{}, "leftover_dirs": []string{}, "leftover_goroutines": 0}
	tmp := filepath.Join(base, c.Name)
	os.MkdirAll(tmp, 0o755)
	os.Setenv("TMPDIR", tmp) // host side sockets and the runner's plugin-dir go here; the child inherits it
	before := pluginGoroutines()
	wire, mux := protoSets(c.Proto)
	marker := filepath.Join(base, c.Name+".marker")
	pc := &vp.PluginCfg{LegacyVersion: 1, Legacy: &vp.SetCfg{Proto: wire, Tag: "1"}, GRPCServer: wire == "grpc", Marker: marker}
	for _, op := range c.Ops {
		if op == "accept_during_shutdown" && wire == "grpc" {
			pc.OnShutdownServe = 699
		}
	}
	hc := &vp.HostCfg{LegacyVersion: 1, Legacy: &vp.SetCfg{Proto: "grpc", Tag: "1"}, Allowed: []string{"netrpc", "grpc"}, Mux: mux, TLS: c.TLS, Launch: c.Launch, TempDir: tmp}
	p := vp.NewPair(bin, hc, pc, nil, nil)
	stub, cp, err := p.Dispense()
	if err != nil {
		out["err"] = err.Error()
		p.Client.Kill()
		return out
	}
	out["setup_ok"] = true
	ok := true
	id := uint32(600)
	var unserved []net.Listener
	for _, op := range c.Ops {
		id++
		switch op {
		case "dispense":
			raw, err := cp.Dispense("v")
			if err != nil {
				ok = false
			} else if _, err := raw.(*vp.Stub).Do(vp.Cmd{Op: "tag"}); err != nil {
				ok = false
			}
		case "broker_h2p":
			stub.Do(vp.Cmd{Op: "serve", ID: id, S: strconv.Itoa(int(id))})
			tag, err := stub.Broker.DialWho(id)
			if err != nil || tag != strconv.Itoa(int(id)) {
				ok = false
				out["op_err"] = fmt.Sprint(err)
			}
		case "broker_p2h":
			stub.Broker.ServeWho(id, strconv.Itoa(int(id)))
			r, err := stub.Do(vp.Cmd{Op: "dial", ID: id})
			if err != nil || r.S != strconv.Itoa(int(id)) {
				ok = false
				out["op_err"] = fmt.Sprint(err)
			}
		case "broker_h2p_reuse", "broker_p2h_reuse":
			// the same brokered id used for several establishments, one after the other
			for round := 0; round < 6; round++ {
				tag := strconv.Itoa(int(id)) + "r" + strconv.Itoa(round)
				var got string
				var err error
				if op == "broker_h2p_reuse" {
					stub.Do(vp.Cmd{Op: "serve", ID: id, S: tag})
					got, err = stub.Broker.DialWho(id)
				} else {
					stub.Broker.ServeWho(id, tag)
					var r vp.Res
					r, err = stub.Do(vp.Cmd{Op: "dial", ID: id})
					got = r.S
				}
				if err != nil || got != tag {
					// with several servers registered under one id either may answer under multiplexing; what
					// matters here is what is left behind
					out["op_note"] = fmt.Sprintf("reuse round %d: %v %q", round, err, got)
				}
				if mux {
					time.Sleep(30 * time.Millisecond)
				}
			}
		case "raw_accept_reuse":
			// the host application accepts one id twice with the broker's raw Accept, serves on the listeners
			// itself and never closes them (plain gRPC, no TLS: each listener has a socket file go-plugin created)
			if gb, isG := stub.Broker.(vp.GRPCAPI); isG && wire == "grpc" && !mux && c.TLS == "" {
				for round := 0; round < 2; round++ {
					tag := strconv.Itoa(int(id)) + "x" + strconv.Itoa(round)
					if err := gb.ServeWhoRaw(id, tag); err != nil {
						ok = false
						out["op_err"] = fmt.Sprint(err)
						break
					}
					if r, err := stub.Do(vp.Cmd{Op: "dial", ID: id}); err != nil || r.S != tag {
						out["op_note"] = fmt.Sprintf("raw round %d: %v %q", round, err, r.S)
					}
				}
			}
		case "raw_accept_closed":
			// the host application accepts two ids itself; it closes the first listener when it is done with it
			// and leaves the second to the shutdown
			if gb, isG := stub.Broker.(vp.GRPCAPI); isG && wire == "grpc" && !mux && c.TLS == "" {
				closeFirst, err := gb.ServeWhoRawCloser(id, "first")
				if err != nil {
					ok = false
					out["op_err"] = fmt.Sprint(err)
					break
				}
				if r, err := stub.Do(vp.Cmd{Op: "dial", ID: id}); err != nil || r.S != "first" {
					out["op_note"] = fmt.Sprintf("raw closed first: %v %q", err, r.S)
				}
				closeFirst()
				if err := gb.ServeWhoRaw(id+5000, "second"); err != nil {
					ok = false
					out["op_err"] = fmt.Sprint(err)
					break
				}
				if r, err := stub.Do(vp.Cmd{Op: "dial", ID: id + 5000}); err != nil || r.S != "second" {
					out["op_note"] = fmt.Sprintf("raw closed second: %v %q", err, r.S)
				}
			}
		case "raw_accept_unserved", "raw_accept_unserved_twice":
			// the host application reserves an id with the broker's raw Accept and never gets round to accepting
			// on the listener; the plugin dials the id once (its first call cannot be answered and gives up);
			// the application closes the listener after the Kill
			if gb, isG := stub.Broker.(vp.GRPCAPI); isG && wire == "grpc" && c.TLS == "" {
				ln, err := gb.B.Accept(id)
				if err != nil {
					ok = false
					out["op_err"] = fmt.Sprint(err)
					break
				}
				unserved = append(unserved, ln)
				// (_twice: the plugin dials the id a second time; under multiplexing that knock finds the first
				// one's token still waiting and its acknowledgement has to wait -- until the listener is closed)
				for k := 0; k < 1+strings.Count(op, "_twice"); k++ {
					ctx, cf := context.WithTimeout(context.Background(), 20*time.Second)
					r, err := stub.DoCtx(ctx, vp.Cmd{Op: "dial", ID: id})
					cf()
					out["op_note"] = fmt.Sprintf("unserved: %v %q", err, r.S)
				}
			}
		case "unmatched_dials":
			// the plugin dials one id twice at once, nobody ever accepts: both calls give up
			var wg sync.WaitGroup
			for k := 0; k < 2; k++ {
				wg.Add(1)
				go func() {
					defer wg.Done()
					ctx, cf := context.WithTimeout(context.Background(), 20*time.Second)
					defer cf()
					stub.DoCtx(ctx, vp.Cmd{Op: "dial", ID: id})
				}()
			}
			wg.Wait()
		case "unmatched_accept":
			// the host accepts an id nobody dials: the accept gives up (net/rpc) / keeps a listener until the broker closes (gRPC)
			stub.Broker.ServeWho(id, strconv.Itoa(int(id)))
			time.Sleep(5200 * time.Millisecond)
		case "stdio":
			if _, err := stub.Do(vp.Cmd{Op: "stdio", S: "out", N: 5000, Seed: 9}); err != nil {
				ok = false
			}
			stub.Do(vp.Cmd{Op: "stdio", S: "err", N: 3000, Seed: 10})
		}
		if mux {
			time.Sleep(30 * time.Millisecond)
		}
	}
	out["ops_ok"] = ok
	if c.KilledByOther {
		if rc := p.Client.ReattachConfig(); rc != nil {
			other := plugin.NewClient(&plugin.ClientConfig{HandshakeConfig: p.Config.HandshakeConfig, Plugins: p.Config.Plugins, VersionedPlugins: p.Config.VersionedPlugins,
				Reattach: rc, Logger: hclog.NewNullLogger(), AllowedProtocols: p.Config.AllowedProtocols, TLSConfig: p.Config.TLSConfig})
			if _, err := other.Client(); err != nil {
				out["other_err"] = err.Error()
			}
			other.Kill()
			for i := 0; i < 300 && !p.Client.Exited(); i++ {
				time.Sleep(10 * time.Millisecond)
			}
			out["exited_before_kill"] = p.Client.Exited()
		}
	}
	t0 := time.Now()
	p.Client.Kill()
	out["kill_ms"] = time.Since(t0).Milliseconds()
	for _, ln := range unserved {
		ln.Close()
	}
	time.Sleep(1 * time.Second) // settle
	_, merr := os.Stat(marker)
	out["graceful"] = merr == nil
	os.Remove(marker)
	var socks, dirs []string
	for _, f := range listAll(tmp) {
		fi, err := os.Lstat(f)
		if err != nil {
			continue
		}
		rel, _ := filepath.Rel(tmp, f)
		if fi.IsDir() {
			dirs = append(dirs, rel)
		} else {
			kind := "file"
			if fi.Mode()&os.ModeSocket != 0 {
				kind = "socket"
			}
			socks = append(socks, kind+":"+rel)
		}
	}
	if socks == nil {
		socks = []string{}
	}
	if dirs == nil {
		dirs = []string{}
	}
	out["leftover_sockets"] = socks
	out["leftover_dirs"] = dirs
	// goroutines: a few seconds later (the 5 s expiry handlers of the brokers have run by then)
	time.Sleep(5500 * time.Millisecond)
	after := pluginGoroutines()
	n := 0
	var sample []string
	for id, g := range after {
		if _, was := before[id]; !was {
			n++
			if len(sample) < 3 {
				sample = append(sample, truncate(g, 600))
			}
		}
	}
	out["leftover_goroutines"] = n
	if n > 0 {
		out["goroutine_sample"] = sample
	}
	os.RemoveAll(tmp)
	return out
}

func TestLeakCases(t *testing.T) {
	in, outp, bin := os.Getenv("VERIF_IN"), os.Getenv("VERIF_OUT"), os.Getenv("VERIF_VPLUGIN")
	if in == "" || outp == "" || bin == "" {
		t.Skip("VERIF_IN / VERIF_OUT / VERIF_VPLUGIN not set")
	}
	base := filepath.Join(filepath.Dir(outp), "lk"+strconv.Itoa(os.Getpid()))
	os.MkdirAll(base, 0o755)
	ow := newObsWriter(outp)
	defer ow.close()
	cw := newCaseWatch(ow, 120*time.Second)
	// goroutine accounting is per process: one case at a time
	readCases(in, func(raw json.RawMessage) {
		var c lkCase
		if err := json.Unmarshal(raw, &c); err != nil {
			fmt.Fprintf(os.Stderr, "DRIVER-ERROR: bad case: %v\n", err)
			os.Exit(2)
		}
		fmt.Printf("SCENARIO %s\n", c.Name)
		cw.begin(c.Name)
		o := runLeakCase(c, bin, base)
		cw.end(c.Name)
		ow.write(map[string]interface{}{"name": c.Name, "proto": c.Proto, "tls": c.TLS, "launch": c.Launch, "ops": c.Ops, "out": o})
	})
}
