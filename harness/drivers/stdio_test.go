package drivers

// Driver for C11: synced stdout/stderr arrive byte-exact, in order, on the right stream.

import (
	"bytes"
	"encoding/json"
	"fmt"
	"os"
	"path/filepath"
	"runtime"
	"strconv"
	"sync"
	"testing"
	"time"

	hclog "github.com/hashicorp/go-hclog"
	plugin "github.com/hashicorp/go-plugin"
	"github.com/hashicorp/go-plugin/verifharness/vp"
)

type sioCase struct {
	Name     string          `json:"name"`
	Proto    string          `json:"proto"`
	Pre      []vp.StdioWrite `json:"pre"` // written by the plugin as soon as it serves (maybe before the host attaches)
	AttachMs int             `json:"attach_delay_ms"`
	Script   []vp.StdioWrite `json:"script"` // written on the host's request after attaching
	WithRPC  bool            `json:"with_rpc"`
	// StartTimeoutMs: the client's StartTimeout; a script that goes on for longer than that after the
	// host attached must still be delivered (the timeout is about starting, not about the streams)
	StartTimeoutMs int `json:"start_timeout_ms,omitempty"`
	// Kind "handover" (gRPC): host A's stdout writer stalls while the plugin prints numbered records; A's
	// connection goes away with output backed up; host B reattaches to the plugin, which kept running. What B
	// receives has to be a gap-free, in-order run of the records.
	Kind     string `json:"kind,omitempty"`
	StallMs  int    `json:"stall_ms,omitempty"`
	OnStream string `json:"on_stream,omitempty"`
}

// stallWriter sleeps before passing its first write on
type stallWriter struct {
	inner *vp.SyncBuf
	d     time.Duration
	once  sync.Once
}

func (w *stallWriter) Write(p []byte) (int, error) {
	w.once.Do(func() { time.Sleep(w.d) })
	return w.inner.Write(p)
}

// gateWriter lets the first write through to nobody and then blocks until released
type gateWriter struct {
	entered chan struct{}
	release chan struct{}
	once    sync.Once
}

func (g *gateWriter) Write(p []byte) (int, error) {
	g.once.Do(func() { close(g.entered) })
	<-g.release
	return len(p), nil
}

func runHandoverCase(c sioCase, bin, tmp string) map[string]interface{} {
	out := map[string]interface{}{"setup_ok": false, "panic": false, "alive": false, "b_records": 0, "b_runs": 0, "b_garbage": 0}
	wire, mux := protoSets(c.Proto)
	pc := &vp.PluginCfg{LegacyVersion: 1, Legacy: &vp.SetCfg{Proto: wire, Tag: "1"}, GRPCServer: wire == "grpc"}
	hc := &vp.HostCfg{LegacyVersion: 1, Legacy: &vp.SetCfg{Proto: "grpc", Tag: "1"}, Allowed: []string{"netrpc", "grpc"}, Mux: mux, TempDir: tmp}
	p := vp.NewPair(bin, hc, pc, []string{"TMPDIR=" + tmp}, nil)
	gate := &gateWriter{entered: make(chan struct{}), release: make(chan struct{})}
	if c.OnStream == "err" {
		p.Config.SyncStderr = gate
	} else {
		p.Config.SyncStdout = gate
	}
	p.Client = plugin.NewClient(p.Config)
	defer p.Client.Kill()
	defer close(gate.release)
	stub, cp, err := p.Dispense()
	if err != nil {
		out["err"] = err.Error()
		return out
	}
	gc, ok := cp.(*plugin.GRPCClient)
	if !ok {
		out["err"] = "handover needs a gRPC client"
		return out
	}
	stream := "out"
	if c.OnStream == "err" {
		stream = "err"
	}
	go stub.Do(vp.Cmd{Op: "records", S: stream, N: 8 << 16, Seed: 1})
	select {
	case <-gate.entered:
	case <-time.After(10 * time.Second):
		out["err"] = "host A never received any output"
		return out
	}
	out["setup_ok"] = true
	time.Sleep(time.Duration(c.StallMs) * time.Millisecond) // the stream to A backs up
	rc := p.Client.ReattachConfig()
	gc.Conn.Close() // A's connection goes away; the plugin is not told to stop
	bufB := &vp.SyncBuf{}
	cfgB := &plugin.ClientConfig{HandshakeConfig: p.Config.HandshakeConfig, Plugins: p.Config.Plugins, VersionedPlugins: p.Config.VersionedPlugins,
		Reattach: rc, Logger: hclog.NewNullLogger(), AllowedProtocols: p.Config.AllowedProtocols, SyncStdout: bufB, SyncStderr: bufB}
	hostB := plugin.NewClient(cfgB)
	cpB, err := hostB.Client()
	if err != nil {
		out["err"] = "host B: " + err.Error()
		out["setup_ok"] = false
		return out
	}
	deadline := time.Now().Add(8 * time.Second)
	for time.Now().Before(deadline) && bufB.Len() < 256<<10 {
		time.Sleep(20 * time.Millisecond)
	}
	out["alive"] = cpB.Ping() == nil
	got := bufB.Bytes()
	// B may start in the middle of a record: skip to the first record boundary
	if i := bytes.IndexByte(got, '\n'); i >= 0 {
		got = got[i+1:]
	} else {
		got = nil
	}
	prev, recs, runs, garbage := -1, 0, 0, 0
	for len(got) >= 16 {
		n, perr := strconv.Atoi(string(got[:15]))
		if perr != nil || got[15] != '\n' {
			garbage++
			if garbage == 1 {
				out["first_garbage"] = fmt.Sprintf("%q after record %d", got[:16], prev)
			}
			prev = -1
		} else {
			if prev < 0 || n != prev+1 {
				runs++
				if runs == 2 {
					out["first_break"] = fmt.Sprintf("record %d follows record %d", n, prev)
				}
			}
			prev = n
			recs++
		}
		got = got[16:]
	}
	out["b_records"], out["b_runs"], out["b_garbage"] = recs, runs, garbage
	// B is the reattached client: its Kill asks the plugin to stop
	hostB.Kill()
	return out
}

func expectedStream(ws []vp.StdioWrite, stream string) ([]byte, []int) {
	var b []byte
	var ends []int
	for _, w := range ws {
		if w.Stream == stream {
			b = append(b, vp.Pattern(w.Seed, w.N)...)
			ends = append(ends, len(b))
		}
	}
	return b, ends
}

func runStdioCase(c sioCase, bin, tmp string) map[string]interface{} {
	if c.Kind == "handover" {
		return runHandoverCase(c, bin, tmp)
	}
	out := map[string]interface{}{"setup_ok": false, "panic": false, "alive": false}
	wire, mux := protoSets(c.Proto)
	pc := &vp.PluginCfg{LegacyVersion: 1, Legacy: &vp.SetCfg{Proto: wire, Tag: "1"}, GRPCServer: wire == "grpc", StdioScript: c.Pre}
	hc := &vp.HostCfg{LegacyVersion: 1, Legacy: &vp.SetCfg{Proto: "grpc", Tag: "1"}, Allowed: []string{"netrpc", "grpc"}, Mux: mux, TempDir: tmp,
		StartTimeoutMs: c.StartTimeoutMs}
	p := vp.NewPair(bin, hc, pc, []string{"TMPDIR=" + tmp}, nil)
	if c.Kind == "stall" {
		// the host's stdout writer is stuck for StallMs at its first write; everything written meanwhile has to
		// arrive once it goes on, once
		p.Config.SyncStdout = &stallWriter{inner: p.Out, d: time.Duration(c.StallMs) * time.Millisecond}
		p.Client = plugin.NewClient(p.Config)
	}
	defer p.Client.Kill()
	if _, err := p.Client.Start(); err != nil {
		out["err"] = err.Error()
		return out
	}
	time.Sleep(time.Duration(c.AttachMs) * time.Millisecond)
	stub, cp, err := p.Dispense()
	if err != nil {
		out["err"] = err.Error()
		return out
	}
	out["setup_ok"] = true
	stop := make(chan struct{})
	var wg sync.WaitGroup
	if c.WithRPC {
		wg.Add(1)
		go func() {
			defer wg.Done()
			for {
				select {
				case <-stop:
					return
				default:
					stub.Do(vp.Cmd{Op: "big", N: 20000, Seed: 5})
					cp.Ping()
				}
			}
		}()
	}
	if len(c.Script) > 0 {
		sb, _ := json.Marshal(c.Script)
		if _, err := stub.Do(vp.Cmd{Op: "script", S: string(sb)}); err != nil {
			out["err"] = err.Error()
		}
	}
	all := append(append([]vp.StdioWrite(nil), c.Pre...), c.Script...)
	written := map[string][]int{}
	delivered := map[string][]int{}
	garbage := map[string]int{}
	bufs := map[string]*vp.SyncBuf{"out": p.Out, "err": p.Err}
	want := map[string][]byte{}
	ends := map[string][]int{}
	for _, st := range []string{"out", "err"} {
		want[st], ends[st] = expectedStream(all, st)
	}
	// wait until everything arrived or nothing has moved for a while
	deadline := time.Now().Add(15 * time.Second)
	stall := 1500 * time.Millisecond // plus the longest pause the script itself makes
	for _, w := range all {
		if g := time.Duration(w.GapMs)*time.Millisecond + 1500*time.Millisecond; g > stall {
			stall = g
		}
	}
	if c.Kind == "stall" {
		stall += time.Duration(c.StallMs) * time.Millisecond
		deadline = deadline.Add(time.Duration(c.StallMs) * time.Millisecond)
	}
	last, lastChange := -1, time.Now()
	for time.Now().Before(deadline) {
		n := p.Out.Len() + p.Err.Len()
		if n >= len(want["out"])+len(want["err"]) {
			break
		}
		if n != last {
			last, lastChange = n, time.Now()
		} else if time.Since(lastChange) > stall {
			break
		}
		time.Sleep(10 * time.Millisecond)
	}
	time.Sleep(100 * time.Millisecond) // anything extra (duplicates) would arrive now
	close(stop)
	wg.Wait()
	out["alive"] = cp.Ping() == nil
	for _, st := range []string{"out", "err"} {
		got := bufs[st].Bytes()
		// longest prefix of got that is a prefix of want
		l := 0
		for l < len(got) && l < len(want[st]) && got[l] == want[st][l] {
			l++
		}
		garbage[st] = len(got) - l
		written[st], delivered[st] = []int{}, []int{}
		k := 0
		for i, e := range ends[st] {
			written[st] = append(written[st], i+1)
			if e <= l {
				k = i + 1
			}
		}
		for i := 0; i < k; i++ {
			delivered[st] = append(delivered[st], i+1)
		}
		// a write delivered only in part is a proper prefix: fine while not quiescent, a loss at the end
		if l < len(want[st]) && l == len(got) && k == len(ends[st]) {
			// cannot happen (k counts complete writes)
		}
		if garbage[st] > 0 {
			at := l
			hi := at + 16
			if hi > len(got) {
				hi = len(got)
			}
			out["first_mismatch_"+st] = fmt.Sprintf("offset %d of %d expected, got %d bytes; got %x", at, len(want[st]), len(got), got[at:hi])
			// which stream do the unexpected bytes belong to?
			other := "out"
			if st == "out" {
				other = "err"
			}
			if at < len(got) && bytes.Contains(want[other], got[at:hi]) {
				out["crossed_"+st] = true
			}
		}
		out["bytes_"+st] = []int{len(got), len(want[st])}
	}
	out["written"] = written
	out["delivered"] = delivered
	out["garbage"] = garbage
	return out
}

func TestStdioCases(t *testing.T) {
	in, outp, bin := os.Getenv("VERIF_IN"), os.Getenv("VERIF_OUT"), os.Getenv("VERIF_VPLUGIN")
	if in == "" || outp == "" || bin == "" {
		t.Skip("VERIF_IN / VERIF_OUT / VERIF_VPLUGIN not set")
	}
	var cases []sioCase
	readCases(in, func(raw json.RawMessage) {
		var c sioCase
		if err := json.Unmarshal(raw, &c); err != nil {
			fmt.Fprintf(os.Stderr, "DRIVER-ERROR: bad case: %v\n", err)
			os.Exit(2)
		}
		cases = append(cases, c)
	})
	tmp := filepath.Join(filepath.Dir(outp), "siotmp")
	os.MkdirAll(tmp, 0o755)
	os.Setenv("TMPDIR", tmp)
	ow := newObsWriter(outp)
	defer ow.close()
	cw := newCaseWatch(ow, 90*time.Second)
	workers := runtime.GOMAXPROCS(0)
	if w, err := strconv.Atoi(os.Getenv("VERIF_WORKERS")); err == nil && w > 0 {
		workers = w
	}
	ch := make(chan sioCase)
	var wg sync.WaitGroup
	for i := 0; i < workers; i++ {
		wg.Add(1)
		go func() {
			defer wg.Done()
			for c := range ch {
				if workers == 1 {
					fmt.Printf("SCENARIO %s\n", c.Name)
				}
				cw.begin(c.Name)
				o := runStdioCase(c, bin, tmp)
				cw.end(c.Name)
				ow.write(map[string]interface{}{"name": c.Name, "proto": c.Proto, "kind": c.Kind + "-", "npre": len(c.Pre), "nscript": len(c.Script), "with_rpc": c.WithRPC, "out": o})
			}
		}()
	}
	for _, c := range cases {
		ch <- c
	}
	close(ch)
	wg.Wait()
}
