package drivers

// Driver for C05: every way Start can fail after the plugin process was launched, with a real
// process (the vplugin binary in mock mode), launched by command or by a custom runner.

import (
	"encoding/json"
	"fmt"
	"os"
	"path/filepath"
	"runtime"
	"strconv"
	"sync"
	"testing"
	"time"

	plugin "github.com/hashicorp/go-plugin"
	"github.com/hashicorp/go-plugin/verifharness/vp"
)

type sfCase struct {
	Name   string `json:"name"`
	Cause  string `json:"cause"`  // "line", "mismatch", "silent", "partial", "exitearly", "closeout"
	Launch string `json:"launch"` // "cmd", "runner"
	Line   hsLine `json:"line"`   // for cause "line"
	Cfg    hsCfg  `json:"cfg"`
	Var    int    `json:"variant"`
	// Shared (runner launch): a second client that shares this one's *UnixSocketConfig is started -- a healthy
	// plugin -- after the failed Start and before the Kill of the failed client
	Shared bool `json:"shared,omitempty"`
}

func runStartFailCase(c sfCase, bin, tmp string) map[string]interface{} {
	out := map[string]interface{}{}
	pc := &vp.PluginCfg{}
	hc := &vp.HostCfg{Launch: c.Launch, StartTimeoutMs: 1500, TempDir: tmp, SkipHostEnv: true}
	switch c.Cfg.Allowed {
	case "netrpc", "grpc":
		hc.Allowed = []string{c.Cfg.Allowed}
	case "both":
		hc.Allowed = []string{"netrpc", "grpc"}
	case "emptylist":
		hc.AllowedSet = true
	}
	hc.TLS = map[string]string{"none": "", "static": "static", "auto": "auto"}[c.Cfg.TLS]
	if hc.TLS == "static" {
		pc.CertPEM, pc.KeyPEM, _ = vp.StaticTLS()
	}
	hc.Mux = c.Cfg.MuxReq
	hc.LegacyVersion = 1
	hc.Legacy = &vp.SetCfg{Proto: "grpc", Tag: "1"}
	switch c.Cause {
	case "line":
		raw, _, _, _ := concretize(hsCase{Line: c.Line, Cfg: c.Cfg, Variant: c.Var, Offers: "legacy"})
		if c.Var%2 == 1 {
			raw += "more plugin output on stdout\nand more\n"
		}
		pc.MockLine, pc.MockThen = raw, "idle"
		out["raw"] = raw
	case "mismatch":
		// a real, serving plugin (its socket exists in the runner's directory by the time it prints its
		// line) that this host has to turn down: wrong protocol, or no common version
		pc.LegacyVersion, pc.Legacy, pc.GRPCServer = 1, &vp.SetCfg{Proto: "grpc", Tag: "1"}, true
		hc.TLS, hc.Mux = "", false
		if c.Var%2 == 0 {
			hc.Allowed, hc.AllowedSet = []string{"netrpc"}, false
		} else {
			hc.Allowed, hc.LegacyVersion = []string{"netrpc", "grpc"}, 7
		}
	case "silent", "tinytimeout":
		pc.MockThen = "idle"
	case "partial":
		pc.MockLine, pc.MockThen = "1|1|unix|/nonexistent/ha", "idle"
	case "exitearly":
		pc.MockThen = "exit"
	case "closeout":
		pc.MockThen = "close"
	case "closeboth":
		// it closes its stdout and its stderr and stays alive: both of the host's pipe readers see EOF
		pc.MockThen = "closeboth"
	}
	p := vp.NewPair(bin, hc, pc, nil, nil)
	if c.Cause == "tinytimeout" {
		// a start timeout shorter than it takes to spawn the process: the start context may already have
		// expired when the runner comes back from launching it
		p.Config.StartTimeout = time.Duration(1+c.Var%3) * time.Nanosecond
	}
	t0 := time.Now()
	_, err := p.Client.Start()
	out["start_ms"] = time.Since(t0).Milliseconds()
	out["start_ok"] = err == nil
	if err != nil {
		out["err"] = truncate(err.Error(), 160)
	}
	pid := p.Pid()
	out["launched"] = pid > 0
	out["kills_at_return"] = -1
	if p.Wrap != nil {
		out["kills_at_return"] = p.Wrap.Kills.Load()
	}
	// the launched process must be gone by now or shortly after
	t1 := time.Now()
	for time.Since(t1) < 3*time.Second && !vp.PidGone(pid) {
		time.Sleep(5 * time.Millisecond)
	}
	out["pid_gone"] = vp.PidGone(pid)
	out["pid_gone_ms"] = time.Since(t1).Milliseconds()
	out["other_ok"] = true
	var other *vp.Pair
	if c.Shared && p.Wrap != nil {
		opc := &vp.PluginCfg{LegacyVersion: 1, Legacy: &vp.SetCfg{Proto: "grpc", Tag: "1"}, GRPCServer: true}
		ohc := &vp.HostCfg{Launch: "runner", StartTimeoutMs: 8000, TempDir: tmp, SkipHostEnv: true, Allowed: []string{"netrpc", "grpc"}, LegacyVersion: 1, Legacy: &vp.SetCfg{Proto: "grpc", Tag: "1"}}
		other = vp.NewPair(bin, ohc, opc, nil, nil)
		other.Config.UnixSocketConfig = p.Config.UnixSocketConfig // the very same struct
		other.Client = plugin.NewClient(other.Config)
		if _, _, err := other.Dispense(); err != nil {
			out["other_ok"] = false
			out["other_err"] = "start: " + truncate(err.Error(), 120)
		}
	}
	// a later Kill returns promptly and removes the runner's socket directory
	t2 := time.Now()
	p.Client.Kill()
	out["kill_ms"] = time.Since(t2).Milliseconds()
	out["exited_after_kill"] = p.Client.Exited()
	out["tmp_present_after_kill"] = false
	if p.Wrap != nil && p.Wrap.TmpDir != "" {
		if _, err := os.Stat(p.Wrap.TmpDir); err == nil {
			out["tmp_present_after_kill"] = true
		}
	}
	if other != nil {
		// the other client's directory is its own: still there, still usable; gone after its own Kill
		if other.Wrap == nil || other.Wrap.TmpDir == "" {
			out["other_ok"] = false
			out["other_err"] = "no directory"
		} else {
			if _, err := os.Stat(other.Wrap.TmpDir); err != nil {
				out["other_ok"] = false
				out["other_err"] = "the running client's socket directory was removed by the failed client's Kill"
			}
			if cp, err := other.Client.Client(); err != nil || cp.Ping() != nil {
				out["other_ok"] = false
				out["other_err"] = fmt.Sprint(out["other_err"], "; the running client no longer answers")
			}
			other.Client.Kill()
			if _, err := os.Stat(other.Wrap.TmpDir); err == nil {
				out["other_ok"] = false
				out["other_err"] = fmt.Sprint(out["other_err"], "; its directory is still there after its own Kill")
			}
		}
	}
	if !vp.PidGone(pid) {
		// do not leave it around
		if pr, err := os.FindProcess(pid); err == nil {
			pr.Kill()
		}
	}
	return out
}

func truncate(s string, n int) string {
	if len(s) > n {
		return s[:n]
	}
	return s
}

func TestStartFailCases(t *testing.T) {
	in, outp, bin := os.Getenv("VERIF_IN"), os.Getenv("VERIF_OUT"), os.Getenv("VERIF_VPLUGIN")
	if in == "" || outp == "" || bin == "" {
		t.Skip("VERIF_IN / VERIF_OUT / VERIF_VPLUGIN not set")
	}
	var cases []sfCase
	readCases(in, func(raw json.RawMessage) {
		var c sfCase
		if err := json.Unmarshal(raw, &c); err != nil {
			fmt.Fprintf(os.Stderr, "DRIVER-ERROR: bad case: %v\n", err)
			os.Exit(2)
		}
		cases = append(cases, c)
	})
	tmp := filepath.Join(filepath.Dir(outp), "sftmp")
	os.MkdirAll(tmp, 0o755)
	ow := newObsWriter(outp)
	defer ow.close()
	cw := newCaseWatch(ow, 40*time.Second)
	workers := runtime.GOMAXPROCS(0)
	if w, err := strconv.Atoi(os.Getenv("VERIF_WORKERS")); err == nil && w > 0 {
		workers = w
	}
	ch := make(chan sfCase)
	var wg sync.WaitGroup
	for i := 0; i < workers; i++ {
		wg.Add(1)
		go func() {
			defer wg.Done()
			for c := range ch {
				if workers == 1 {
					fmt.Printf("SCENARIO %s\n", c.Name)
				}
				cw.begin(c.Name)
				o := runStartFailCase(c, bin, tmp)
				cw.end(c.Name)
				ow.write(map[string]interface{}{"name": c.Name, "cause": c.Cause, "launch": c.Launch, "line": c.Line, "cfg": c.Cfg, "variant": c.Var, "out": o})
			}
		}()
	}
	for _, c := range cases {
		ch <- c
	}
	close(ch)
	wg.Wait()
}
