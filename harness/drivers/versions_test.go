package drivers

// Driver for C02: version negotiation. Layer "plugin": the plugin binary alone with a raw
// PLUGIN_PROTOCOL_VERSIONS value; layer "pair": a real Client and plugin process.

import (
	"bufio"
	"context"
	"encoding/json"
	"fmt"
	"net"
	"os"
	"os/exec"
	"runtime"
	"strconv"
	"strings"
	"sync"
	"testing"
	"time"

	hclog "github.com/hashicorp/go-hclog"
	plugin "github.com/hashicorp/go-plugin"
	"github.com/hashicorp/go-plugin/verifharness/vp"
)

type verServed struct {
	V     int    `json:"v"`
	Proto string `json:"proto"`
}
type verToken struct {
	Text  string `json:"text"`
	Val   int    `json:"val"`
	Valid bool   `json:"valid"`
}
type verCase struct {
	Name        string      `json:"name"`
	Layer       string      `json:"layer"`
	Host        []int       `json:"host"`
	HostForm    string      `json:"host_form"` // "legacy" (single version), "versioned", "both"
	Served      []verServed `json:"served"`
	ServedForm  string      `json:"served_form"`
	GRPCFactory bool        `json:"grpc_factory"`
	Tokens      []verToken  `json:"tokens"`
	NoList      bool        `json:"no_list"`
	// FirstServed: the same ClientConfig value has already been used for a launch of a plugin serving
	// these versions (a supervisor restarting / replacing a plugin with one config struct)
	FirstServed []verServed `json:"first_served,omitempty"`
}

func splitForm(form string, versions []int, mk func(v int) vp.SetCfg) (uint, *vp.SetCfg, map[int]vp.SetCfg) {
	var legacyV uint
	var legacy *vp.SetCfg
	versioned := map[int]vp.SetCfg{}
	switch form {
	case "legacy":
		// exactly one version, through ProtocolVersion + Plugins
		s := mk(versions[0])
		legacyV, legacy = uint(versions[0]), &s
	case "both":
		// the lowest through the legacy fields, the rest versioned
		lo := versions[0]
		for _, v := range versions {
			if v < lo {
				lo = v
			}
		}
		s := mk(lo)
		legacyV, legacy = uint(lo), &s
		for _, v := range versions {
			if v != lo {
				versioned[v] = mk(v)
			}
		}
	default:
		for _, v := range versions {
			versioned[v] = mk(v)
		}
	}
	return legacyV, legacy, versioned
}

// runVersionTestMode: the plugin is served in this process in test mode (ServeConfig.Test) with the raw version
// list in the process environment; a client built from the reattach configuration it hands out must report the
// version whose set it is then served. (One at a time: the list is read from the process environment.)
func runVersionTestMode(c verCase, pc *vp.PluginCfg) map[string]interface{} {
	out := map[string]interface{}{"served": false, "line_version": -1, "line_proto": "-", "plugin_tag": -1, "negotiated": -1}
	if c.NoList {
		os.Unsetenv("PLUGIN_PROTOCOL_VERSIONS")
	} else {
		var toks []string
		for _, t := range c.Tokens {
			toks = append(toks, t.Text)
		}
		os.Setenv("PLUGIN_PROTOCOL_VERSIONS", strings.Join(toks, ","))
	}
	defer os.Unsetenv("PLUGIN_PROTOCOL_VERSIONS")
	ctx, cancel := context.WithCancel(context.Background())
	defer cancel()
	rch := make(chan *plugin.ReattachConfig, 1)
	closeCh := make(chan struct{})
	sc := pc.ServeConfig()
	sc.Logger = hclog.NewNullLogger()
	sc.Test = &plugin.ServeTestConfig{Context: ctx, ReattachConfigCh: rch, CloseCh: closeCh}
	go plugin.Serve(sc)
	var rc *plugin.ReattachConfig
	select {
	case rc = <-rch:
	case <-time.After(5 * time.Second):
		out["attach_err"] = "no reattach configuration"
		return out
	}
	out["served"] = true
	out["line_version"] = rc.ProtocolVersion
	out["line_proto"] = string(rc.Protocol)
	cl := plugin.NewClient(&plugin.ClientConfig{
		HandshakeConfig: plugin.HandshakeConfig{MagicCookieKey: vp.CookieKey, MagicCookieValue: vp.CookieValue},
		Plugins:         vp.Set("grpc", "host"), Logger: hclog.NewNullLogger(), Reattach: rc,
		AllowedProtocols: []plugin.Protocol{plugin.ProtocolNetRPC, plugin.ProtocolGRPC}})
	defer cl.Kill()
	func() {
		defer func() {
			if r := recover(); r != nil {
				out["attach_err"] = fmt.Sprint("panic: ", r)
			}
		}()
		cp, err := cl.Client()
		if err != nil {
			out["attach_err"] = err.Error()
			return
		}
		out["negotiated"] = cl.NegotiatedVersion()
		raw, err := cp.Dispense("v")
		if err != nil {
			out["attach_err"] = "dispense: " + err.Error()
			return
		}
		r, err := raw.(*vp.Stub).Do(vp.Cmd{Op: "tag"})
		if err != nil {
			out["attach_err"] = "tag: " + err.Error()
			return
		}
		if pt, err := strconv.Atoi(r.S); err == nil {
			out["plugin_tag"] = pt
		}
	}()
	cancel()
	select {
	case <-closeCh:
	case <-time.After(3 * time.Second):
	}
	return out
}

func runVersionCase(c verCase, bin string) map[string]interface{} {
	out := map[string]interface{}{}
	protoOf := map[int]string{}
	var sv []int
	for _, s := range c.Served {
		protoOf[s.V] = s.Proto
		sv = append(sv, s.V)
	}
	pc := &vp.PluginCfg{CookieKey: vp.CookieKey, CookieValue: vp.CookieValue, GRPCServer: c.GRPCFactory}
	pc.LegacyVersion, pc.Legacy, pc.Versioned = splitForm(c.ServedForm, sv, func(v int) vp.SetCfg {
		return vp.SetCfg{Proto: protoOf[v], Tag: strconv.Itoa(v)}
	})
	if c.Layer == "testmode" {
		return runVersionTestMode(c, pc)
	}
	if c.Layer == "plugin" {
		pcb, _ := json.Marshal(pc)
		cmd := exec.Command(bin)
		cmd.Env = []string{vp.CfgEnv + "=" + string(pcb), vp.CookieKey + "=" + vp.CookieValue, "PLUGIN_MIN_PORT=10000", "PLUGIN_MAX_PORT=25000"}
		if !c.NoList {
			var toks []string
			for _, t := range c.Tokens {
				toks = append(toks, t.Text)
			}
			cmd.Env = append(cmd.Env, "PLUGIN_PROTOCOL_VERSIONS="+strings.Join(toks, ","))
		}
		stdout, _ := cmd.StdoutPipe()
		if err := cmd.Start(); err != nil {
			out["served"] = false
			out["err"] = err.Error()
			return out
		}
		lineCh := make(chan string, 1)
		go func() {
			r := bufio.NewReader(stdout)
			l, _ := r.ReadString('\n')
			lineCh <- l
		}()
		var line string
		select {
		case line = <-lineCh:
		case <-time.After(10 * time.Second):
		}
		defer func() {
			cmd.Process.Kill()
			cmd.Wait()
		}()
		parts := strings.Split(strings.TrimSpace(line), "|")
		out["line"] = line
		out["plugin_tag"] = -1
		if len(parts) >= 5 {
			v, err := strconv.Atoi(parts[1])
			out["served"] = err == nil
			out["line_version"] = v
			out["line_proto"] = parts[4]
			// which plugin set does it actually serve? a host attaches to the announced address and asks
			var addr net.Addr
			if parts[2] == "unix" {
				addr, _ = net.ResolveUnixAddr("unix", parts[3])
			} else {
				addr, _ = net.ResolveTCPAddr("tcp", parts[3])
			}
			if addr != nil && (parts[4] == "grpc" || parts[4] == "netrpc") {
				rc := plugin.NewClient(&plugin.ClientConfig{
					HandshakeConfig: plugin.HandshakeConfig{MagicCookieKey: vp.CookieKey, MagicCookieValue: vp.CookieValue},
					Plugins:         vp.Set("grpc", "host"), Logger: hclog.NewNullLogger(),
					Reattach:         &plugin.ReattachConfig{Protocol: plugin.Protocol(parts[4]), ProtocolVersion: v, Addr: addr, Pid: cmd.Process.Pid},
					AllowedProtocols: []plugin.Protocol{plugin.ProtocolNetRPC, plugin.ProtocolGRPC}})
				func() {
					// (the plugin is our child: reap it first, a zombie still counts as running for the reattached client)
					defer func() { cmd.Process.Kill(); cmd.Wait(); rc.Kill() }()
					defer func() {
						if r := recover(); r != nil {
							out["attach_err"] = fmt.Sprint("panic: ", r)
						}
					}()
					cp, err := rc.Client()
					if err != nil {
						out["attach_err"] = err.Error()
						return
					}
					raw, err := cp.Dispense("v")
					if err != nil {
						out["attach_err"] = "dispense: " + err.Error()
						return
					}
					r, err := raw.(*vp.Stub).Do(vp.Cmd{Op: "tag"})
					if err != nil {
						out["attach_err"] = "tag: " + err.Error()
						return
					}
					if pt, err := strconv.Atoi(r.S); err == nil {
						out["plugin_tag"] = pt
					}
				}()
			}
		} else {
			out["served"] = false
			out["line_version"] = -1
			out["line_proto"] = "-"
		}
		return out
	}
	// layer "pair"
	hc := &vp.HostCfg{Allowed: []string{"netrpc", "grpc"}}
	hc.LegacyVersion, hc.Legacy, hc.Versioned = splitForm(c.HostForm, c.Host, func(v int) vp.SetCfg {
		return vp.SetCfg{Proto: "grpc", Tag: strconv.Itoa(v)} // the host's sets speak both protocols
	})
	p := vp.NewPair(bin, hc, pc, nil, nil)
	if len(c.FirstServed) > 0 {
		pc0 := *pc
		pc0.Versioned = map[int]vp.SetCfg{}
		pc0.Legacy, pc0.LegacyVersion = nil, 0
		for _, sv := range c.FirstServed {
			pc0.Versioned[sv.V] = vp.SetCfg{Proto: sv.Proto, Tag: strconv.Itoa(sv.V)}
		}
		p0 := vp.NewPair(bin, hc, &pc0, nil, nil)
		if _, _, err := p0.Dispense(); err != nil {
			out["first_err"] = err.Error()
		}
		p0.Client.Kill()
		// the second launch: the config value of the first, a fresh command
		p0.Config.Cmd = p.Cmd
		p.Config = p0.Config
		p.Client = plugin.NewClient(p.Config)
	}
	defer func() { p.Client.Kill() }()
	_, err := p.Client.Start()
	out["start_ok"] = err == nil
	out["negotiated"], out["host_tag"], out["plugin_tag"], out["proto"] = -1, -1, -1, "-"
	out["err_incompatible"], out["pid_gone"] = false, false
	if err != nil {
		out["err"] = err.Error()
		out["err_incompatible"] = strings.Contains(err.Error(), "Incompatible API version")
		pid := p.Pid()
		deadline := time.Now().Add(2 * time.Second)
		for time.Now().Before(deadline) && !vp.PidGone(pid) {
			time.Sleep(10 * time.Millisecond)
		}
		out["pid_gone"] = vp.PidGone(pid)
		return out
	}
	out["negotiated"] = p.Client.NegotiatedVersion()
	out["proto"] = string(p.Client.Protocol())
	stub, _, err := p.Dispense()
	if err != nil {
		out["err"] = "dispense: " + err.Error()
		return out
	}
	ht, _ := strconv.Atoi(stub.HostTag)
	out["host_tag"] = ht
	r, err := stub.Do(vp.Cmd{Op: "tag"})
	if err != nil {
		out["err"] = "tag: " + err.Error()
		return out
	}
	pt, _ := strconv.Atoi(r.S)
	out["plugin_tag"] = pt
	return out
}

func TestVersionCases(t *testing.T) {
	in, outp, bin := os.Getenv("VERIF_IN"), os.Getenv("VERIF_OUT"), os.Getenv("VERIF_VPLUGIN")
	if in == "" || outp == "" || bin == "" {
		t.Skip("VERIF_IN / VERIF_OUT / VERIF_VPLUGIN not set")
	}
	var cases []verCase
	readCases(in, func(raw json.RawMessage) {
		var c verCase
		if err := json.Unmarshal(raw, &c); err != nil {
			fmt.Fprintf(os.Stderr, "DRIVER-ERROR: bad case: %v\n", err)
			os.Exit(2)
		}
		cases = append(cases, c)
	})
	ow := newObsWriter(outp)
	defer ow.close()
	cw := newCaseWatch(ow, 40*time.Second)
	workers := runtime.GOMAXPROCS(0)
	if w, err := strconv.Atoi(os.Getenv("VERIF_WORKERS")); err == nil && w > 0 {
		workers = w
	}
	ch := make(chan verCase)
	var wg sync.WaitGroup
	for i := 0; i < workers; i++ {
		wg.Add(1)
		go func() {
			defer wg.Done()
			for c := range ch {
				if workers == 1 {
					fmt.Printf("SCENARIO %s\n", c.Name)
				}
				cw.begin(c.Name)
				o := runVersionCase(c, bin)
				cw.end(c.Name)
				ow.write(map[string]interface{}{"name": c.Name, "layer": c.Layer, "host": c.Host, "host_form": c.HostForm,
					"served": c.Served, "served_form": c.ServedForm, "grpc_factory": c.GRPCFactory, "tokens": c.Tokens, "no_list": c.NoList, "out": o})
			}
		}()
	}
	for _, c := range cases {
		if c.Layer != "testmode" {
			ch <- c
		}
	}
	close(ch)
	wg.Wait()
	// test-mode cases read the version list from this process's environment: one at a time, after the others
	for _, c := range cases {
		if c.Layer == "testmode" {
			cw.begin(c.Name)
			o := runVersionCase(c, bin)
			cw.end(c.Name)
			ow.write(map[string]interface{}{"name": c.Name, "layer": c.Layer, "host": c.Host, "host_form": c.HostForm,
				"served": c.Served, "served_form": c.ServedForm, "grpc_factory": c.GRPCFactory, "tokens": c.Tokens, "no_list": c.NoList, "out": o})
		}
	}
}
