package drivers

import (
	"bufio"
	"context"
	"encoding/json"
	"fmt"
	"io"
	"os"
	"os/exec"
	"runtime"
	"strings"
	"sync"
	"sync/atomic"
	"time"

	hclog "github.com/hashicorp/go-hclog"
	"github.com/hashicorp/go-plugin/runner"
)

// ScriptedRunner is an in-memory runner.Runner: the "plugin process" is a script that writes to
// the stdout/stderr pipes; Kill and voluntary exit close the pipes like a dying process does.
type ScriptedRunner struct {
	stdoutR *io.PipeReader
	stdoutW *io.PipeWriter
	stderrR *io.PipeReader
	stderrW *io.PipeWriter

	Script   func(r *ScriptedRunner) // run in its own goroutine by Start
	StartErr error
	IDStr    string

	Starts atomic.Int32
	Kills  atomic.Int32
	Cmd    *exec.Cmd
	TmpDir string

	gone     chan struct{}
	goneOnce sync.Once
	Killed   chan struct{} // closed by the first Kill
	killOnce sync.Once
}

func NewScriptedRunner(script func(r *ScriptedRunner)) *ScriptedRunner {
	r := &ScriptedRunner{Script: script, IDStr: "scripted", gone: make(chan struct{}), Killed: make(chan struct{})}
	r.stdoutR, r.stdoutW = io.Pipe()
	r.stderrR, r.stderrW = io.Pipe()
	return r
}

func (r *ScriptedRunner) Start(ctx context.Context) error {
	r.Starts.Add(1)
	if r.StartErr != nil {
		return r.StartErr
	}
	if r.Script != nil {
		go r.Script(r)
	}
	return nil
}

// Exit makes the scripted process go away (pipes closed, Wait returns).
func (r *ScriptedRunner) Exit() {
	r.goneOnce.Do(func() {
		r.stdoutW.Close()
		r.stderrW.Close()
		close(r.gone)
	})
}

func (r *ScriptedRunner) Gone() <-chan struct{} { return r.gone }

func (r *ScriptedRunner) Wait(ctx context.Context) error {
	<-r.gone
	return nil
}

func (r *ScriptedRunner) Kill(ctx context.Context) error {
	r.Kills.Add(1)
	r.killOnce.Do(func() { close(r.Killed) })
	r.Exit()
	return nil
}

func (r *ScriptedRunner) Stdout() io.ReadCloser { return r.stdoutR }
func (r *ScriptedRunner) Stderr() io.ReadCloser { return r.stderrR }
func (r *ScriptedRunner) StdoutW() io.Writer    { return r.stdoutW }
func (r *ScriptedRunner) StderrW() io.Writer    { return r.stderrW }
func (r *ScriptedRunner) Name() string          { return "scripted-plugin" }
func (r *ScriptedRunner) ID() string            { return r.IDStr }
func (r *ScriptedRunner) Diagnose(ctx context.Context) string {
	return ""
}
func (r *ScriptedRunner) PluginToHost(n, a string) (string, string, error) { return n, a, nil }
func (r *ScriptedRunner) HostToPlugin(n, a string) (string, string, error) { return n, a, nil }

var _ runner.Runner = (*ScriptedRunner)(nil)

// RunnerFunc returns a ClientConfig.RunnerFunc that hands out r (recording cmd and tmpDir).
func (r *ScriptedRunner) RunnerFunc() func(l hclog.Logger, cmd *exec.Cmd, tmpDir string) (runner.Runner, error) {
	return func(l hclog.Logger, cmd *exec.Cmd, tmpDir string) (runner.Runner, error) {
		r.Cmd = cmd
		r.TmpDir = tmpDir
		return r, nil
	}
}

// ---- NDJSON helpers shared by the case-table drivers

func readCases(path string, each func(raw json.RawMessage)) {
	f, err := os.Open(path)
	if err != nil {
		fmt.Fprintf(os.Stderr, "DRIVER-ERROR: %v\n", err)
		os.Exit(2)
	}
	defer f.Close()
	sc := bufio.NewScanner(f)
	sc.Buffer(make([]byte, 1<<20), 1<<26)
	for sc.Scan() {
		line := strings.TrimSpace(sc.Text())
		if line == "" {
			continue
		}
		each(json.RawMessage(line))
	}
}

type obsWriter struct {
	mu sync.Mutex
	f  *os.File
	w  *bufio.Writer
}

func newObsWriter(path string) *obsWriter {
	f, err := os.OpenFile(path, os.O_CREATE|os.O_APPEND|os.O_WRONLY, 0o644)
	if err != nil {
		fmt.Fprintf(os.Stderr, "DRIVER-ERROR: %v\n", err)
		os.Exit(2)
	}
	return &obsWriter{f: f, w: bufio.NewWriter(f)}
}

func (o *obsWriter) write(v interface{}) {
	b, _ := json.Marshal(v)
	o.mu.Lock()
	o.w.Write(b)
	o.w.WriteByte('\n')
	o.w.Flush()
	o.mu.Unlock()
}

func (o *obsWriter) close() { o.mu.Lock(); o.w.Flush(); o.f.Close(); o.mu.Unlock() }

// caseWatch is a per-process watchdog for case-table drivers: a case that does not finish in time
// is reported as hung (with a goroutine dump) and the process exits with status 3, so that the
// caller can restart it on the remaining cases.
type caseWatch struct {
	mu      sync.Mutex
	started map[string]time.Time
	ow      *obsWriter
	limit   time.Duration
}

func newCaseWatch(ow *obsWriter, limit time.Duration) *caseWatch {
	if s := os.Getenv("VERIF_CASE_TIMEOUT_S"); s != "" {
		var n int
		fmt.Sscanf(s, "%d", &n)
		if n > 0 {
			limit = time.Duration(n) * time.Second
		}
	}
	w := &caseWatch{started: map[string]time.Time{}, ow: ow, limit: limit}
	go func() {
		for {
			time.Sleep(250 * time.Millisecond)
			w.mu.Lock()
			var hung []string
			for n, t := range w.started {
				if time.Since(t) > w.limit {
					hung = append(hung, n)
				}
			}
			w.mu.Unlock()
			if len(hung) > 0 {
				buf := make([]byte, 1<<20)
				n := runtime.Stack(buf, true)
				for _, h := range hung {
					ow.write(map[string]interface{}{"name": h, "hang": true, "limit_s": w.limit.Seconds(), "dump": string(buf[:n])})
				}
				fmt.Printf("HANG %v\n", hung)
				os.Exit(3)
			}
		}
	}()
	return w
}

func (w *caseWatch) begin(name string) { w.mu.Lock(); w.started[name] = time.Now(); w.mu.Unlock() }
func (w *caseWatch) end(name string)   { w.mu.Lock(); delete(w.started, name); w.mu.Unlock() }
