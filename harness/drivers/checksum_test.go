package drivers

// Driver for C13: SecureConfig runs the binary only if its checksum matches.

import (
	"crypto/md5"
	"crypto/sha1"
	"crypto/sha256"
	"crypto/sha512"
	"encoding/json"
	"errors"
	"fmt"
	"github.com/hashicorp/go-plugin/runner"
	"hash"
	"os"
	"os/exec"
	"path/filepath"
	"runtime"
	"strconv"
	"sync"
	"sync/atomic"
	"testing"
	"time"

	hclog "github.com/hashicorp/go-hclog"
	plugin "github.com/hashicorp/go-plugin"
)

type ckCase struct {
	Name     string `json:"name"`
	Hash     string `json:"hash"`
	HashNil  bool   `json:"hash_nil"`
	Class    string `json:"class"` // exact, empty, prefix, extended, bitflip, other
	Pos      int    `json:"pos"`   // bit position / prefix length / extension length
	FileSize int    `json:"file_size"`
	FileSeed int    `json:"file_seed"`
	History  string `json:"history"` // "", "tamper-after-ok" (same SecureConfig reused after the file changed in place), "second-client"
	Launch   string `json:"launch"`  // "cmd" (default) or "runner": SecureConfig together with a RunnerFunc
}

func newHash(name string) hash.Hash {
	switch name {
	case "sha512":
		return sha512.New()
	case "sha1":
		return sha1.New()
	case "md5":
		return md5.New()
	}
	return sha256.New()
}

func scriptBody(marker string, seed, size int) []byte {
	head := fmt.Sprintf("#!/bin/sh\necho launched >> %s\nexec sleep 30\n# ", marker)
	b := []byte(head)
	for i := 0; len(b) < len(head)+size; i++ {
		b = append(b, byte('a'+(seed*7+i*13)%26))
	}
	return append(b, '\n')
}

func classifyErr(err error) string {
	switch {
	case err == nil:
		return "launch"
	case errors.Is(err, plugin.ErrChecksumsDoNotMatch):
		return "ErrMismatch"
	case errors.Is(err, plugin.ErrSecureConfigNoChecksum) || (err != nil && contains(err.Error(), plugin.ErrSecureConfigNoChecksum.Error())):
		return "ErrNoChecksum"
	case errors.Is(err, plugin.ErrSecureConfigNoHash) || (err != nil && contains(err.Error(), plugin.ErrSecureConfigNoHash.Error())):
		return "ErrNoHash"
	}
	return "other:" + err.Error()
}

func contains(s, sub string) bool {
	for i := 0; i+len(sub) <= len(s); i++ {
		if s[i:i+len(sub)] == sub {
			return true
		}
	}
	return false
}

func startWith(path string, sc *plugin.SecureConfig) (*plugin.Client, error) {
	cl := plugin.NewClient(&plugin.ClientConfig{
		HandshakeConfig: plugin.HandshakeConfig{ProtocolVersion: 1, MagicCookieKey: "K", MagicCookieValue: "V"},
		Plugins:         plugin.PluginSet{},
		Cmd:             exec.Command(path),
		SecureConfig:    sc,
		StartTimeout:    400 * time.Millisecond,
		Logger:          hclog.NewNullLogger(),
	})
	_, err := cl.Start()
	return cl, err
}

// gatedHash parks the first caller of Sum until released (to overlap two checks on one shared SecureConfig)
type gatedHash struct {
	hash.Hash
	n       atomic.Int32
	parked  chan struct{}
	release chan struct{}
}

func (g *gatedHash) Sum(b []byte) []byte {
	if g.n.Add(1) == 1 {
		close(g.parked)
		<-g.release
	}
	return g.Hash.Sum(b)
}

// runSharedOverlapCase: two clients with different command files share one SecureConfig (configured with the
// checksum of the genuine file) and their checks overlap: the tampered file's check has read its file and waits
// in Sum while the genuine file's check runs from start to end. The tampered file must not be launched.
func runSharedOverlapCase(c ckCase, dir string) map[string]interface{} {
	out := map[string]interface{}{"class_effective": "other", "other_launched": false}
	good := filepath.Join(dir, c.Name+".good.sh")
	bad := filepath.Join(dir, c.Name+".bad.sh")
	goodMarker := filepath.Join(dir, c.Name+".good.marker")
	badMarker := filepath.Join(dir, c.Name+".marker")
	body := scriptBody(goodMarker, c.FileSeed, c.FileSize)
	os.WriteFile(good, body, 0o755)
	os.WriteFile(bad, scriptBody(badMarker, c.FileSeed+1, c.FileSize), 0o755)
	h := newHash(c.Hash)
	h.Write(body)
	gh := &gatedHash{Hash: newHash(c.Hash), parked: make(chan struct{}), release: make(chan struct{})}
	sc := &plugin.SecureConfig{Checksum: h.Sum(nil), Hash: gh}
	type res struct {
		cl  *plugin.Client
		err error
	}
	badDone := make(chan res, 1)
	go func() {
		cl, err := startWith(bad, sc)
		badDone <- res{cl, err}
	}()
	select {
	case <-gh.parked:
	case <-time.After(3 * time.Second):
	}
	gcl, _ := startWith(good, sc)
	close(gh.release)
	r := <-badDone
	rs := classifyErr(r.err)
	if len(rs) > 6 && rs[:6] == "other:" {
		out["late_err"] = rs
		rs = "launch"
	}
	out["result"] = rs
	time.Sleep(200 * time.Millisecond)
	_, merr := os.Stat(badMarker)
	out["launched"] = merr == nil
	out["launched_late"] = merr == nil
	r.cl.Kill()
	gcl.Kill()
	for _, f := range []string{good, bad, goodMarker, badMarker} {
		os.Remove(f)
	}
	return out
}

func runChecksumCase(c ckCase, dir string) map[string]interface{} {
	if c.History == "shared-overlap" {
		return runSharedOverlapCase(c, dir)
	}
	out := map[string]interface{}{"other_launched": false}
	path := filepath.Join(dir, c.Name+".sh")
	marker := filepath.Join(dir, c.Name+".marker")
	body := scriptBody(marker, c.FileSeed, c.FileSize)
	os.WriteFile(path, body, 0o755)
	h := newHash(c.Hash)
	h.Write(body)
	sum := h.Sum(nil)
	class := c.Class
	var want []byte
	switch c.Class {
	case "exact":
		want = append([]byte(nil), sum...)
	case "empty":
		want = []byte{}
		if c.Pos%2 == 1 {
			want = nil
		}
	case "prefix":
		n := 1 + c.Pos%(len(sum)-1)
		want = append([]byte(nil), sum[:n]...)
	case "extended":
		want = append(append([]byte(nil), sum...), make([]byte, 1+c.Pos%4)...)
	case "bitflip":
		want = append([]byte(nil), sum...)
		bit := c.Pos % (len(sum) * 8)
		want[bit/8] ^= 1 << uint(bit%8)
	default:
		want = append([]byte(nil), sum...)
		for i := range want {
			want[i] ^= 0x5a
		}
	}
	sc := &plugin.SecureConfig{Checksum: want, Hash: newHash(c.Hash)}
	if c.HashNil {
		sc.Hash = nil
	}
	if c.History == "tamper-after-ok" {
		// first use: an exact checksum on the original file (launches); then the file is changed in
		// place (same length, same mtime) and the SAME SecureConfig is used again
		sc.Checksum = append([]byte(nil), sum...)
		cl0, err0 := startWith(path, sc)
		_ = err0
		cl0.Kill()
		os.Remove(marker)
		st, _ := os.Stat(path)
		tampered := append([]byte(nil), body...)
		tampered[len(tampered)-2] ^= 1
		f, _ := os.OpenFile(path, os.O_WRONLY, 0)
		f.Write(tampered)
		f.Close()
		os.Chtimes(path, st.ModTime(), st.ModTime())
		if sc.Hash != nil {
			sc.Hash = newHash(c.Hash)
		}
		class = "other" // the configured checksum no longer relates to the file's digest
	}
	out["class_effective"] = class
	if c.Launch == "runner" {
		// a custom runner that would run the file: it must never be asked to
		var called int32
		cl := plugin.NewClient(&plugin.ClientConfig{
			HandshakeConfig: plugin.HandshakeConfig{ProtocolVersion: 1, MagicCookieKey: "K", MagicCookieValue: "V"},
			Plugins:         plugin.PluginSet{}, SecureConfig: sc, StartTimeout: 400 * time.Millisecond, Logger: hclog.NewNullLogger(),
			RunnerFunc: func(l hclog.Logger, cmd *exec.Cmd, tmpDir string) (runner.Runner, error) {
				atomic.AddInt32(&called, 1)
				os.WriteFile(marker, []byte("runner asked to launch\n"), 0o644)
				return nil, errors.New("runner: not launching in this test")
			},
		})
		_, err := cl.Start()
		r := classifyErr(err)
		if atomic.LoadInt32(&called) > 0 {
			r = "launch"
		} else if len(r) > 6 && r[:6] == "other:" {
			r = "ErrNoFile"
			out["late_err"] = classifyErr(err)
		}
		out["result"] = r
		_, merr := os.Stat(marker)
		out["launched"] = merr == nil
		if r != "launch" {
			// the same client asked again: a failed check is not forgotten
			cl.Start()
			cl.Client()
			_, merr = os.Stat(marker)
		}
		out["launched_late"] = merr == nil
		cl.Kill()
		os.Remove(path)
		os.Remove(marker)
		return out
	}
	cl, err := startWith(path, sc)
	out["result"] = classifyErr(err)
	if err != nil && classifyErr(err) == "launch" {
		out["result"] = "launch"
	}
	// Start fails later for unrelated reasons (the script is no plugin) when the gate let it pass:
	// what matters is whether the gate's own error came back
	if err != nil {
		r := classifyErr(err)
		if len(r) > 6 && r[:6] == "other:" {
			out["result"] = "launch" // passed the gate, failed the handshake
			out["late_err"] = r
		}
	}
	_, merr := os.Stat(marker)
	out["launched"] = merr == nil
	if out["result"] != "launch" {
		// the same client asked again: a failed check is not forgotten
		cl.Start()
		cl.Client()
	}
	time.Sleep(200 * time.Millisecond)
	_, merr = os.Stat(marker)
	out["launched_late"] = merr == nil
	cl.Kill()
	os.Remove(path)
	os.Remove(marker)
	return out
}

func TestChecksumCases(t *testing.T) {
	in, outp := os.Getenv("VERIF_IN"), os.Getenv("VERIF_OUT")
	if in == "" || outp == "" {
		t.Skip("VERIF_IN / VERIF_OUT not set")
	}
	var cases []ckCase
	readCases(in, func(raw json.RawMessage) {
		var c ckCase
		if err := json.Unmarshal(raw, &c); err != nil {
			fmt.Fprintf(os.Stderr, "DRIVER-ERROR: bad case: %v\n", err)
			os.Exit(2)
		}
		cases = append(cases, c)
	})
	dir := filepath.Join(filepath.Dir(outp), "cktmp")
	os.MkdirAll(dir, 0o755)
	ow := newObsWriter(outp)
	defer ow.close()
	cw := newCaseWatch(ow, 40*time.Second)
	workers := runtime.GOMAXPROCS(0)
	if w, err := strconv.Atoi(os.Getenv("VERIF_WORKERS")); err == nil && w > 0 {
		workers = w
	}
	ch := make(chan ckCase)
	var wg sync.WaitGroup
	for i := 0; i < workers; i++ {
		wg.Add(1)
		go func() {
			defer wg.Done()
			for c := range ch {
				if workers == 1 {
					fmt.Printf("SCENARIO %s\n", c.Name)
				}
				cw.begin(c.Name)
				o := runChecksumCase(c, dir)
				cw.end(c.Name)
				ow.write(map[string]interface{}{"name": c.Name, "hash": c.Hash, "hash_nil": c.HashNil, "class": o["class_effective"], "class_given": c.Class,
					"pos": c.Pos, "history": c.History, "file_size": c.FileSize, "launch": launchOf(c), "out": o})
			}
		}()
	}
	var rel []ckCase
	for _, c := range cases {
		if c.Launch == "relpath" || c.Launch == "reldir" {
			rel = append(rel, c)
			continue
		}
		ch <- c
	}
	close(ch)
	wg.Wait()
	// cases that depend on the host's working directory and PATH (process-wide): alone, one after the other
	for _, c := range rel {
		fmt.Printf("SCENARIO %s\n", c.Name)
		cw.begin(c.Name)
		o := runRelPathCase(c, dir)
		cw.end(c.Name)
		ow.write(map[string]interface{}{"name": c.Name, "hash": c.Hash, "hash_nil": c.HashNil, "class": o["class_effective"], "class_given": c.Class,
			"pos": c.Pos, "history": c.History, "file_size": c.FileSize, "launch": "cmd", "out": o})
	}
}

// runRelPathCase: the command is a bare relative name. The file of that name in the host's working
// directory is the one whose digest is checked; another executable of the same name sits in a PATH
// directory. What gets executed must be the file that was checked.
func runRelPathCase(c ckCase, dir string) map[string]interface{} {
	out := map[string]interface{}{"class_effective": c.Class}
	work := filepath.Join(dir, c.Name+".cwd")
	evil := filepath.Join(dir, c.Name+".path")
	os.MkdirAll(work, 0o755)
	os.MkdirAll(evil, 0o755)
	defer os.RemoveAll(work)
	defer os.RemoveAll(evil)
	name := "plug-" + c.Name
	marker := filepath.Join(dir, c.Name+".marker")
	otherMarker := filepath.Join(dir, c.Name+".other.marker")
	body := scriptBody(marker, c.FileSeed, c.FileSize)
	os.WriteFile(filepath.Join(work, name), body, 0o755)
	os.WriteFile(filepath.Join(evil, name), scriptBody(otherMarker, c.FileSeed+1, c.FileSize), 0o755)
	h := newHash(c.Hash)
	h.Write(body)
	sum := h.Sum(nil)
	want := append([]byte(nil), sum...)
	if c.Class != "exact" {
		want[0] ^= 0x5a
		out["class_effective"] = "other"
	}
	oldwd, _ := os.Getwd()
	oldPath := os.Getenv("PATH")
	os.Chdir(work)
	os.Setenv("PATH", evil+string(os.PathListSeparator)+oldPath)
	defer func() { os.Chdir(oldwd); os.Setenv("PATH", oldPath) }()
	command := &exec.Cmd{Path: name, Args: []string{name}}
	if c.Launch == "reldir" {
		// a relative path with a directory part and a working directory for the command: os/exec runs the path
		// relative to Cmd.Dir. The file there is the file at the command path (it writes the marker); the file of
		// the same relative name under the host's own working directory is the other one. Class "exact": the
		// checksum of the file in Cmd.Dir; class "other": the checksum of the one in the host's directory.
		os.WriteFile(filepath.Join(evil, name), body, 0o755)
		decoy := scriptBody(otherMarker, c.FileSeed+1, c.FileSize)
		os.WriteFile(filepath.Join(work, name), decoy, 0o755)
		if c.Class != "exact" {
			hd := newHash(c.Hash)
			hd.Write(decoy)
			want = hd.Sum(nil)
		}
		command = &exec.Cmd{Path: "./" + name, Args: []string{name}, Dir: evil}
		os.Setenv("PATH", oldPath)
	}
	cl := plugin.NewClient(&plugin.ClientConfig{
		HandshakeConfig: plugin.HandshakeConfig{ProtocolVersion: 1, MagicCookieKey: "K", MagicCookieValue: "V"},
		Plugins:         plugin.PluginSet{}, Cmd: command,
		SecureConfig: &plugin.SecureConfig{Checksum: want, Hash: newHash(c.Hash)}, StartTimeout: 400 * time.Millisecond, Logger: hclog.NewNullLogger(),
	})
	_, err := cl.Start()
	r := classifyErr(err)
	if len(r) > 6 && r[:6] == "other:" {
		out["late_err"] = r
		r = "launch" // passed the gate; failed later (the script is no plugin, or it could not be executed)
	}
	out["result"] = r
	time.Sleep(200 * time.Millisecond)
	_, merr := os.Stat(marker)
	_, oerr := os.Stat(otherMarker)
	out["launched"] = merr == nil
	out["launched_late"] = merr == nil
	out["other_launched"] = oerr == nil
	cl.Kill()
	os.Remove(marker)
	os.Remove(otherMarker)
	return out
}

func launchOf(c ckCase) string {
	if c.Launch == "" {
		return "cmd"
	}
	return c.Launch
}
