package drivers

// Driver for C15: histories of start / reattach / set / get / kill / reattach-after-death on real
// plugin processes, and on in-process test-mode servers (Kill must not stop them; cancel must).

import (
	"context"
	"encoding/json"
	"errors"
	"fmt"
	"net"
	"os"
	"path/filepath"
	"runtime"
	"strconv"
	"sync"
	"syscall"
	"testing"
	"time"

	hclog "github.com/hashicorp/go-hclog"
	plugin "github.com/hashicorp/go-plugin"
	"github.com/hashicorp/go-plugin/verifharness/vp"
)

type raOp struct {
	Op  string `json:"op"`
	C   string `json:"c"`
	V   int    `json:"v"`
	Src string `json:"src"` // Reattach: take the configuration from this (already reattached) client instead of the original
}
type raCase struct {
	Name     string `json:"name"`
	TestMode bool   `json:"test_mode"`
	Proto    string `json:"proto"`
	Ops      []raOp `json:"ops"`
	// Linger: the plugin's main() hangs after Serve has returned
	Linger bool `json:"linger,omitempty"`
	// TLS "static": plugin and every client use one shared certificate (process mode)
	TLS string `json:"tls,omitempty"`
}

func runReattachCase(c raCase, bin, tmp string) []map[string]interface{} {
	var evs []map[string]interface{}
	tag := c.Name
	var pair *vp.Pair
	var cfg *plugin.ReattachConfig
	var pid int
	var cancel context.CancelFunc
	closeCh := make(chan struct{})
	clients := map[string]*plugin.Client{}
	stubs := map[string]*vp.Stub{}
	failed := map[string]*plugin.Client{} // clients whose reattach found nothing
	var tlsCert, tlsKey string
	instance := ""
	alive := func() bool {
		if c.TestMode {
			if cancel == nil {
				return false
			}
			select {
			case <-closeCh:
				return false
			default:
				return true
			}
		}
		if pid == 0 {
			return false
		}
		st := vp.PidState(pid)
		return st != "" && st != "Z"
	}
	hostSet := func() plugin.PluginSet { return plugin.PluginSet{"v": &vp.VPlugin{Name: "v", Tag: tag}} }
	do := func(st *vp.Stub, cmd vp.Cmd) (vp.Res, error) {
		ctx, cf := context.WithTimeout(context.Background(), 5*time.Second)
		defer cf()
		return st.DoCtx(ctx, cmd)
	}
	for _, op := range c.Ops {
		ev := map[string]interface{}{"ev": "ret", "op": op.Op, "c": op.C, "v": op.V, "same_instance": true}
		res := interface{}("?")
		switch op.Op {
		case "Start":
			if c.TestMode {
				var ctx context.Context
				ctx, cancel = context.WithCancel(context.Background())
				rch := make(chan *plugin.ReattachConfig, 1)
				sc := &plugin.ServeConfig{HandshakeConfig: plugin.HandshakeConfig{ProtocolVersion: 1, MagicCookieKey: vp.CookieKey, MagicCookieValue: vp.CookieValue},
					Plugins: vp.Set(c.Proto, tag), Logger: hclog.NewNullLogger(),
					Test: &plugin.ServeTestConfig{Context: ctx, ReattachConfigCh: rch, CloseCh: closeCh}}
				if c.Proto == "grpc" {
					sc.GRPCServer = plugin.DefaultGRPCServer
				}
				go plugin.Serve(sc)
				select {
				case cfg = <-rch:
					res = "ok"
				case <-time.After(5 * time.Second):
					res = "err:no reattach config"
				}
			} else {
				pc := &vp.PluginCfg{LegacyVersion: 1, Legacy: &vp.SetCfg{Proto: c.Proto, Tag: tag}, GRPCServer: c.Proto == "grpc"}
				if c.Linger {
					pc.AfterServe = "hang"
				}
				hc := &vp.HostCfg{LegacyVersion: 1, Legacy: &vp.SetCfg{Proto: "grpc", Tag: tag}, Allowed: []string{"netrpc", "grpc"}, TempDir: tmp}
				if c.TLS == "static" {
					tlsCert, tlsKey, _ = vp.StaticTLS()
					pc.TLS, pc.CertPEM, pc.KeyPEM = "static", tlsCert, tlsKey
					hc.TLS = "static"
				}
				pair = vp.NewPair(bin, hc, pc, []string{"TMPDIR=" + tmp}, nil)
				st, _, err := pair.Dispense()
				if err != nil {
					res = "err:" + err.Error()
				} else {
					res = "ok"
					clients["c1"], stubs["c1"] = pair.Client, st
					pid = pair.Pid()
					cfg = pair.Client.ReattachConfig()
					if r, err := do(st, vp.Cmd{Op: "instance"}); err == nil {
						instance = r.S
					}
				}
			}
		case "Reattach":
			if cfg == nil {
				res = "err:no config"
				break
			}
			cc := *cfg
			if src, ok := clients[op.Src]; ok && op.Src != "c1" {
				// a second-generation configuration: what a reattached client reports about itself
				if rc := src.ReattachConfig(); rc != nil {
					cc = *rc
					ev["src"] = op.Src
				}
			}
			rcfg := &plugin.ClientConfig{HandshakeConfig: plugin.HandshakeConfig{ProtocolVersion: 1, MagicCookieKey: vp.CookieKey, MagicCookieValue: vp.CookieValue},
				Plugins: hostSet(), Reattach: &cc, Logger: hclog.NewNullLogger(), AllowedProtocols: []plugin.Protocol{plugin.ProtocolNetRPC, plugin.ProtocolGRPC}}
			if tlsCert != "" {
				rcfg.TLSConfig, _ = vp.TLSFromPEM(tlsCert, tlsKey)
			}
			cl := plugin.NewClient(rcfg)
			cp, err := cl.Client()
			if err != nil {
				if errors.Is(err, plugin.ErrProcessNotFound) {
					res = "notfound"
					failed[op.C] = cl
				} else {
					res = "err:" + err.Error()
				}
				break
			}
			if string(cl.Protocol()) != c.Proto {
				res = "err:protocol " + string(cl.Protocol())
				break
			}
			raw, err := cp.Dispense("v")
			if err != nil {
				res = "err:dispense " + err.Error()
				break
			}
			clients[op.C], stubs[op.C] = cl, raw.(*vp.Stub)
			res = "ok"
		case "Set":
			if _, err := do(stubs[op.C], vp.Cmd{Op: "put", S: strconv.Itoa(op.V)}); err != nil {
				res = "err"
			} else {
				res = "ok"
			}
		case "Get":
			r, err := do(stubs[op.C], vp.Cmd{Op: "get"})
			if err != nil {
				res = -1
			} else {
				n, _ := strconv.Atoi(r.S)
				res = n
				if ri, err := do(stubs[op.C], vp.Cmd{Op: "instance"}); err == nil {
					if instance == "" {
						instance = ri.S
					}
					ev["same_instance"] = ri.S == instance
				}
			}
		case "Kill":
			clients[op.C].Kill()
			res = "done"
			time.Sleep(150 * time.Millisecond)
		case "Again":
			// the same client value whose reattach found nothing is asked again
			cl := failed[op.C]
			if cl == nil {
				res = "err:no failed client"
				break
			}
			if _, err := cl.Start(); err == nil {
				res = "ok"
			} else if errors.Is(err, plugin.ErrProcessNotFound) {
				res = "notfound"
			} else {
				res = "err:" + err.Error()
			}
		case "Ghost":
			// another host connects and vanishes without a shutdown request: the raw connection is closed under
			// a protocol client that never says goodbye
			if cfg != nil {
				conn, err := net.DialTimeout(cfg.Addr.Network(), cfg.Addr.String(), 2*time.Second)
				if err == nil {
					if cfg.Protocol == plugin.ProtocolNetRPC {
						if rc, err := plugin.NewRPCClient(conn, hostSet()); err == nil {
							rc.Ping()
						}
					}
					time.Sleep(20 * time.Millisecond)
					conn.Close()
					time.Sleep(150 * time.Millisecond)
				}
			}
			res = "gone"
		case "Freeze":
			if pid != 0 {
				syscall.Kill(pid, syscall.SIGSTOP)
				time.Sleep(30 * time.Millisecond)
			}
			res = "stopped"
		case "Crash":
			// the plugin dies without any shutdown; its socket file stays behind
			if pid != 0 {
				syscall.Kill(pid, syscall.SIGKILL)
				// Gone means reaped by its parent (the launching client's wait goroutine): a zombie
				// thread-group leader can still have threads that keep the listening socket open.
				for i := 0; i < 300 && (alive() || (clients["c1"] != nil && !clients["c1"].Exited())); i++ {
					time.Sleep(10 * time.Millisecond)
				}
			}
			res = "killed"
		case "Cancel":
			cancel()
			select {
			case <-closeCh:
				res = "stopped"
			case <-time.After(5 * time.Second):
				res = "err:still serving"
			}
		}
		ev["res"] = res
		ev["alive"] = alive()
		evs = append(evs, ev)
	}
	// cleanup
	if pid != 0 {
		syscall.Kill(pid, syscall.SIGCONT)
	}
	for _, cl := range clients {
		cl.Kill()
	}
	if cancel != nil {
		cancel()
	}
	if pid != 0 && !vp.PidGone(pid) {
		if pr, err := os.FindProcess(pid); err == nil {
			pr.Kill()
		}
	}
	return evs
}

func TestReattachCases(t *testing.T) {
	in, outp, bin := os.Getenv("VERIF_IN"), os.Getenv("VERIF_OUT"), os.Getenv("VERIF_VPLUGIN")
	if in == "" || outp == "" || bin == "" {
		t.Skip("VERIF_IN / VERIF_OUT / VERIF_VPLUGIN not set")
	}
	var cases []raCase
	readCases(in, func(raw json.RawMessage) {
		var c raCase
		if err := json.Unmarshal(raw, &c); err != nil {
			fmt.Fprintf(os.Stderr, "DRIVER-ERROR: bad case: %v\n", err)
			os.Exit(2)
		}
		cases = append(cases, c)
	})
	tmp := filepath.Join(filepath.Dir(outp), "ratmp")
	os.MkdirAll(tmp, 0o755)
	os.Setenv("TMPDIR", tmp)
	ow := newObsWriter(outp)
	defer ow.close()
	cw := newCaseWatch(ow, 90*time.Second)
	workers := runtime.GOMAXPROCS(0)
	if w, err := strconv.Atoi(os.Getenv("VERIF_WORKERS")); err == nil && w > 0 {
		workers = w
	}
	ch := make(chan raCase)
	var wg sync.WaitGroup
	for i := 0; i < workers; i++ {
		wg.Add(1)
		go func() {
			defer wg.Done()
			for c := range ch {
				if workers == 1 {
					fmt.Printf("SCENARIO %s\n", c.Name)
				}
				cw.begin(c.Name)
				evs := runReattachCase(c, bin, tmp)
				cw.end(c.Name)
				ow.write(map[string]interface{}{"name": c.Name, "test_mode": c.TestMode, "proto": c.Proto, "ops": c.Ops, "events": evs})
			}
		}()
	}
	for _, c := range cases {
		ch <- c
	}
	close(ch)
	wg.Wait()
}
