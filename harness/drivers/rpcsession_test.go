package drivers

// Driver for the net/rpc session layer (RPCSession.tla; C06's last clause, the net/rpc parts of C11 and C20):
// one real plugin.RPCServer serving a Unix listener, up to three real RPCClients connected to it at once,
// goroutines dispensing plugins by name concurrently, the server side's own code taking ids from the same
// brokers, numbered records written to the server's Stdout / Stderr pipes, clients closing in a given order.
// Everything observable is logged through one recorder (one sequence number under one mutex); TLC validates the
// log against TraceRPCSession.

import (
	"encoding/json"
	"errors"
	"fmt"
	"io"
	"net"
	"net/rpc"
	"os"
	"path/filepath"
	"strconv"
	"sync"
	"testing"
	"time"

	plugin "github.com/hashicorp/go-plugin"
	"github.com/hashicorp/go-plugin/verifharness/sched"
)

type rsCall struct {
	K       int    `json:"k"`
	Conn    int    `json:"conn"`
	Name    string `json:"name"`
	DelayMs int    `json:"delay_ms"`
}

type rsCase struct {
	Name   string   `json:"name"`
	Conns  int      `json:"conns"`
	Calls  []rsCall `json:"calls"`
	AppIds int      `json:"app_ids"`
	Tokens int      `json:"tokens"` // records per stdio stream
	// HoldNth/HoldMs: the n-th goroutine reaching rpc.dispense.id (an id in hand, not yet replied) sleeps there
	HoldNth int   `json:"hold_nth"`
	HoldMs  int   `json:"hold_ms"`
	Closes  []int `json:"closes"` // connections in the order their clients are closed
	// CloseEarly: the first connection of Closes is closed while calls are still being made
	CloseEarly bool `json:"close_early"`
	// CloseAtMs (same length as Closes, optional): each close is made at that time, whatever else is going on
	// (cases replayed from behaviours of the specification)
	CloseAtMs []int `json:"close_at_ms,omitempty"`
}

type rsImpl struct {
	name string
	inst int
}

func (i *rsImpl) Who(_ int, out *string) error {
	*out = i.name + "/" + strconv.Itoa(i.inst)
	return nil
}

// rsPlugin is one named plugin of the server's (and the client's) set.
type rsPlugin struct {
	name string
	env  *rsEnv
}

type rsEnv struct {
	rec     *sched.Recorder
	mu      sync.Mutex
	inst    int
	brokers []*plugin.MuxBroker // server-side brokers seen by Server(), for the application's NextId calls
}

func (p *rsPlugin) Server(b *plugin.MuxBroker) (interface{}, error) {
	p.env.mu.Lock()
	defer p.env.mu.Unlock()
	if p.name == "bad" {
		p.env.rec.Log("srvfail", b, 0, 0, map[string]interface{}{"name": p.name})
		return nil, errors.New("this plugin cannot be served")
	}
	p.env.inst++
	p.env.rec.Log("srvnew", b, int64(p.env.inst), 0, map[string]interface{}{"name": p.name})
	known := false
	for _, x := range p.env.brokers {
		known = known || x == b
	}
	if !known {
		p.env.brokers = append(p.env.brokers, b)
	}
	return &rsImpl{name: p.name, inst: p.env.inst}, nil
}

func (p *rsPlugin) Client(b *plugin.MuxBroker, c *rpc.Client) (interface{}, error) { return c, nil }

// recWriter is a host's sync writer: it cuts what it receives into 16-byte records and logs each
type recWriter struct {
	rec    *sched.Recorder
	conn   int
	stream string
	buf    []byte
	count  *int64
	mu     *sync.Mutex
}

func (w *recWriter) Write(p []byte) (int, error) {
	w.buf = append(w.buf, p...)
	for len(w.buf) >= 16 {
		r := w.buf[:16]
		ts := "?"
		switch r[0] {
		case 'o':
			ts = "out"
		case 'e':
			ts = "err"
		}
		n, err := strconv.Atoi(string(r[1:15]))
		if err != nil || r[15] != '\n' {
			ts, n = "?", -1
		}
		w.rec.Log("got", "", int64(w.conn), 0, map[string]interface{}{"c": w.conn, "s": w.stream, "ts": ts, "tn": n})
		w.mu.Lock()
		*w.count++
		w.mu.Unlock()
		w.buf = w.buf[16:]
	}
	return len(p), nil
}

func runRPCSessionCase(c rsCase, tmp string) map[string]interface{} {
	out := map[string]interface{}{"setup_ok": false, "panic": false}
	rec := sched.NewRecorder()
	env := &rsEnv{rec: rec}
	var holdMu sync.Mutex
	nthID := 0
	plugin.VerifSetHook(func(ev string, obj interface{}, a, b int64) {
		switch ev {
		case "rpc.dispense.id":
			rec.Log("id", obj, a, 0, map[string]interface{}{"id": a})
			holdMu.Lock()
			nthID++
			hold := c.HoldNth > 0 && nthID == c.HoldNth
			holdMu.Unlock()
			if hold {
				time.Sleep(time.Duration(c.HoldMs) * time.Millisecond)
			}
		case "rpc.quit":
			rec.Log("quit", "", 0, 0, nil)
		}
	})
	defer plugin.VerifSetHook(nil)

	serverSet := map[string]plugin.Plugin{}
	clientSet := map[string]plugin.Plugin{}
	for _, n := range []string{"a", "b", "c", "bad", "zz"} {
		serverSet[n] = &rsPlugin{name: n, env: env}
	}
	for _, n := range []string{"a", "b", "c", "bad", "so"} {
		clientSet[n] = &rsPlugin{name: n, env: env}
	}
	outR, outW := io.Pipe()
	errR, errW := io.Pipe()
	doneCh := make(chan struct{})
	srv := &plugin.RPCServer{Plugins: serverSet, Stdout: outR, Stderr: errR, DoneCh: doneCh}
	dir, err := os.MkdirTemp(tmp, "rs")
	if err != nil {
		out["err"] = err.Error()
		return out
	}
	defer os.RemoveAll(dir)
	lis, err := net.Listen("unix", filepath.Join(dir, "s.sock"))
	if err != nil {
		out["err"] = err.Error()
		return out
	}
	var bg sync.WaitGroup
	bg.Add(2)
	go func() {
		defer bg.Done()
		srv.Serve(lis)
		rec.Log("loopend", "", 0, 0, nil)
	}()
	go func() {
		// what plugin.Serve does: once the server says it is done, the listener is closed
		defer bg.Done()
		<-doneCh
		rec.Log("donech", "", 0, 0, nil)
		lis.Close()
	}()

	var gotCount int64
	var gotMu sync.Mutex
	clients := map[int]*plugin.RPCClient{}
	for ci := 1; ci <= c.Conns; ci++ {
		conn, err := net.Dial("unix", lis.Addr().String())
		if err != nil {
			out["err"] = err.Error()
			return out
		}
		cl, err := plugin.NewRPCClient(conn, clientSet)
		if err != nil {
			out["err"] = err.Error()
			return out
		}
		cl.SyncStreams(&recWriter{rec: rec, conn: ci, stream: "out", count: &gotCount, mu: &gotMu},
			&recWriter{rec: rec, conn: ci, stream: "err", count: &gotCount, mu: &gotMu})
		clients[ci] = cl
		rec.Log("up", "", int64(ci), 0, map[string]interface{}{"c": ci})
	}
	out["setup_ok"] = true

	var mu sync.Mutex
	guard := func(f func()) {
		defer func() {
			if r := recover(); r != nil {
				mu.Lock()
				out["panic"] = true
				out["panic_msg"] = fmt.Sprint(r)
				mu.Unlock()
			}
		}()
		f()
	}
	closeConn := func(ci int) {
		rec.Log("close", "", int64(ci), 0, map[string]interface{}{"c": ci})
		err := clients[ci].Close()
		rec.Log("closed", "", int64(ci), 0, map[string]interface{}{"c": ci, "err": fmt.Sprint(err)})
	}

	var wg sync.WaitGroup
	// the Dispense calls
	for _, call := range c.Calls {
		wg.Add(1)
		call := call
		go func() {
			defer wg.Done()
			time.Sleep(time.Duration(call.DelayMs) * time.Millisecond)
			guard(func() {
				rec.Log("call", "", int64(call.K), 0, map[string]interface{}{"k": call.K, "c": call.Conn, "name": call.Name})
				raw, err := clients[call.Conn].Dispense(call.Name)
				f := map[string]interface{}{"k": call.K, "ok": false, "rname": "", "inst": 0}
				if err == nil {
					var who string
					done := raw.(*rpc.Client).Go("Plugin.Who", 0, &who, make(chan *rpc.Call, 1)).Done
					select {
					case cl := <-done:
						err = cl.Error
					case <-time.After(8 * time.Second):
						err = errors.New("the dispensed implementation never answered")
					}
					if err == nil {
						var inst int
						var rname string
						for i := 0; i < len(who); i++ {
							if who[i] == '/' {
								rname = who[:i]
								inst, _ = strconv.Atoi(who[i+1:])
							}
						}
						f["ok"], f["rname"], f["inst"] = true, rname, inst
					}
				}
				if err != nil {
					f["err"] = err.Error()
				}
				rec.Log("ret", "", int64(call.K), 0, f)
			})
		}()
	}
	// the plugin's own code taking ids from the server-side brokers
	for i := 0; i < c.AppIds; i++ {
		wg.Add(1)
		i := i
		go func() {
			defer wg.Done()
			time.Sleep(time.Duration(5+i*3) * time.Millisecond)
			env.mu.Lock()
			var b *plugin.MuxBroker
			if len(env.brokers) > 0 {
				b = env.brokers[i%len(env.brokers)]
			}
			env.mu.Unlock()
			if b == nil {
				return
			}
			id := b.NextId()
			rec.Log("appid", b, int64(id), 0, map[string]interface{}{"id": id})
		}()
	}
	// records on the plugin's stdout and stderr
	writeAll := func(w io.Writer, s string, tag byte) {
		defer wg.Done()
		for n := 1; n <= c.Tokens; n++ {
			rec.Log("write", "", int64(n), 0, map[string]interface{}{"s": s, "n": n})
			w.Write([]byte(fmt.Sprintf("%c%014d\n", tag, n)))
			time.Sleep(time.Duration(n%3) * time.Millisecond)
		}
	}
	wg.Add(2)
	go writeAll(outW, "out", 'o')
	go writeAll(errW, "err", 'e')
	closed := map[int]bool{}
	if len(c.CloseAtMs) == len(c.Closes) && len(c.Closes) > 0 {
		for i, ci := range c.Closes {
			closed[ci] = true
			wg.Add(1)
			i, ci := i, ci
			go func() {
				defer wg.Done()
				time.Sleep(time.Duration(c.CloseAtMs[i]) * time.Millisecond)
				guard(func() { closeConn(ci) })
			}()
		}
	} else if c.CloseEarly && len(c.Closes) > 0 {
		time.Sleep(8 * time.Millisecond)
		guard(func() { closeConn(c.Closes[0]) })
		closed[c.Closes[0]] = true
	}
	allDone := make(chan struct{})
	go func() { wg.Wait(); close(allDone) }()
	complete := true
	select {
	case <-allDone:
	case <-time.After(20 * time.Second):
		complete = false
		out["stuck"] = true
	}
	// everything written has to arrive (nothing is lost while every reader's connection is up)
	deadline := time.Now().Add(3 * time.Second)
	for time.Now().Before(deadline) {
		gotMu.Lock()
		n := gotCount
		gotMu.Unlock()
		if n >= int64(2*c.Tokens) {
			break
		}
		time.Sleep(5 * time.Millisecond)
	}
	for _, ci := range c.Closes {
		if !closed[ci] {
			guard(func() { closeConn(ci) })
			closed[ci] = true
		}
	}
	outW.Close()
	errW.Close()
	waited := make(chan struct{})
	go func() { bg.Wait(); close(waited) }()
	select {
	case <-waited:
	case <-time.After(3 * time.Second):
		out["server_loop_never_ended"] = true
	}
	for ci := 1; ci <= c.Conns; ci++ {
		if !closed[ci] {
			guard(func() { closeConn(ci) })
		}
	}
	time.Sleep(20 * time.Millisecond)
	rec.Log("end", "", 0, 0, map[string]interface{}{"complete": complete && !c.CloseEarly && len(c.CloseAtMs) == 0})
	var rows []map[string]interface{}
	for _, e := range rec.Events() {
		r := map[string]interface{}{"ev": e.Ev, "obj": e.Obj, "a": e.A, "t": e.T, "g": e.G}
		for k, v := range e.F {
			r[k] = v
		}
		rows = append(rows, r)
	}
	rec.Close()
	out["events"] = rows
	return out
}

func TestRPCSessionCases(t *testing.T) {
	in, outp := os.Getenv("VERIF_IN"), os.Getenv("VERIF_OUT")
	if in == "" || outp == "" {
		t.Skip("VERIF_IN / VERIF_OUT not set")
	}
	var cases []rsCase
	readCases(in, func(raw json.RawMessage) {
		var c rsCase
		if err := json.Unmarshal(raw, &c); err != nil {
			fmt.Fprintf(os.Stderr, "DRIVER-ERROR: bad case: %v\n", err)
			os.Exit(2)
		}
		cases = append(cases, c)
	})
	tmp := filepath.Join(filepath.Dir(outp), "rstmp")
	os.MkdirAll(tmp, 0o755)
	ow := newObsWriter(outp)
	defer ow.close()
	cw := newCaseWatch(ow, 60*time.Second)
	// the hook handler is process-wide: one case at a time
	for _, c := range cases {
		fmt.Printf("SCENARIO %s\n", c.Name)
		cw.begin(c.Name)
		o := runRPCSessionCase(c, tmp)
		cw.end(c.Name)
		ow.write(map[string]interface{}{"name": c.Name, "out": o})
	}
}
