package drivers

// Driver for C03: the plugin process dies at a named point; every in-flight and subsequent host
// call must return in bounded time, with an error whenever it needed the plugin.

import (
	"context"
	"encoding/json"
	"fmt"
	"google.golang.org/grpc"
	"os"
	"path/filepath"
	"runtime"
	"strconv"
	"sync"
	"testing"
	"time"

	plugin "github.com/hashicorp/go-plugin"
	"github.com/hashicorp/go-plugin/verifharness/vp"
	"google.golang.org/protobuf/types/known/wrapperspb"
)

type crCase struct {
	Name        string `json:"name"`
	Point       string `json:"point"`
	Proto       string `json:"proto"`
	How         string `json:"how"` // exit, kill
	Jit         int    `json:"jitter_ms"`
	Settle      bool   `json:"settle"`
	LineVariant int    `json:"line_variant"` // which output a plugin dying while printing leaves behind
	Block       bool   `json:"block"`        // the host dials its main gRPC connection with grpc.WithBlock()
}

type crCall struct {
	Op         string `json:"op"`
	Res        string `json:"res"`
	Ms         int64  `json:"ms"`
	AfterCrash bool   `json:"after_crash"`
	Racing     bool   `json:"racing"` // the plugin was still alive when the call began although it dies during startup
	Err        string `json:"err,omitempty"`
}

func runCrashCase(c crCase, bin, tmp string) map[string]interface{} {
	out := map[string]interface{}{"panic": false, "started_ok": false, "had_ctx": false, "ctx_cancelled": false, "exited_ms": int64(-1), "crashed": false}
	var calls []crCall
	wire, mux := protoSets(c.Proto)
	pc := &vp.PluginCfg{LegacyVersion: 1, Legacy: &vp.SetCfg{Proto: wire, Tag: "1"}, GRPCServer: wire == "grpc"}
	hc := &vp.HostCfg{LegacyVersion: 1, Legacy: &vp.SetCfg{Proto: "grpc", Tag: "1"}, Allowed: []string{"netrpc", "grpc"}, Mux: mux, TempDir: tmp, StartTimeoutMs: 5000}
	hc.DialBlock = c.Block
	switch c.Point {
	case "before_output":
		pc.Crash = &vp.CrashCfg{Event: pick(c.Jit, "serve.cookie.ok", "serve.listen", "serve.line.printing"), How: c.How}
	case "mid_line":
		// dies while printing: half a line, or a banner / error text of several lines with or without a
		// truncated handshake line after it
		pc.MockLine, pc.MockThen = pick(c.LineVariant, "1|1|unix|/nonexistent/half", "1|1|uni", "1|1|unix|/nonexistent/sock|grp",
			"plugin starting up, version 1.2\n1|1|unix|/nonexistent/half", "error: cannot start\nusage: plugin [flags]\n  -x  something\n"), "exit"
	case "after_line":
		pc.Crash = &vp.CrashCfg{Event: pick(c.Jit, "serve.line.printed", "serve.stdio.swapped", "serve.serving"), How: c.How, DelayMs: c.Jit % 3}
	case "broker_after_id":
		if wire == "netrpc" {
			pc.Crash = &vp.CrashCfg{Event: "rpc.dispense.id", How: c.How}
		}
	case "during_stdio":
		if wire == "grpc" {
			pc.Crash = &vp.CrashCfg{Event: "stdio.stream.send", Nth: 3, How: c.How}
		}
	}
	p := vp.NewPair(bin, hc, pc, []string{"TMPDIR=" + tmp}, nil)
	// when does the client first report the plugin as exited?
	var exMu sync.Mutex
	var tExited time.Time
	stopWatch := make(chan struct{})
	defer close(stopWatch)
	go func() {
		for {
			if p.Client.Exited() {
				exMu.Lock()
				tExited = time.Now()
				exMu.Unlock()
				return
			}
			select {
			case <-stopWatch:
				return
			case <-time.After(3 * time.Millisecond):
			}
		}
	}()
	crashed := false // from now on calls are "after the crash"
	var tCrash time.Time
	preCrash := c.Point == "before_output" || c.Point == "mid_line" || c.Point == "after_line"
	timed := func(op string, f func() error) error {
		t0 := time.Now()
		// A plugin that dies on its own during startup may still be alive (and even serving, for a
		// moment) when a call begins: such a call races with the crash and may go either way.
		racing := false
		if preCrash && op != "start" {
			// (gone = reaped by the client's wait goroutine; a zombie thread-group leader can still
			// have threads that serve)
			if !p.Client.Exited() {
				racing = true
			}
		}
		var err error
		done := make(chan struct{})
		go func() {
			defer close(done)
			defer func() {
				if r := recover(); r != nil {
					out["panic"] = true
					out["panic_msg"] = fmt.Sprint(r)
					err = fmt.Errorf("panic: %v", r)
				}
			}()
			err = f()
		}()
		select {
		case <-done:
		case <-time.After(25 * time.Second):
			err = fmt.Errorf("call did not return within 25 s")
		}
		cc := crCall{Op: op, Ms: time.Since(t0).Milliseconds(), AfterCrash: crashed && !racing, Racing: racing, Res: "ok"}
		if err != nil {
			cc.Res = "err"
			cc.Err = truncate(err.Error(), 160)
		}
		calls = append(calls, cc)
		return err
	}
	preCrashPoint := c.Point == "before_output" || c.Point == "mid_line" || c.Point == "after_line"
	crashed = preCrashPoint
	var cp plugin.ClientProtocol
	var stub *vp.Stub
	err := timed("start", func() error { _, e := p.Client.Start(); return e })
	out["started_ok"] = err == nil
	if preCrashPoint {
		tCrash = time.Now()
		if c.Settle {
			// let the crash complete first, so that the calls below are after it for sure
			for i := 0; i < 200 && !p.Client.Exited(); i++ {
				time.Sleep(5 * time.Millisecond)
			}
		}
	}
	cerr := timed("client", func() error { var e error; cp, e = p.Client.Client(); return e })
	if cerr == nil && cp != nil {
		if c.Point == "broker_after_id" && wire == "netrpc" {
			crashed = true
			tCrash = time.Now()
		}
		derr := timed("dispense", func() error {
			raw, e := cp.Dispense("v")
			if e == nil {
				stub = raw.(*vp.Stub)
			}
			return e
		})
		_ = derr
	}
	crashNow := func() {
		// ask the plugin to die shortly after answering, then wait for it to be gone
		stub.Do(vp.Cmd{Op: "crash", S: c.How, Ms: 1 + c.Jit%5})
		crashed = true
		tCrash = time.Now()
		pid := p.Pid()
		for i := 0; i < 300 && !vp.PidGone(pid) && vp.PidState(pid) != "Z"; i++ {
			time.Sleep(5 * time.Millisecond)
		}
	}
	if stub != nil && !crashed {
		if stub.Ctx != nil {
			out["had_ctx"] = true
		}
		switch c.Point {
		case "idle":
			timed("ping", func() error { return cp.Ping() })
			gb, isGRPC := stub.Broker.(vp.GRPCAPI)
			if c.Block && isGRPC && !mux {
				// the plugin announces a brokered listener, then dies; the host dials it with a blocking dial:
				// the connection information is there, the listener is not
				stub.Do(vp.Cmd{Op: "serve", ID: 78100, S: "b"})
				time.Sleep(50 * time.Millisecond)
				crashNow()
				timed("broker_dial", func() error {
					conn, e := gb.B.DialWithOptions(78100, grpc.WithBlock())
					if e == nil {
						conn.Close()
					}
					return e
				})
				break
			}
			crashNow()
		case "in_accept":
			// the host is waiting in the broker's Accept for an id nobody has dialled yet when the plugin dies
			go func() {
				time.Sleep(time.Duration(100+c.Jit) * time.Millisecond)
				if pr, err := os.FindProcess(p.Pid()); err == nil {
					pr.Kill()
				}
			}()
			crashed = true
			tCrash = time.Now().Add(time.Duration(100+c.Jit) * time.Millisecond)
			timed("broker_accept", func() error {
				switch b := stub.Broker.(type) {
				case vp.MuxAPI:
					conn, e := b.B.Accept(77900 + uint32(c.Jit))
					if e == nil {
						conn.Close()
					}
					return e
				case vp.GRPCAPI:
					ln, e := b.B.Accept(77900 + uint32(c.Jit))
					if e == nil {
						ln.Close()
					}
					return e
				}
				return nil
			})
		case "in_unary":
			go func() {
				time.Sleep(time.Duration(200+c.Jit) * time.Millisecond)
				if pr, err := os.FindProcess(p.Pid()); err == nil {
					if c.How == "kill" {
						pr.Kill()
					} else {
						pr.Signal(os.Interrupt) // ignored by plugins; fall through to kill
						pr.Kill()
					}
				}
			}()
			crashed = true // the call is in flight when the plugin dies
			tCrash = time.Now().Add(time.Duration(200+c.Jit) * time.Millisecond)
			timed("call", func() error { _, e := stub.Do(vp.Cmd{Op: "sleep", Ms: 3000}); return e })
		case "in_stream":
			ctx, cancel := context.WithTimeout(context.Background(), 20*time.Second)
			defer cancel()
			st, err := stub.OpenStream(ctx)
			if err == nil {
				st.SendMsg(wrapperspb.String("hello"))
				m := new(wrapperspb.StringValue)
				st.RecvMsg(m)
				go func() {
					time.Sleep(time.Duration(100+c.Jit) * time.Millisecond)
					if pr, err := os.FindProcess(p.Pid()); err == nil {
						pr.Kill()
					}
				}()
				crashed = true
				tCrash = time.Now()
				timed("stream", func() error { m := new(wrapperspb.StringValue); return st.RecvMsg(m) })
			}
		case "broker_after_id":
			// gRPC: the plugin reserves an id, then dies before it listens
			r, err := stub.Do(vp.Cmd{Op: "nextid"})
			id := uint32(r.N)
			if err == nil {
				crashNow()
				timed("broker_dial", func() error { _, e := stub.Broker.DialWho(id); return e })
			}
		case "during_stdio":
			if wire == "grpc" {
				crashed = true
				tCrash = time.Now()
				timed("call", func() error {
					_, e := stub.Do(vp.Cmd{Op: "stdio", S: "out", N: 200000, Seed: 3})
					if e == nil {
						// the write may have completed before the third chunk was streamed; wait for the crash
						pid := p.Pid()
						for i := 0; i < 400 && !vp.PidGone(pid) && vp.PidState(pid) != "Z"; i++ {
							time.Sleep(5 * time.Millisecond)
						}
						return fmt.Errorf("write returned, plugin died while streaming")
					}
					return e
				})
			} else {
				go stub.Do(vp.Cmd{Op: "stdio", S: "err", N: 4 << 20, Seed: 3})
				time.Sleep(time.Duration(20+c.Jit) * time.Millisecond)
				crashNow()
			}
		}
	}
	// whatever happened: the calls a host would make next
	if crashed && cp != nil {
		timed("ping", func() error { return cp.Ping() })
		if stub != nil {
			timed("call", func() error { _, e := stub.Do(vp.Cmd{Op: "tag"}); return e })
			timed("broker_dial", func() error { _, e := stub.Broker.DialWho(77700 + uint32(c.Jit)); return e })
			timed("broker_accept", func() error {
				switch b := stub.Broker.(type) {
				case vp.MuxAPI:
					conn, e := b.B.Accept(77800 + uint32(c.Jit))
					if e == nil {
						conn.Close()
					}
					return e
				case vp.GRPCAPI:
					ln, e := b.B.Accept(77800 + uint32(c.Jit))
					if e == nil {
						ln.Close()
					}
					return e
				}
				return nil
			})
		}
		timed("dispense", func() error { _, e := cp.Dispense("v"); return e })
	}
	pid := p.Pid()
	if crashed && pid != 0 {
		// a process that has called exit may need a moment to be gone
		for i := 0; i < 400 && !vp.PidGone(pid) && vp.PidState(pid) != "Z"; i++ {
			time.Sleep(5 * time.Millisecond)
		}
	}
	out["crashed"] = crashed && (pid == 0 || vp.PidGone(pid) || vp.PidState(pid) == "Z" || c.Point == "mid_line" || c.Point == "before_output")
	// Exited() becomes true, the gRPC context is cancelled
	if crashed {
		if tCrash.IsZero() {
			tCrash = time.Now()
		}
		deadline := time.Now().Add(4 * time.Second)
		for time.Now().Before(deadline) {
			exMu.Lock()
			done := !tExited.IsZero()
			exMu.Unlock()
			if done {
				break
			}
			time.Sleep(5 * time.Millisecond)
		}
		exMu.Lock()
		if !tExited.IsZero() {
			ms := tExited.Sub(tCrash).Milliseconds()
			if ms < 0 {
				ms = 0
			}
			out["exited_ms"] = ms
		}
		exMu.Unlock()
		if stub != nil && stub.Ctx != nil {
			select {
			case <-stub.Ctx.Done():
				out["ctx_cancelled"] = true
			case <-time.After(2 * time.Second):
			}
		}
	}
	timed("kill", func() error { p.Client.Kill(); return nil })
	out["calls"] = calls
	if pid != 0 && !vp.PidGone(pid) {
		if pr, err := os.FindProcess(pid); err == nil {
			pr.Kill()
		}
	}
	return out
}

func TestCrashCases(t *testing.T) {
	in, outp, bin := os.Getenv("VERIF_IN"), os.Getenv("VERIF_OUT"), os.Getenv("VERIF_VPLUGIN")
	if in == "" || outp == "" || bin == "" {
		t.Skip("VERIF_IN / VERIF_OUT / VERIF_VPLUGIN not set")
	}
	var cases []crCase
	readCases(in, func(raw json.RawMessage) {
		var c crCase
		if err := json.Unmarshal(raw, &c); err != nil {
			fmt.Fprintf(os.Stderr, "DRIVER-ERROR: bad case: %v\n", err)
			os.Exit(2)
		}
		cases = append(cases, c)
	})
	tmp := filepath.Join(filepath.Dir(outp), "crtmp")
	os.MkdirAll(tmp, 0o755)
	os.Setenv("TMPDIR", tmp)
	ow := newObsWriter(outp)
	defer ow.close()
	cw := newCaseWatch(ow, 150*time.Second)
	workers := runtime.GOMAXPROCS(0)
	if w, err := strconv.Atoi(os.Getenv("VERIF_WORKERS")); err == nil && w > 0 {
		workers = w
	}
	ch := make(chan crCase)
	var wg sync.WaitGroup
	for i := 0; i < workers; i++ {
		wg.Add(1)
		go func() {
			defer wg.Done()
			for c := range ch {
				if workers == 1 {
					fmt.Printf("SCENARIO %s\n", c.Name)
				}
				cw.begin(c.Name)
				o := runCrashCase(c, bin, tmp)
				cw.end(c.Name)
				ow.write(map[string]interface{}{"name": c.Name, "point": c.Point, "proto": c.Proto, "how": c.How, "jitter_ms": c.Jit, "out": o})
			}
		}()
	}
	for _, c := range cases {
		ch <- c
	}
	close(ch)
	wg.Wait()
}
