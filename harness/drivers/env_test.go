package drivers

// Driver for C17: the environment and stdin handed to the launched plugin. The host environment
// under test is the driver process's own (set per case; cases run one at a time per process).

import (
	"bytes"
	"crypto/tls"
	"encoding/json"
	"errors"
	"fmt"
	"os"
	"os/exec"
	"path/filepath"
	"sort"
	"strconv"
	"strings"
	"testing"
	"time"

	hclog "github.com/hashicorp/go-hclog"
	plugin "github.com/hashicorp/go-plugin"
	"github.com/hashicorp/go-plugin/runner"
)

type envCfg struct {
	AutoMTLS bool `json:"automtls"`
	Mux      bool `json:"mux"`
	Group    bool `json:"group"`
	Runner   bool `json:"runner"`
	Skip     bool `json:"skip"`
	// Relaunch: the same *ClientConfig has been used for an earlier launch; PresetTLS: the caller set a TLSConfig
	Relaunch  bool `json:"relaunch"`
	PresetTLS bool `json:"presettls"`
}
type envCase struct {
	Name     string          `json:"name"`
	Cfg      envCfg          `json:"cfg"`
	Host     map[string]bool `json:"host"`
	Versions []int           `json:"versions"`
	Legacy   bool            `json:"legacy"`
	Ports    []int           `json:"ports,omitempty"` // MinPort, MaxPort of the client config (default 11111, 22222)
	// CmdEnv: the caller's Cmd.Env already carries the host's values of the variables every client sets (what
	// cmd.Env = append(os.Environ(), ...) gives in a host that is itself a plugin), plus a variable of its own
	CmdEnv bool `json:"cmd_env,omitempty"`
}

var envNames = map[string]string{
	"COOKIE": "VERIF_ENV_COOKIE", "MIN": "PLUGIN_MIN_PORT", "MAX": "PLUGIN_MAX_PORT", "VERS": "PLUGIN_PROTOCOL_VERSIONS",
	"CERT": "PLUGIN_CLIENT_CERT", "MUX": "PLUGIN_MULTIPLEX_GRPC", "GROUP": "PLUGIN_UNIX_SOCKET_GROUP",
	"DIR": "PLUGIN_UNIX_SOCKET_DIR", "HOSTX": "VERIF_HOSTX",
}
var hostVals = map[string]string{
	"COOKIE": "HOSTVAL-cookie", "MIN": "1", "MAX": "2", "VERS": "97,98", "CERT": "HOSTVAL-cert", "MUX": "1",
	"GROUP": "HOSTVAL-group", "DIR": "/HOSTVAL/dir", "HOSTX": "HOSTVAL-x",
}

func lastWins(env []string) map[string]string {
	m := map[string]string{}
	for _, e := range env {
		if i := strings.IndexByte(e, '='); i >= 0 {
			m[e[:i]] = e[i+1:]
		}
	}
	return m
}

func runEnvCase(c envCase, tmp string) map[string]interface{} {
	out := map[string]interface{}{}
	// the host environment under test
	for v, name := range envNames {
		if c.Host[v] {
			os.Setenv(name, hostVals[v])
		} else {
			os.Unsetenv(name)
		}
	}
	defer func() {
		for _, name := range envNames {
			os.Unsetenv(name)
		}
	}()
	gid := strconv.Itoa(os.Getgid())
	minPort, maxPort := 11111, 22222
	if len(c.Ports) == 2 {
		minPort, maxPort = c.Ports[0], c.Ports[1]
	}
	// what the plugin must be told: the configured range; the documented defaults only when neither end is set
	wantMin, wantMax := strconv.Itoa(minPort), strconv.Itoa(maxPort)
	if minPort == 0 && maxPort == 0 {
		wantMin, wantMax = "10000", "25000"
	}
	cfg := &plugin.ClientConfig{
		HandshakeConfig: plugin.HandshakeConfig{MagicCookieKey: envNames["COOKIE"], MagicCookieValue: "CLIENT-cookie"},
		MinPort:         uint(minPort), MaxPort: uint(maxPort),
		AutoMTLS: c.Cfg.AutoMTLS, GRPCBrokerMultiplex: c.Cfg.Mux, SkipHostEnv: c.Cfg.Skip,
		StartTimeout: 300 * time.Millisecond, Logger: hclog.NewNullLogger(),
		UnixSocketConfig: &plugin.UnixSocketConfig{TempDir: tmp},
	}
	if c.Cfg.Group {
		cfg.UnixSocketConfig.Group = gid
	}
	set := plugin.PluginSet{}
	if c.Legacy && len(c.Versions) > 0 {
		cfg.ProtocolVersion = uint(c.Versions[0])
		cfg.Plugins = set
		cfg.VersionedPlugins = map[int]plugin.PluginSet{}
		for _, v := range c.Versions[1:] {
			cfg.VersionedPlugins[v] = set
		}
	} else {
		cfg.VersionedPlugins = map[int]plugin.PluginSet{}
		for _, v := range c.Versions {
			cfg.VersionedPlugins[v] = set
		}
	}
	if c.Cfg.PresetTLS {
		cfg.TLSConfig = &tls.Config{MinVersion: tls.VersionTLS12}
	}
	if c.Cfg.Relaunch {
		// an earlier launch with the very same config struct (what a supervisor restarting a plugin does)
		cfg.RunnerFunc = func(l hclog.Logger, cmd *exec.Cmd, tmpDir string) (runner.Runner, error) {
			os.RemoveAll(tmpDir)
			return nil, errors.New("first launch")
		}
		cl0 := plugin.NewClient(cfg)
		cl0.Start()
		cl0.Kill()
		cfg.RunnerFunc = nil
	}
	var env []string
	stdinIsHost := false
	var sockDir string
	if c.Cfg.Runner {
		cfg.RunnerFunc = func(l hclog.Logger, cmd *exec.Cmd, tmpDir string) (runner.Runner, error) {
			env = append([]string(nil), cmd.Env...)
			stdinIsHost = cmd.Stdin == os.Stdin
			sockDir = tmpDir
			return nil, errors.New("captured")
		}
		cl := plugin.NewClient(cfg)
		cl.Start()
		cl.Kill()
		if sockDir != "" {
			os.RemoveAll(sockDir)
		}
	} else {
		dump := filepath.Join(tmp, c.Name+".env")
		cmd := exec.Command("/bin/sh", "-c", "env -0 > "+dump+".tmp; mv "+dump+".tmp "+dump+"; exec sleep 30")
		if c.CmdEnv {
			for _, v := range []string{"COOKIE", "MIN", "MAX", "VERS"} {
				if c.Host[v] {
					cmd.Env = append(cmd.Env, envNames[v]+"="+hostVals[v])
				}
			}
			cmd.Env = append(cmd.Env, "VERIF_APPVAR=1")
		}
		cfg.Cmd = cmd
		cl := plugin.NewClient(cfg)
		cl.Start()
		stdinIsHost = cmd.Stdin == os.Stdin
		for i := 0; i < 100; i++ {
			if _, err := os.Stat(dump); err == nil {
				break
			}
			time.Sleep(10 * time.Millisecond)
		}
		cl.Kill()
		b, err := os.ReadFile(dump)
		if err != nil {
			out["err"] = "no env dump: " + err.Error()
		}
		for _, e := range bytes.Split(b, []byte{0}) {
			if len(e) > 0 {
				env = append(env, string(e))
			}
		}
		os.Remove(dump)
	}
	eff := lastWins(env)
	source := map[string]string{}
	for v, name := range envNames {
		val, ok := eff[name]
		switch {
		case !ok:
			source[v] = "absent"
		case val == hostVals[v]:
			source[v] = "host"
		default:
			source[v] = "client"
		}
	}
	// the client's own values must be the right ones
	wantVers := map[string]bool{}
	for _, v := range c.Versions {
		wantVers[strconv.Itoa(v)] = true
	}
	gotVers := map[string]bool{}
	for _, s := range strings.Split(eff["PLUGIN_PROTOCOL_VERSIONS"], ",") {
		gotVers[s] = true
	}
	exact := len(wantVers) == len(gotVers) && len(strings.Split(eff["PLUGIN_PROTOCOL_VERSIONS"], ",")) == len(wantVers)
	for k := range wantVers {
		if !gotVers[k] {
			exact = false
		}
	}
	valuesOK := eff[envNames["COOKIE"]] == "CLIENT-cookie" && eff["PLUGIN_MIN_PORT"] == wantMin && eff["PLUGIN_MAX_PORT"] == wantMax
	if c.Cfg.AutoMTLS && !strings.HasPrefix(eff["PLUGIN_CLIENT_CERT"], "-----BEGIN CERTIFICATE") {
		valuesOK = false
	}
	if c.Cfg.Mux && eff["PLUGIN_MULTIPLEX_GRPC"] != "true" {
		valuesOK = false
	}
	if c.Cfg.Group && eff["PLUGIN_UNIX_SOCKET_GROUP"] != gid {
		valuesOK = false
	}
	if c.Cfg.Runner && (sockDir == "" || eff["PLUGIN_UNIX_SOCKET_DIR"] != sockDir) {
		valuesOK = false
	}
	out["source"] = source
	out["versions_exact"] = exact && valuesOK
	out["stdin_is_host"] = stdinIsHost
	keys := []string{}
	for k := range eff {
		if strings.HasPrefix(k, "PLUGIN_") || strings.HasPrefix(k, "VERIF_") {
			keys = append(keys, k+"="+truncate(eff[k], 30))
		}
	}
	sort.Strings(keys)
	out["effective"] = keys
	return out
}

func TestEnvCases(t *testing.T) {
	in, outp := os.Getenv("VERIF_IN"), os.Getenv("VERIF_OUT")
	if in == "" || outp == "" {
		t.Skip("VERIF_IN / VERIF_OUT not set")
	}
	tmp := filepath.Join(filepath.Dir(outp), "envtmp")
	os.MkdirAll(tmp, 0o755)
	ow := newObsWriter(outp)
	defer ow.close()
	cw := newCaseWatch(ow, 40*time.Second)
	readCases(in, func(raw json.RawMessage) {
		var c envCase
		if err := json.Unmarshal(raw, &c); err != nil {
			fmt.Fprintf(os.Stderr, "DRIVER-ERROR: bad case: %v\n", err)
			os.Exit(2)
		}
		fmt.Printf("SCENARIO %s\n", c.Name)
		cw.begin(c.Name)
		o := runEnvCase(c, tmp)
		cw.end(c.Name)
		ow.write(map[string]interface{}{"name": c.Name, "cfg": c.Cfg, "host": c.Host, "versions": c.Versions, "legacy": c.Legacy, "out": o})
	})
}
