package drivers

// Driver for C04: Kill always ends the plugin process in bounded time, gracefully if possible.
// Real vplugin processes with a configured shutdown behaviour, every protocol and launch method,
// single / repeated / concurrent Kill and CleanupClients.

import (
	"encoding/json"
	"fmt"
	hclog "github.com/hashicorp/go-hclog"
	"github.com/hashicorp/go-plugin/verifharness/sched"
	"net"
	"os"
	"os/exec"
	"path/filepath"
	"runtime"
	"strconv"
	"strings"
	"sync"
	"sync/atomic"
	"syscall"
	"testing"
	"time"

	plugin "github.com/hashicorp/go-plugin"
	"github.com/hashicorp/go-plugin/verifharness/vp"
)

type killCase struct {
	Name      string `json:"name"`
	Proto     string `json:"proto"`     // netrpc, grpc, grpcmux
	Launch    string `json:"launch"`    // cmd, runner, reattach
	Behaviour string `json:"behaviour"` // prompt, busy, delay, ignore, frozen, crashed, failedhandshake
	DelayMs   int    `json:"delay_ms"`
	Pattern   string `json:"pattern"` // single, repeated, concurrent, cleanup
	N         int    `json:"n"`
	// EarlyKill: Kill is called once before the client is started (a no-op); it must not change what happens later
	EarlyKill bool `json:"early_kill,omitempty"`
}

type killObs struct {
	KillMs       []int64                  `json:"kill_ms"`
	GoneAtReturn []bool                   `json:"gone_at_return"`
	ExitedAtRet  []bool                   `json:"exited_at_return"`
	Marker       bool                     `json:"marker"`
	Panic        bool                     `json:"panic"`
	PanicMsg     string                   `json:"panic_msg,omitempty"`
	StartOK      bool                     `json:"start_ok"`
	Err          string                   `json:"err,omitempty"`
	MaxMs        int64                    `json:"max_ms"`
	AllGone      bool                     `json:"all_gone"`
	AllExited    bool                     `json:"all_exited"`
	Events       []map[string]interface{} `json:"events,omitempty"`
}

type startedPlugin struct {
	pair     *vp.Pair // the client used for Kill
	orig     *vp.Pair // for reattach: the client that launched the process
	pid      int
	marker   string
	launcher *exec.Cmd // foreign launch: the shell that is the plugin's parent
}

func protoSets(proto string) (string, bool) {
	switch proto {
	case "grpc":
		return "grpc", false
	case "grpcmux":
		return "grpc", true
	}
	return "netrpc", false
}

// startForeign launches the plugin as a grandchild (its parent is a shell that stays around and
// reaps it) and reattaches to it from the handshake line it printed: the process the client kills
// is not a child of the host process, as with a plugin that outlived the host that launched it.
func startForeign(c killCase, sp *startedPlugin, pc *vp.PluginCfg, bin, tmp string, managed bool) (*vp.Stub, error) {
	if pc.CookieKey == "" {
		pc.CookieKey, pc.CookieValue = vp.CookieKey, vp.CookieValue
	}
	pcb, _ := json.Marshal(pc)
	base := filepath.Join(tmp, c.Name+"."+strconv.Itoa(int(time.Now().UnixNano()%1e9)))
	sh := exec.Command("/bin/sh", "-c", `"$0" > "$1.out" 2> "$1.err" & echo $! > "$1.pid"; wait`, bin, base)
	sh.Env = append(os.Environ(), vp.CfgEnv+"="+string(pcb), vp.CookieKey+"="+vp.CookieValue, "TMPDIR="+tmp)
	if err := sh.Start(); err != nil {
		return nil, err
	}
	sp.launcher = sh
	go sh.Wait()
	var line string
	for i := 0; i < 500; i++ {
		if b, err := os.ReadFile(base + ".out"); err == nil && strings.Contains(string(b), "\n") {
			line = strings.SplitN(string(b), "\n", 2)[0]
			break
		}
		time.Sleep(10 * time.Millisecond)
	}
	if b, err := os.ReadFile(base + ".pid"); err == nil {
		sp.pid, _ = strconv.Atoi(strings.TrimSpace(string(b)))
	}
	parts := strings.Split(line, "|")
	if len(parts) < 5 || sp.pid == 0 {
		return nil, fmt.Errorf("foreign launch: no handshake line (%q)", line)
	}
	rc := &plugin.ReattachConfig{Protocol: plugin.Protocol(parts[4]), ProtocolVersion: 1, Pid: sp.pid,
		Addr: &net.UnixAddr{Name: parts[3], Net: "unix"}}
	cfg := &plugin.ClientConfig{HandshakeConfig: plugin.HandshakeConfig{ProtocolVersion: 1, MagicCookieKey: vp.CookieKey, MagicCookieValue: vp.CookieValue},
		Plugins: vp.Set("grpc", "1"), Reattach: rc, Logger: hclog.NewNullLogger(), Managed: managed,
		AllowedProtocols: []plugin.Protocol{plugin.ProtocolNetRPC, plugin.ProtocolGRPC}}
	c2 := plugin.NewClient(cfg)
	sp.pair = &vp.Pair{Client: c2, Config: cfg}
	cp, err := c2.Client()
	if err != nil {
		return nil, err
	}
	raw, err := cp.Dispense("v")
	if err != nil {
		return nil, err
	}
	stub := raw.(*vp.Stub)
	if _, err := stub.Do(vp.Cmd{Op: "tag"}); err != nil {
		return nil, err
	}
	return stub, nil
}

func startForKill(c killCase, bin, tmp string, managed bool) (*startedPlugin, error) {
	wire, mux := protoSets(c.Proto)
	sp := &startedPlugin{marker: filepath.Join(tmp, c.Name+"."+strconv.Itoa(int(time.Now().UnixNano()%1e9))+".marker")}
	pc := &vp.PluginCfg{LegacyVersion: 1, Legacy: &vp.SetCfg{Proto: wire, Tag: "1"}, GRPCServer: wire == "grpc", Marker: sp.marker}
	switch c.Behaviour {
	case "delay":
		pc.AfterServe = "sleep:" + strconv.Itoa(c.DelayMs)
	case "ignore":
		pc.AfterServe = "hang"
	case "failedhandshake":
		pc.MockLine, pc.MockThen = "1|999|unix|/nonexistent|netrpc|\nmore plugin output on stdout\nand more\n", "idle"
	}
	if c.Launch == "foreign" {
		stub, err := startForeign(c, sp, pc, bin, tmp, managed)
		if err != nil {
			return sp, err
		}
		return sp, applyBehaviour(c, sp, stub)
	}
	launch := c.Launch
	if launch == "reattach" {
		launch = "cmd"
	}
	hc := &vp.HostCfg{LegacyVersion: 1, Legacy: &vp.SetCfg{Proto: "grpc", Tag: "1"}, Allowed: []string{"netrpc", "grpc"},
		Mux: mux && c.Launch != "reattach", Launch: launch, TempDir: tmp, StartTimeoutMs: 5000, Managed: managed && c.Launch != "reattach"}
	p := vp.NewPair(bin, hc, pc, []string{"TMPDIR=" + tmp}, nil)
	if c.EarlyKill {
		p.Client.Kill()
	}
	_, err := p.Client.Start()
	sp.pid = p.Pid()
	sp.pair = p
	if c.Behaviour == "failedhandshake" {
		return sp, nil
	}
	if err != nil {
		return sp, err
	}
	stub, _, err := p.Dispense()
	if err != nil {
		return sp, err
	}
	if _, err := stub.Do(vp.Cmd{Op: "tag"}); err != nil {
		return sp, err
	}
	if c.Launch == "reattach" {
		rc := p.Client.ReattachConfig()
		if rc == nil {
			return sp, fmt.Errorf("no reattach config")
		}
		cfg := &plugin.ClientConfig{HandshakeConfig: p.Config.HandshakeConfig, Plugins: vp.Set("grpc", "1"), Reattach: rc,
			Logger: p.Config.Logger, Managed: managed, AllowedProtocols: p.Config.AllowedProtocols}
		c2 := plugin.NewClient(cfg)
		if _, err := c2.Client(); err != nil {
			return sp, err
		}
		sp.orig = p
		sp.pair = &vp.Pair{Client: c2, Config: cfg, Cmd: p.Cmd}
	}
	return sp, applyBehaviour(c, sp, stub)
}

// applyBehaviour puts the started plugin in the state the case asks for.
func applyBehaviour(c killCase, sp *startedPlugin, stub *vp.Stub) error {
	switch c.Behaviour {
	case "busy":
		go stub.Do(vp.Cmd{Op: "sleep", Ms: 5000})
		time.Sleep(50 * time.Millisecond)
	case "brokerbusy_h":
		// the host serves a brokered connection on which the plugin has a call in flight when Kill comes
		stub.Broker.ServeWho(7001, "h")
		if r, err := stub.Do(vp.Cmd{Op: "dialkeep", ID: 7001}); err != nil || !r.OK {
			return fmt.Errorf("brokerbusy_h: dialkeep: %v %s", err, r.Err)
		}
		stub.Do(vp.Cmd{Op: "slowkept", ID: 7001, Ms: 8000})
		time.Sleep(100 * time.Millisecond)
	case "brokerbusy_p":
		// the plugin serves one, and the host has the call in flight
		stub.Do(vp.Cmd{Op: "serve", ID: 7002, S: "p"})
		if _, err := stub.Broker.DialKeep(7002); err != nil {
			return fmt.Errorf("brokerbusy_p: dialkeep: %v", err)
		}
		stub.Broker.SlowKept(7002, 8000)
		time.Sleep(100 * time.Millisecond)
	case "frozen":
		syscall.Kill(sp.pid, syscall.SIGSTOP)
		time.Sleep(50 * time.Millisecond)
	case "crashed":
		stub.Do(vp.Cmd{Op: "crash", S: "exit", Ms: 1})
		deadline := time.Now().Add(3 * time.Second)
		for time.Now().Before(deadline) && !vp.PidGone(sp.pid) {
			time.Sleep(10 * time.Millisecond)
		}
		time.Sleep(100 * time.Millisecond)
	}
	return nil
}

// killRecs routes the client.kill.* hook events (process-wide handler) to the recorder of the case
// that owns the *plugin.Client the event is about.
var killRecs sync.Map

func killHook(ev string, obj interface{}, a, b int64) {
	if !strings.HasPrefix(ev, "client.kill.") {
		return
	}
	if r, ok := killRecs.Load(obj); ok {
		r.(*sched.Recorder).Hook(ev, "client", a, b)
	}
}

func runKillCase(c killCase, bin, tmp string) killObs {
	var o killObs
	if c.Pattern == "cleanup" {
		return runCleanupCase(c, bin, tmp)
	}
	sp, err := startForKill(c, bin, tmp, false)
	o.StartOK = err == nil
	if err != nil {
		o.Err = err.Error()
		if sp != nil && sp.pair != nil {
			sp.pair.Client.Kill()
		}
		return o
	}
	rec := sched.NewRecorder()
	killRecs.Store(sp.pair.Client, rec)
	defer killRecs.Delete(sp.pair.Client)
	var callNo int32
	n := 1
	switch c.Pattern {
	case "repeated":
		n = 2
	case "concurrent":
		n = c.N
	}
	var mu sync.Mutex
	one := func() {
		defer func() {
			if r := recover(); r != nil {
				mu.Lock()
				o.Panic, o.PanicMsg = true, fmt.Sprint(r)
				mu.Unlock()
			}
		}()
		t0 := time.Now()
		who := "k" + strconv.Itoa(int(atomic.AddInt32(&callNo, 1)))
		rec.Log("call.kill", "client", 0, 0, map[string]interface{}{"c": who})
		sp.pair.Client.Kill()
		ms := time.Since(t0).Milliseconds()
		gone := vp.PidGone(sp.pid)
		ex := sp.pair.Client.Exited()
		rec.Log("ret.kill", "client", 0, 0, map[string]interface{}{"c": who, "gone": gone, "exited": ex})
		mu.Lock()
		o.KillMs = append(o.KillMs, ms)
		o.GoneAtReturn = append(o.GoneAtReturn, gone)
		o.ExitedAtRet = append(o.ExitedAtRet, ex)
		mu.Unlock()
	}
	if c.Pattern == "concurrent" {
		var wg sync.WaitGroup
		for i := 0; i < n; i++ {
			wg.Add(1)
			go func(i int) {
				defer wg.Done()
				time.Sleep(time.Duration(i*37%120) * time.Millisecond)
				one()
			}(i)
		}
		wg.Wait()
	} else {
		for i := 0; i < n; i++ {
			one()
		}
	}
	finishKillObs(&o, sp)
	for _, e := range rec.Events() {
		m := map[string]interface{}{"ev": e.Ev, "a": e.A, "b": e.B, "g": e.G, "t": e.T}
		for k, v := range e.F {
			m[k] = v
		}
		o.Events = append(o.Events, m)
	}
	return o
}

func finishKillObs(o *killObs, sps ...*startedPlugin) {
	time.Sleep(150 * time.Millisecond)
	o.Marker = true
	for _, sp := range sps {
		if _, err := os.Stat(sp.marker); err != nil {
			o.Marker = false
		}
		os.Remove(sp.marker)
		if sp.orig != nil {
			sp.orig.Client.Kill()
		}
		if !vp.PidGone(sp.pid) {
			syscall.Kill(sp.pid, syscall.SIGCONT)
			syscall.Kill(sp.pid, syscall.SIGKILL)
		}
		if sp.launcher != nil && sp.launcher.Process != nil {
			sp.launcher.Process.Kill()
		}
	}
	o.AllGone, o.AllExited = true, true
	for i := range o.KillMs {
		if o.KillMs[i] > o.MaxMs {
			o.MaxMs = o.KillMs[i]
		}
		if !o.GoneAtReturn[i] {
			o.AllGone = false
		}
		if !o.ExitedAtRet[i] {
			o.AllExited = false
		}
	}
}

// CleanupClients over n managed clients (all with this case's behaviour); the global list also
// holds the (already killed) managed clients of earlier cleanup cases, which must be harmless.
func runCleanupCase(c killCase, bin, tmp string) killObs {
	var o killObs
	var sps []*startedPlugin
	o.StartOK = true
	for i := 0; i < c.N; i++ {
		cc := c
		cc.Name = c.Name + "-" + strconv.Itoa(i)
		if i == 1 {
			cc.Behaviour = "prompt" // mixed states
		}
		sp, err := startForKill(cc, bin, tmp, true)
		if err != nil {
			o.StartOK = false
			o.Err = err.Error()
		}
		if sp != nil {
			sps = append(sps, sp)
		}
	}
	func() {
		defer func() {
			if r := recover(); r != nil {
				o.Panic, o.PanicMsg = true, fmt.Sprint(r)
			}
		}()
		t0 := time.Now()
		plugin.CleanupClients()
		ms := time.Since(t0).Milliseconds()
		for _, sp := range sps {
			o.KillMs = append(o.KillMs, ms)
			o.GoneAtReturn = append(o.GoneAtReturn, vp.PidGone(sp.pid))
			o.ExitedAtRet = append(o.ExitedAtRet, sp.pair.Client.Exited())
		}
	}()
	// marker: only meaningful when every client has the same graceful behaviour; report the
	// marker of client 0 (the case's behaviour)
	time.Sleep(150 * time.Millisecond)
	if len(sps) > 0 {
		_, err := os.Stat(sps[0].marker)
		m := err == nil
		finishKillObs(&o, sps...)
		o.Marker = m
	}
	return o
}

func TestKillCases(t *testing.T) {
	in, outp, bin := os.Getenv("VERIF_IN"), os.Getenv("VERIF_OUT"), os.Getenv("VERIF_VPLUGIN")
	if in == "" || outp == "" || bin == "" {
		t.Skip("VERIF_IN / VERIF_OUT / VERIF_VPLUGIN not set")
	}
	var cases, cleanup []killCase
	readCases(in, func(raw json.RawMessage) {
		var c killCase
		if err := json.Unmarshal(raw, &c); err != nil {
			fmt.Fprintf(os.Stderr, "DRIVER-ERROR: bad case: %v\n", err)
			os.Exit(2)
		}
		if c.Pattern == "cleanup" {
			cleanup = append(cleanup, c)
		} else {
			cases = append(cases, c)
		}
	})
	tmp := filepath.Join(filepath.Dir(outp), "killtmp")
	os.MkdirAll(tmp, 0o755)
	ow := newObsWriter(outp)
	defer ow.close()
	cw := newCaseWatch(ow, 90*time.Second)
	plugin.VerifSetHook(killHook)
	defer plugin.VerifSetHook(nil)
	workers := runtime.GOMAXPROCS(0)
	if w, err := strconv.Atoi(os.Getenv("VERIF_WORKERS")); err == nil && w > 0 {
		workers = w
	}
	emit := func(c killCase, o killObs) {
		ow.write(map[string]interface{}{"name": c.Name, "proto": c.Proto, "launch": c.Launch, "behaviour": c.Behaviour, "delay_ms": c.DelayMs,
			"pattern": c.Pattern, "n": c.N, "out": o})
	}
	ch := make(chan killCase)
	var wg sync.WaitGroup
	for i := 0; i < workers; i++ {
		wg.Add(1)
		go func() {
			defer wg.Done()
			for c := range ch {
				if workers == 1 {
					fmt.Printf("SCENARIO %s\n", c.Name)
				}
				cw.begin(c.Name)
				o := runKillCase(c, bin, tmp)
				cw.end(c.Name)
				emit(c, o)
			}
		}()
	}
	for _, c := range cases {
		ch <- c
	}
	close(ch)
	wg.Wait()
	// CleanupClients is process-global: those cases run alone, one after the other
	for _, c := range cleanup {
		fmt.Printf("SCENARIO %s\n", c.Name)
		cw.begin(c.Name)
		o := runKillCase(c, bin, tmp)
		cw.end(c.Name)
		emit(c, o)
	}
}
