// Package vp is the configurable plugin ("vplugin") and its host-side counterpart used by the
// process-level drivers: one command protocol (Cmd -> Res) spoken over net/rpc or gRPC, plugin
// sets tagged with their version, brokered "who are you" servers, stdio writers, crash points.
package vp

import (
	"bytes"
	"context"
	"crypto/ecdsa"
	"crypto/elliptic"
	"crypto/rand"
	"crypto/tls"
	"crypto/x509"
	"crypto/x509/pkix"
	"encoding/json"
	"encoding/pem"
	"errors"
	"fmt"
	"math/big"
	"net/rpc"
	"os"
	"strconv"
	"strings"
	"sync"
	"syscall"
	"time"

	plugin "github.com/hashicorp/go-plugin"
	"google.golang.org/grpc"
	"google.golang.org/grpc/credentials"
	"google.golang.org/grpc/peer"
	"google.golang.org/protobuf/types/known/wrapperspb"
)

// ---------------------------------------------------------------- command protocol

type Cmd struct {
	Op   string `json:"op"`
	ID   uint32 `json:"id,omitempty"`
	N    int    `json:"n,omitempty"`
	Ms   int    `json:"ms,omitempty"`
	S    string `json:"s,omitempty"`
	Seed int    `json:"seed,omitempty"`
}

type Res struct {
	OK  bool     `json:"ok"`
	Err string   `json:"err,omitempty"`
	S   string   `json:"s,omitempty"`
	N   int      `json:"n,omitempty"`
	L   []string `json:"l,omitempty"`
}

// BrokerAPI is what the command interpreter needs from either broker kind.
type BrokerAPI interface {
	NextId() uint32
	ServeWho(id uint32, tag string)
	DialWho(id uint32) (string, error)
	// DialKeep dials and keeps the connection; CallKept makes one more call on it.
	DialKeep(id uint32) (string, error)
	CallKept(id uint32) (string, error)
	// SlowKept starts a call on the kept connection that the peer answers only after ms milliseconds, and returns at once.
	SlowKept(id uint32, ms int) error
}

var (
	keptMu   sync.Mutex
	keptRPC  = map[string]*rpc.Client{}
	keptGRPC = map[string]*grpc.ClientConn{}
)

func keptKey(b interface{}, id uint32) string { return fmt.Sprintf("%p/%d", b, id) }

// ---------------------------------------------------------------- who service (brokered connections)

type WhoRPC struct{ Tag string }

func (w *WhoRPC) Who(ms int, out *string) error {
	if ms > 0 {
		time.Sleep(time.Duration(ms) * time.Millisecond)
	}
	*out = w.Tag
	return nil
}

type whoServer interface {
	Who(context.Context, *wrapperspb.StringValue) (*wrapperspb.StringValue, error)
}
type whoImpl struct{ tag string }

// Who answers with the tag and how the calling peer is authenticated: "tag;tls" when the
// connection carries verified TLS peer certificates, "tag;plain" otherwise.
func (w *whoImpl) Who(ctx context.Context, in *wrapperspb.StringValue) (*wrapperspb.StringValue, error) {
	if in != nil && strings.HasPrefix(in.Value, "sleep:") {
		if ms, err := strconv.Atoi(in.Value[6:]); err == nil {
			time.Sleep(time.Duration(ms) * time.Millisecond)
		}
	}
	sec := "plain"
	if p, ok := peer.FromContext(ctx); ok {
		if ti, ok := p.AuthInfo.(credentials.TLSInfo); ok && len(ti.State.PeerCertificates) > 0 {
			sec = "tls"
		}
	}
	return wrapperspb.String(w.tag + ";" + sec), nil
}

// LastSec remembers, per brokered id, how the server side saw the last Who caller.
var (
	secMu   sync.Mutex
	LastSec = map[uint32]string{}
)

func splitWho(id uint32, v string) string {
	if i := strings.LastIndex(v, ";"); i >= 0 {
		secMu.Lock()
		LastSec[id] = v[i+1:]
		secMu.Unlock()
		return v[:i]
	}
	return v
}

// SecOf returns "tls", "plain" or "" (unknown / net/rpc) for the last Who call on id made from this process.
func SecOf(id uint32) string {
	secMu.Lock()
	defer secMu.Unlock()
	return LastSec[id]
}

var whoDesc = grpc.ServiceDesc{
	ServiceName: "verif.Who",
	HandlerType: (*whoServer)(nil),
	Methods: []grpc.MethodDesc{{MethodName: "Who", Handler: func(srv interface{}, ctx context.Context, dec func(interface{}) error, _ grpc.UnaryServerInterceptor) (interface{}, error) {
		in := new(wrapperspb.StringValue)
		if err := dec(in); err != nil {
			return nil, err
		}
		return srv.(whoServer).Who(ctx, in)
	}}},
	Metadata: "verif",
}

type MuxAPI struct{ B *plugin.MuxBroker }

func (m MuxAPI) NextId() uint32 { return m.B.NextId() }
func (m MuxAPI) ServeWho(id uint32, tag string) {
	go m.B.AcceptAndServe(id, &WhoRPC{Tag: tag})
}
func (m MuxAPI) DialWho(id uint32) (string, error) {
	conn, err := m.B.Dial(id)
	if err != nil {
		return "", err
	}
	defer conn.Close()
	c := rpc.NewClient(conn)
	var out string
	done := c.Go("Plugin.Who", 0, &out, make(chan *rpc.Call, 1)).Done
	select {
	case call := <-done:
		return out, call.Error
	case <-time.After(10 * time.Second):
		return "", errors.New("who call timed out")
	}
}

func (m MuxAPI) DialKeep(id uint32) (string, error) {
	conn, err := m.B.Dial(id)
	if err != nil {
		return "", err
	}
	c := rpc.NewClient(conn)
	keptMu.Lock()
	keptRPC[keptKey(m.B, id)] = c
	keptMu.Unlock()
	return m.CallKept(id)
}

func (m MuxAPI) CallKept(id uint32) (string, error) {
	keptMu.Lock()
	c := keptRPC[keptKey(m.B, id)]
	keptMu.Unlock()
	if c == nil {
		return "", errors.New("no kept connection")
	}
	var out string
	call := c.Go("Plugin.Who", 0, &out, make(chan *rpc.Call, 1))
	select {
	case <-call.Done:
		return out, call.Error
	case <-time.After(10 * time.Second):
		return "", errors.New("who call timed out")
	}
}

type GRPCAPI struct{ B *plugin.GRPCBroker }

func (g GRPCAPI) NextId() uint32 { return g.B.NextId() }
func (g GRPCAPI) ServeWho(id uint32, tag string) {
	go g.B.AcceptAndServe(id, func(opts []grpc.ServerOption) *grpc.Server {
		s := grpc.NewServer(opts...)
		s.RegisterService(&whoDesc, &whoImpl{tag: tag})
		return s
	})
}

// ServeWhoRaw accepts the id with the broker's Accept and serves the who service on the listener
// itself, never closing it: an application that leaves its brokered listeners to the shutdown.
func (g GRPCAPI) ServeWhoRaw(id uint32, tag string) error {
	ln, err := g.B.Accept(id)
	if err != nil {
		return err
	}
	s := grpc.NewServer()
	s.RegisterService(&whoDesc, &whoImpl{tag: tag})
	go func() {
		s.Serve(ln)
		s.Stop()
	}()
	return nil
}

// AcceptClose reserves the id with the broker's Accept and closes the listener again without ever
// accepting on it (an application that changed its mind).
func (g GRPCAPI) AcceptClose(id uint32) error {
	ln, err := g.B.Accept(id)
	if err != nil {
		return err
	}
	return ln.Close()
}

// ServeWhoRawCloser is ServeWhoRaw for an application that closes its listener when it is done: the
// returned function stops the server and closes the listener.
func (g GRPCAPI) ServeWhoRawCloser(id uint32, tag string) (func(), error) {
	ln, err := g.B.Accept(id)
	if err != nil {
		return nil, err
	}
	s := grpc.NewServer()
	s.RegisterService(&whoDesc, &whoImpl{tag: tag})
	go s.Serve(ln)
	return func() { s.Stop(); ln.Close() }, nil
}

// SharedDialOpts is one option slice with spare capacity, passed by every dialling goroutine (what an
// application that builds its options once with append does).
var SharedDialOpts = append(make([]grpc.DialOption, 0, 8), grpc.WithUserAgent("verif-host"))

func (g GRPCAPI) DialWho(id uint32) (string, error) {
	conn, err := g.B.DialWithOptions(id, SharedDialOpts...)
	if err != nil {
		return "", err
	}
	defer conn.Close()
	ctx, cancel := context.WithTimeout(context.Background(), 10*time.Second)
	defer cancel()
	out := new(wrapperspb.StringValue)
	// fail fast: the first call on a correctly established connection must succeed
	if err := conn.Invoke(ctx, "/verif.Who/Who", wrapperspb.String(""), out); err != nil {
		return "", err
	}
	return splitWho(id, out.Value), nil
}

func whoCall(id uint32, conn *grpc.ClientConn, d time.Duration) (string, error) {
	ctx, cancel := context.WithTimeout(context.Background(), d)
	defer cancel()
	out := new(wrapperspb.StringValue)
	if err := conn.Invoke(ctx, "/verif.Who/Who", wrapperspb.String(""), out); err != nil {
		return "", err
	}
	return splitWho(id, out.Value), nil
}

func (g GRPCAPI) DialKeep(id uint32) (string, error) {
	conn, err := g.B.DialWithOptions(id, SharedDialOpts...)
	if err != nil {
		return "", err
	}
	keptMu.Lock()
	keptGRPC[keptKey(g.B, id)] = conn
	keptMu.Unlock()
	return whoCall(id, conn, 12*time.Second)
}

func (g GRPCAPI) CallKept(id uint32) (string, error) {
	keptMu.Lock()
	conn := keptGRPC[keptKey(g.B, id)]
	keptMu.Unlock()
	if conn == nil {
		return "", errors.New("no kept connection")
	}
	return whoCall(id, conn, 10*time.Second)
}

func (m MuxAPI) SlowKept(id uint32, ms int) error {
	keptMu.Lock()
	c := keptRPC[keptKey(m.B, id)]
	keptMu.Unlock()
	if c == nil {
		return errors.New("no kept connection")
	}
	var out string
	c.Go("Plugin.Who", ms, &out, make(chan *rpc.Call, 1))
	return nil
}

func (g GRPCAPI) SlowKept(id uint32, ms int) error {
	keptMu.Lock()
	conn := keptGRPC[keptKey(g.B, id)]
	keptMu.Unlock()
	if conn == nil {
		return errors.New("no kept connection")
	}
	go func() {
		ctx, cancel := context.WithTimeout(context.Background(), time.Duration(ms+5000)*time.Millisecond)
		defer cancel()
		conn.Invoke(ctx, "/verif.Who/Who", wrapperspb.String("sleep:"+strconv.Itoa(ms)), new(wrapperspb.StringValue))
	}()
	return nil
}

// ---------------------------------------------------------------- the implementation behind a dispensed plugin

var InstanceID = func() string {
	n, _ := rand.Int(rand.Reader, big.NewInt(1<<62))
	return fmt.Sprintf("%d-%x", os.Getpid(), n)
}()

var (
	cellMu sync.Mutex
	cell   = map[string]string{}
)

// CrashHook, when set, is called by the "crash" op and by crash points.
func crashNow(how string) {
	switch how {
	case "kill":
		syscall.Kill(os.Getpid(), syscall.SIGKILL)
		time.Sleep(5 * time.Second)
	default:
		os.Exit(3)
	}
}

type Impl struct {
	Tag    string
	Broker BrokerAPI
}

func Pattern(seed, n int) []byte {
	b := make([]byte, n)
	for i := range b {
		b[i] = byte((seed*131 + i*7 + i/251) & 0xff)
	}
	return b
}

func (im *Impl) Do(c Cmd) Res {
	switch c.Op {
	case "tag":
		return Res{OK: true, S: im.Tag}
	case "instance":
		return Res{OK: true, S: InstanceID, N: os.Getpid()}
	case "echo":
		return Res{OK: true, S: c.S}
	case "put":
		cellMu.Lock()
		cell[im.Tag] = c.S
		cellMu.Unlock()
		return Res{OK: true}
	case "get":
		cellMu.Lock()
		v := cell[im.Tag]
		cellMu.Unlock()
		return Res{OK: true, S: v}
	case "sleep":
		time.Sleep(time.Duration(c.Ms) * time.Millisecond)
		return Res{OK: true}
	case "big":
		return Res{OK: true, S: string(Pattern(c.Seed, c.N)), N: c.N}
	case "bigascii":
		b := make([]byte, c.N)
		for i := range b {
			b[i] = byte('a' + (i*7+c.Seed)%26)
		}
		return Res{OK: true, S: string(b), N: c.N}
	case "serve":
		im.Broker.ServeWho(c.ID, c.S)
		return Res{OK: true}
	case "accept_close":
		// the application reserves the id with the broker's raw Accept and closes the listener again, unused
		if gb, isG := im.Broker.(GRPCAPI); isG {
			if err := gb.AcceptClose(c.ID); err != nil {
				return Res{Err: err.Error()}
			}
		}
		return Res{OK: true}
	case "dial":
		tag, err := im.Broker.DialWho(c.ID)
		if err != nil {
			return Res{Err: err.Error()}
		}
		return Res{OK: true, S: tag, L: []string{SecOf(c.ID)}}
	case "dialkeep":
		tag, err := im.Broker.DialKeep(c.ID)
		if err != nil {
			return Res{Err: err.Error()}
		}
		return Res{OK: true, S: tag}
	case "callkept":
		tag, err := im.Broker.CallKept(c.ID)
		if err != nil {
			return Res{Err: err.Error()}
		}
		return Res{OK: true, S: tag}
	case "slowkept":
		if err := im.Broker.SlowKept(c.ID, c.Ms); err != nil {
			return Res{Err: err.Error()}
		}
		return Res{OK: true}
	case "nextid":
		return Res{OK: true, N: int(im.Broker.NextId())}
	case "script":
		// run a write script given as JSON in c.S
		var ws []StdioWrite
		if err := json.Unmarshal([]byte(c.S), &ws); err != nil {
			return Res{Err: err.Error()}
		}
		RunStdioScript(ws)
		return Res{OK: true}
	case "stdio":
		// write c.N pattern bytes to the process stdout ("out") or stderr ("err")
		w := os.Stdout
		if c.S == "err" {
			w = os.Stderr
		}
		n, err := w.Write(Pattern(c.Seed, c.N))
		if err != nil {
			return Res{Err: err.Error(), N: n}
		}
		return Res{OK: true, N: n}
	case "records":
		// c.N numbered 16-byte records ("%015d\n", counting from c.Seed) on the process stdout ("out") or stderr
		w := os.Stdout
		if c.S == "err" {
			w = os.Stderr
		}
		var buf bytes.Buffer
		for i := 0; i < c.N; i++ {
			fmt.Fprintf(&buf, "%015d\n", c.Seed+i)
			if buf.Len() >= 1<<16 || i == c.N-1 {
				if _, err := w.Write(buf.Bytes()); err != nil {
					return Res{Err: err.Error(), N: i}
				}
				buf.Reset()
			}
		}
		return Res{OK: true, N: c.N}
	case "env":
		return Res{OK: true, L: os.Environ()}
	case "crash":
		if c.Ms > 0 {
			go func() { time.Sleep(time.Duration(c.Ms) * time.Millisecond); crashNow(c.S) }()
			return Res{OK: true}
		}
		crashNow(c.S)
		return Res{OK: true}
	}
	return Res{Err: "unknown op " + c.Op}
}

// ---------------------------------------------------------------- net/rpc transport

type RPCImpl struct{ im *Impl }

func (r *RPCImpl) Call(req string, resp *string) error {
	var c Cmd
	if err := json.Unmarshal([]byte(req), &c); err != nil {
		return err
	}
	b, _ := json.Marshal(r.im.Do(c))
	*resp = string(b)
	return nil
}

// ---------------------------------------------------------------- gRPC transport

type vServer interface {
	Call(context.Context, *wrapperspb.StringValue) (*wrapperspb.StringValue, error)
	Stream(grpc.ServerStream) error
}
type vImpl struct{ im *Impl }

func (v *vImpl) Call(_ context.Context, in *wrapperspb.StringValue) (*wrapperspb.StringValue, error) {
	var c Cmd
	if err := json.Unmarshal([]byte(in.Value), &c); err != nil {
		return nil, err
	}
	b, _ := json.Marshal(v.im.Do(c))
	return wrapperspb.String(string(b)), nil
}

// Stream echoes every message (each message may be a command).
func (v *vImpl) Stream(s grpc.ServerStream) error {
	for {
		in := new(wrapperspb.StringValue)
		if err := s.RecvMsg(in); err != nil {
			return nil
		}
		var c Cmd
		out := in.Value
		if json.Unmarshal([]byte(in.Value), &c) == nil && c.Op != "" {
			b, _ := json.Marshal(v.im.Do(c))
			out = string(b)
		}
		if err := s.SendMsg(wrapperspb.String(out)); err != nil {
			return err
		}
	}
}

func vDesc(name string) *grpc.ServiceDesc {
	return &grpc.ServiceDesc{
		ServiceName: "verif.V." + name,
		HandlerType: (*vServer)(nil),
		Methods: []grpc.MethodDesc{{MethodName: "Call", Handler: func(srv interface{}, ctx context.Context, dec func(interface{}) error, _ grpc.UnaryServerInterceptor) (interface{}, error) {
			in := new(wrapperspb.StringValue)
			if err := dec(in); err != nil {
				return nil, err
			}
			return srv.(vServer).Call(ctx, in)
		}}},
		Streams: []grpc.StreamDesc{{StreamName: "Stream", ServerStreams: true, ClientStreams: true, Handler: func(srv interface{}, stream grpc.ServerStream) error {
			return srv.(vServer).Stream(stream)
		}}},
		Metadata: "verif",
	}
}

// ---------------------------------------------------------------- the Plugin (both protocols, both sides)

// VPlugin is registered under a name in a PluginSet; Tag identifies the set (its version).
type VPlugin struct {
	Name string
	Tag  string
	// OnBroker, if set, is called with the plugin-side broker when the server side is created.
	OnBroker func(BrokerAPI)
}

// Stub is what the host gets from Dispense.
type Stub struct {
	HostTag string
	Broker  BrokerAPI
	Ctx     context.Context // gRPC only: the context handed to GRPCClient
	call    func(ctx context.Context, req string) (string, error)
	stream  func(ctx context.Context) (grpc.ClientStream, error)
}

func (s *Stub) Do(c Cmd) (Res, error) { return s.DoCtx(context.Background(), c) }

func (s *Stub) DoCtx(ctx context.Context, c Cmd) (Res, error) {
	b, _ := json.Marshal(c)
	out, err := s.call(ctx, string(b))
	if err != nil {
		return Res{}, err
	}
	var r Res
	if err := json.Unmarshal([]byte(out), &r); err != nil {
		return Res{}, err
	}
	if !r.OK && r.Err != "" {
		return r, errors.New(r.Err)
	}
	return r, nil
}

// OpenStream opens the bidirectional echo stream (gRPC only).
func (s *Stub) OpenStream(ctx context.Context) (grpc.ClientStream, error) {
	if s.stream == nil {
		return nil, errors.New("no stream on this protocol")
	}
	return s.stream(ctx)
}

// net/rpc
func (p *VPlugin) Server(b *plugin.MuxBroker) (interface{}, error) {
	api := MuxAPI{b}
	if p.OnBroker != nil {
		p.OnBroker(api)
	}
	return &RPCImpl{im: &Impl{Tag: p.Tag, Broker: api}}, nil
}

func (p *VPlugin) Client(b *plugin.MuxBroker, c *rpc.Client) (interface{}, error) {
	return &Stub{HostTag: p.Tag, Broker: MuxAPI{b}, call: func(ctx context.Context, req string) (string, error) {
		var out string
		call := c.Go("Plugin.Call", req, &out, make(chan *rpc.Call, 1))
		select {
		case <-call.Done:
			return out, call.Error
		case <-ctx.Done():
			return "", ctx.Err()
		}
	}}, nil
}

// gRPC
// PluginSideBroker is the broker handed to the serving side of the plugin (last one created).
var PluginSideBroker BrokerAPI

func (p *VPlugin) GRPCServer(b *plugin.GRPCBroker, s *grpc.Server) error {
	api := GRPCAPI{b}
	PluginSideBroker = api
	if p.OnBroker != nil {
		p.OnBroker(api)
	}
	s.RegisterService(vDesc(p.Name), &vImpl{im: &Impl{Tag: p.Tag, Broker: api}})
	return nil
}

func (p *VPlugin) GRPCClient(ctx context.Context, b *plugin.GRPCBroker, conn *grpc.ClientConn) (interface{}, error) {
	name := p.Name
	return &Stub{HostTag: p.Tag, Broker: GRPCAPI{b}, Ctx: ctx,
		call: func(ctx context.Context, req string) (string, error) {
			out := new(wrapperspb.StringValue)
			if err := conn.Invoke(ctx, "/verif.V."+name+"/Call", wrapperspb.String(req), out); err != nil {
				return "", err
			}
			return out.Value, nil
		},
		stream: func(ctx context.Context) (grpc.ClientStream, error) {
			return conn.NewStream(ctx, &grpc.StreamDesc{StreamName: "Stream", ServerStreams: true, ClientStreams: true}, "/verif.V."+name+"/Stream")
		}}, nil
}

// NetRPCOnly wraps VPlugin hiding the gRPC methods, so that Serve classifies the set as net/rpc.
type NetRPCOnly struct{ P *VPlugin }

func (n *NetRPCOnly) Server(b *plugin.MuxBroker) (interface{}, error) { return n.P.Server(b) }
func (n *NetRPCOnly) Client(b *plugin.MuxBroker, c *rpc.Client) (interface{}, error) {
	return n.P.Client(b, c)
}

// Set builds a plugin set {"v": plugin} of the given wire protocol and tag.
func Set(proto, tag string) plugin.PluginSet {
	p := &VPlugin{Name: "v", Tag: tag}
	if proto == "grpc" {
		return plugin.PluginSet{"v": p}
	}
	return plugin.PluginSet{"v": &NetRPCOnly{P: p}}
}

// ---------------------------------------------------------------- configuration of the plugin binary

type SetCfg struct {
	Proto string `json:"proto"`
	Tag   string `json:"tag"`
}

type CrashCfg struct {
	Event   string `json:"event"`
	Nth     int    `json:"nth"`
	How     string `json:"how"`
	DelayMs int    `json:"delay_ms"`
}

type PluginCfg struct {
	CookieKey     string         `json:"cookie_key"`
	CookieValue   string         `json:"cookie_value"`
	LegacyVersion uint           `json:"legacy_version"`
	Legacy        *SetCfg        `json:"legacy,omitempty"`
	Versioned     map[int]SetCfg `json:"versioned,omitempty"`
	GRPCServer    bool           `json:"grpc_server"`
	TLS           string         `json:"tls"`      // "", "static"
	CertPEM       string         `json:"cert_pem"` // static TLS material (shared with the host)
	KeyPEM        string         `json:"key_pem"`
	AfterServe    string         `json:"after_serve"` // "", "sleep:<ms>", "hang"
	Marker        string         `json:"marker"`
	MockLine      string         `json:"mock_line"`
	MockThen      string         `json:"mock_then"` // "idle", "exit", "close", "idle-after:<ms>"
	Crash         *CrashCfg      `json:"crash,omitempty"`
	EventLog      string         `json:"event_log"` // NDJSON file for hook events of the plugin process
	PreStdout     string         `json:"pre_stdout"`
	IgnoreTerm    bool           `json:"ignore_term"`
	// StdioScript is written to the (swapped) process stdout/stderr as soon as serving starts,
	// i.e. possibly before the host has attached.
	StdioScript []StdioWrite `json:"stdio_script,omitempty"`
	// OnShutdownServe: when the shutdown request arrives (hook grpc.shutdown), accept this brokered
	// id first -- a broker message sent after the host has closed its broker.
	OnShutdownServe uint32 `json:"on_shutdown_serve,omitempty"`
	// HoldEvent/HoldMs: the goroutine reaching this hook point sleeps there (every time)
	HoldEvent string `json:"hold_event,omitempty"`
	HoldMs    int    `json:"hold_ms,omitempty"`
}

type StdioWrite struct {
	Stream string `json:"stream"` // "out", "err"
	N      int    `json:"n"`
	Seed   int    `json:"seed"`
	GapMs  int    `json:"gap_ms"`
}

// RunStdioScript performs the writes (one goroutine per stream, so that the streams interleave).
// Scripts started one after the other write each stream in the order they were started: a
// script's writer for a stream waits for the previous script's writer of the same stream.
func RunStdioScript(ws []StdioWrite) {
	for _, st := range []string{"out", "err"} {
		st := st
		stdioMu.Lock()
		prev := stdioPrev[st]
		done := make(chan struct{})
		stdioPrev[st] = done
		stdioMu.Unlock()
		go func() {
			defer close(done)
			if prev != nil {
				<-prev
			}
			for _, w := range ws {
				if w.Stream != st {
					continue
				}
				if w.GapMs > 0 {
					time.Sleep(time.Duration(w.GapMs) * time.Millisecond)
				}
				f := os.Stdout
				if st == "err" {
					f = os.Stderr
				}
				f.Write(Pattern(w.Seed, w.N))
			}
		}()
	}
}

var (
	stdioMu   sync.Mutex
	stdioPrev = map[string]chan struct{}{}
)

const (
	CookieKey   = "VERIF_PLUGIN_COOKIE"
	CookieValue = "b7e1f0c2-verif"
	CfgEnv      = "VPLUGIN_CFG"
)

// StaticTLS generates a key pair both sides can use (server cert = client CA and vice versa).
func StaticTLS() (certPEM, keyPEM string, cfg *tls.Config) {
	key, _ := ecdsa.GenerateKey(elliptic.P256(), rand.Reader)
	tmpl := &x509.Certificate{SerialNumber: big.NewInt(11), Subject: pkix.Name{CommonName: "localhost"},
		DNSNames: []string{"localhost"}, NotBefore: time.Now().Add(-time.Hour), NotAfter: time.Now().Add(48 * time.Hour),
		KeyUsage: x509.KeyUsageDigitalSignature | x509.KeyUsageCertSign, IsCA: true, BasicConstraintsValid: true,
		ExtKeyUsage: []x509.ExtKeyUsage{x509.ExtKeyUsageClientAuth, x509.ExtKeyUsageServerAuth}}
	der, _ := x509.CreateCertificate(rand.Reader, tmpl, tmpl, key.Public(), key)
	kb, _ := x509.MarshalECPrivateKey(key)
	certPEM = string(pem.EncodeToMemory(&pem.Block{Type: "CERTIFICATE", Bytes: der}))
	keyPEM = string(pem.EncodeToMemory(&pem.Block{Type: "EC PRIVATE KEY", Bytes: kb}))
	cfg, _ = TLSFromPEM(certPEM, keyPEM)
	return
}

func TLSFromPEM(certPEM, keyPEM string) (*tls.Config, error) {
	cert, err := tls.X509KeyPair([]byte(certPEM), []byte(keyPEM))
	if err != nil {
		return nil, err
	}
	pool := x509.NewCertPool()
	pool.AppendCertsFromPEM([]byte(certPEM))
	return &tls.Config{Certificates: []tls.Certificate{cert}, RootCAs: pool, ClientCAs: pool,
		ClientAuth: tls.RequireAndVerifyClientCert, ServerName: "localhost", MinVersion: tls.VersionTLS12}, nil
}

// ServeConfig builds the plugin.ServeConfig for a PluginCfg.
func (pc *PluginCfg) ServeConfig() *plugin.ServeConfig {
	sc := &plugin.ServeConfig{
		HandshakeConfig: plugin.HandshakeConfig{ProtocolVersion: pc.LegacyVersion, MagicCookieKey: pc.CookieKey, MagicCookieValue: pc.CookieValue},
	}
	if pc.Legacy != nil {
		sc.Plugins = Set(pc.Legacy.Proto, pc.Legacy.Tag)
	}
	if len(pc.Versioned) > 0 {
		sc.VersionedPlugins = map[int]plugin.PluginSet{}
		for v, s := range pc.Versioned {
			sc.VersionedPlugins[v] = Set(s.Proto, s.Tag)
		}
	}
	if pc.GRPCServer {
		sc.GRPCServer = plugin.DefaultGRPCServer
	}
	if pc.TLS == "static_open" {
		// a server that presents the given chain and does not care who connects (impostor scenarios)
		sc.TLSProvider = func() (*tls.Config, error) {
			cert, err := tls.X509KeyPair([]byte(pc.CertPEM), []byte(pc.KeyPEM))
			if err != nil {
				return nil, err
			}
			return &tls.Config{Certificates: []tls.Certificate{cert}, ClientAuth: tls.NoClientCert, MinVersion: tls.VersionTLS12}, nil
		}
	}
	if pc.TLS == "static" {
		sc.TLSProvider = func() (*tls.Config, error) { return TLSFromPEM(pc.CertPEM, pc.KeyPEM) }
	}
	return sc
}

func ParseAfter(s string) (kind string, ms int) {
	if strings.HasPrefix(s, "sleep:") {
		fmt.Sscanf(s[6:], "%d", &ms)
		return "sleep", ms
	}
	return s, 0
}
