package vp

import (
	"context"
	"encoding/json"
	"fmt"
	"google.golang.org/grpc"
	"io"
	"net"
	"os"
	"os/exec"
	"strings"
	"sync"
	"sync/atomic"
	"time"

	hclog "github.com/hashicorp/go-hclog"
	plugin "github.com/hashicorp/go-plugin"
	"github.com/hashicorp/go-plugin/internal/cmdrunner"
	"github.com/hashicorp/go-plugin/runner"
)

// HostCfg describes the client side of a host/plugin pair.
type HostCfg struct {
	LegacyVersion  uint           `json:"legacy_version"`
	Legacy         *SetCfg        `json:"legacy,omitempty"`
	Versioned      map[int]SetCfg `json:"versioned,omitempty"`
	Allowed        []string       `json:"allowed"`     // nil = unset
	AllowedSet     bool           `json:"allowed_set"` // true: use Allowed even if empty
	TLS            string         `json:"tls"`         // "", "static", "auto"
	Mux            bool           `json:"mux"`
	Launch         string         `json:"launch"`    // "cmd" (default), "runner"
	Forward        bool           `json:"forward"`   // runner launch: publish Unix sockets across as loopback TCP forwards
	Translate      string         `json:"translate"` // runner launch: "tcpforward" (same as Forward) or "symlink" (the plugin sees the socket directory under another path)
	StartTimeoutMs int            `json:"start_timeout_ms"`
	SkipHostEnv    bool           `json:"skip_host_env"`
	TempDir        string         `json:"temp_dir"`
	Managed        bool           `json:"managed"`
	// DialBlock: the host asks for a blocking dial of the main gRPC connection (GRPCDialOptions: grpc.WithBlock())
	DialBlock bool `json:"dial_block"`
}

// WrapRunner wraps the stock command runner and counts what the client does with it.
type WrapRunner struct {
	runner.Runner
	Kills  atomic.Int32
	Starts atomic.Int32
	Cmd    *exec.Cmd
	TmpDir string

	Forward    bool
	PluginView string // the path under which the plugin sees TmpDir (a symlink), "" = the same path
	fwdMu      sync.Mutex
	fwd        []net.Listener
}

func (w *WrapRunner) Start(ctx context.Context) error { w.Starts.Add(1); return w.Runner.Start(ctx) }
func (w *WrapRunner) Kill(ctx context.Context) error {
	w.Kills.Add(1)
	w.fwdMu.Lock()
	for _, l := range w.fwd {
		l.Close()
	}
	w.fwd = nil
	w.fwdMu.Unlock()
	if w.PluginView != "" {
		os.Remove(w.PluginView)
	}
	return w.Runner.Kill(ctx)
}

// With Forward set the runner is one whose plugin lives "elsewhere": every Unix socket of one side
// is published to the other side as a TCP address on the loopback interface that forwards to it
// (the address translation a container runner does). Both the network and the address change.
func (w *WrapRunner) forward(path string) (string, error) {
	ln, err := net.Listen("tcp", "127.0.0.1:0")
	if err != nil {
		return "", err
	}
	w.fwdMu.Lock()
	w.fwd = append(w.fwd, ln)
	w.fwdMu.Unlock()
	go func() {
		for {
			c, err := ln.Accept()
			if err != nil {
				return
			}
			go func() {
				d, err := net.Dial("unix", path)
				if err != nil {
					c.Close()
					return
				}
				go func() { io.Copy(d, c); d.Close() }()
				io.Copy(c, d)
				c.Close()
			}()
		}
	}()
	return ln.Addr().String(), nil
}

// With PluginView set the plugin sees the socket directory under another path than the host does
// (a bind mount): each side's addresses have to be translated for the other, and an address handed
// to the translation of the wrong direction is refused.
func (w *WrapRunner) PluginToHost(network, addr string) (string, string, error) {
	if w.PluginView != "" && network == "unix" {
		if !strings.HasPrefix(addr, w.PluginView+"/") {
			return "", "", fmt.Errorf("PluginToHost: %q is not a plugin-side address", addr)
		}
		return "unix", w.TmpDir + strings.TrimPrefix(addr, w.PluginView), nil
	}
	if !w.Forward || network != "unix" {
		return w.Runner.PluginToHost(network, addr)
	}
	a, err := w.forward(addr)
	return "tcp", a, err
}

func (w *WrapRunner) HostToPlugin(network, addr string) (string, string, error) {
	if w.PluginView != "" && network == "unix" {
		if !strings.HasPrefix(addr, w.TmpDir+"/") {
			return "", "", fmt.Errorf("HostToPlugin: %q is not a host-side address", addr)
		}
		return "unix", w.PluginView + strings.TrimPrefix(addr, w.TmpDir), nil
	}
	if !w.Forward || network != "unix" {
		return w.Runner.HostToPlugin(network, addr)
	}
	a, err := w.forward(addr)
	return "tcp", a, err
}

// Pair is a configured client plus handles for observation.
type Pair struct {
	Client *plugin.Client
	Config *plugin.ClientConfig
	Cmd    *exec.Cmd
	Wrap   *WrapRunner // when Launch == "runner"
	Stderr *SyncBuf
	Out    *SyncBuf // SyncStdout
	Err    *SyncBuf // SyncStderr
}

func sets(legacyVersion uint, legacy *SetCfg, versioned map[int]SetCfg, cfg *plugin.ClientConfig) {
	cfg.ProtocolVersion = legacyVersion
	if legacy != nil {
		cfg.Plugins = Set(legacy.Proto, legacy.Tag)
		// a plugin name only the host knows about (the plugin does not serve it)
		cfg.Plugins["ghost"] = &VPlugin{Name: "ghost", Tag: legacy.Tag}
	}
	if len(versioned) > 0 {
		cfg.VersionedPlugins = map[int]plugin.PluginSet{}
		for v, s := range versioned {
			cfg.VersionedPlugins[v] = Set(s.Proto, s.Tag)
		}
	}
}

// NewPair builds the command for the vplugin binary with the given plugin config and the client.
func NewPair(bin string, hc *HostCfg, pc *PluginCfg, extraEnv []string, logger hclog.Logger) *Pair {
	if pc.CookieKey == "" {
		pc.CookieKey, pc.CookieValue = CookieKey, CookieValue
	}
	pcb, _ := json.Marshal(pc)
	cmd := exec.Command(bin)
	cmd.Env = append(cmd.Env, CfgEnv+"="+string(pcb))
	cmd.Env = append(cmd.Env, extraEnv...)
	if logger == nil {
		logger = hclog.NewNullLogger()
	}
	p := &Pair{Cmd: cmd, Stderr: &SyncBuf{}, Out: &SyncBuf{}, Err: &SyncBuf{}}
	cfg := &plugin.ClientConfig{
		HandshakeConfig: plugin.HandshakeConfig{MagicCookieKey: CookieKey, MagicCookieValue: CookieValue},
		Logger:          logger,
		Stderr:          p.Stderr,
		SyncStdout:      p.Out,
		SyncStderr:      p.Err,
		SkipHostEnv:     hc.SkipHostEnv,
		Managed:         hc.Managed,
	}
	sets(hc.LegacyVersion, hc.Legacy, hc.Versioned, cfg)
	if hc.Allowed != nil || hc.AllowedSet {
		cfg.AllowedProtocols = []plugin.Protocol{}
		for _, a := range hc.Allowed {
			cfg.AllowedProtocols = append(cfg.AllowedProtocols, plugin.Protocol(a))
		}
	}
	switch hc.TLS {
	case "static":
		t, _ := TLSFromPEM(pc.CertPEM, pc.KeyPEM)
		cfg.TLSConfig = t
	case "auto":
		cfg.AutoMTLS = true
	}
	cfg.GRPCBrokerMultiplex = hc.Mux
	if hc.DialBlock {
		cfg.GRPCDialOptions = []grpc.DialOption{grpc.WithBlock()}
	}
	if hc.StartTimeoutMs > 0 {
		cfg.StartTimeout = time.Duration(hc.StartTimeoutMs) * time.Millisecond
	} else {
		cfg.StartTimeout = 10 * time.Second
	}
	if hc.TempDir != "" {
		cfg.UnixSocketConfig = &plugin.UnixSocketConfig{TempDir: hc.TempDir}
	}
	if hc.Launch == "runner" {
		p.Wrap = &WrapRunner{Forward: hc.Forward || hc.Translate == "tcpforward"}
		cfg.RunnerFunc = func(l hclog.Logger, c *exec.Cmd, tmpDir string) (runner.Runner, error) {
			// the template command has an empty path: run our binary with the prepared environment
			real := exec.Command(bin)
			real.Env = append(real.Env, cmd.Env...)
			real.Env = append(real.Env, c.Env...)
			real.Stdin = c.Stdin
			r, err := cmdrunner.NewCmdRunner(l, real)
			if err != nil {
				return nil, err
			}
			if hc.Translate == "symlink" {
				view := tmpDir + ".pluginview"
				os.Remove(view)
				if err := os.Symlink(tmpDir, view); err != nil {
					return nil, err
				}
				p.Wrap.PluginView = view
				real.Env = append(real.Env, "PLUGIN_UNIX_SOCKET_DIR="+view)
			}
			p.Wrap.Runner = r
			p.Wrap.Cmd = real
			p.Wrap.TmpDir = tmpDir
			return p.Wrap, nil
		}
	} else {
		cfg.Cmd = cmd
	}
	p.Config = cfg
	p.Client = plugin.NewClient(cfg)
	return p
}

// Pid of the plugin process (0 if not started).
func (p *Pair) Pid() int {
	if p.Wrap != nil && p.Wrap.Cmd != nil && p.Wrap.Cmd.Process != nil {
		return p.Wrap.Cmd.Process.Pid
	}
	if p.Cmd.Process != nil {
		return p.Cmd.Process.Pid
	}
	return 0
}

// Dispense returns the stub of plugin "v".
func (p *Pair) Dispense() (*Stub, plugin.ClientProtocol, error) {
	cp, err := p.Client.Client()
	if err != nil {
		return nil, nil, err
	}
	raw, err := cp.Dispense("v")
	if err != nil {
		return nil, cp, err
	}
	return raw.(*Stub), cp, nil
}

// PidGone reports whether no process with that pid exists any more (reaped or never ours).
func PidGone(pid int) bool {
	if pid <= 0 {
		return true
	}
	_, err := os.Stat("/proc/" + itoa(pid))
	return err != nil
}

// PidState returns the state letter from /proc/<pid>/stat ("" if gone).
func PidState(pid int) string {
	b, err := os.ReadFile("/proc/" + itoa(pid) + "/stat")
	if err != nil {
		return ""
	}
	s := string(b)
	// pid (comm) S ...
	i := len(s) - 1
	for i >= 0 && s[i] != ')' {
		i--
	}
	if i+2 < len(s) {
		return string(s[i+2])
	}
	return "?"
}

func itoa(n int) string {
	if n == 0 {
		return "0"
	}
	neg := n < 0
	if neg {
		n = -n
	}
	var b [20]byte
	i := len(b)
	for n > 0 {
		i--
		b[i] = byte('0' + n%10)
		n /= 10
	}
	if neg {
		i--
		b[i] = '-'
	}
	return string(b[i:])
}

// SyncBuf is a goroutine-safe byte sink.
type SyncBuf struct {
	buf []byte
}

var syncBufMu sync.Mutex

func (s *SyncBuf) Write(p []byte) (int, error) {
	syncBufMu.Lock()
	s.buf = append(s.buf, p...)
	syncBufMu.Unlock()
	return len(p), nil
}

func (s *SyncBuf) Bytes() []byte {
	syncBufMu.Lock()
	defer syncBufMu.Unlock()
	return append([]byte(nil), s.buf...)
}

func (s *SyncBuf) Len() int {
	syncBufMu.Lock()
	defer syncBufMu.Unlock()
	return len(s.buf)
}

var _ io.Writer = (*SyncBuf)(nil)
