// Package sched is the event sink and gate controller behind the verif hook
// points of go-plugin. A Recorder receives every hook point (and the
// call/return events the drivers add), gives each a sequence number under its
// own mutex, and can hold the calling goroutine at selected points ("gates")
// until the controller releases it.
package sched

import (
	"bytes"
	"encoding/json"
	"fmt"
	"os"
	"reflect"
	"runtime"
	"strconv"
	"sync"
	"time"
)

// Event is one line of the NDJSON trace.
type Event struct {
	Seq int64  `json:"seq"`
	Ev  string `json:"ev"`
	Obj string `json:"obj"`
	A   int64  `json:"a"`
	B   int64  `json:"b"`
	G   string `json:"g"`
	T   int64  `json:"t"` // ms since the recorder was created (virtual time inside a bubble)
	// free-form fields added by drivers (call/ret events)
	F map[string]interface{} `json:"f,omitempty"`
}

// Arrival is a goroutine parked at a gate.
type Arrival struct {
	Event   Event
	release chan struct{}
	done    bool
}

// Recorder collects events and controls gates.
type Recorder struct {
	mu      sync.Mutex
	seq     int64
	start   time.Time
	events  []Event
	objName map[uintptr]string
	objN    int
	gName   map[int64]string
	gates   map[string]bool
	allGate bool
	waiting []*Arrival
	filter  func(ev string, obj interface{}) bool
	Arrived chan struct{} // signalled (non-blocking) on each arrival at a gate
	closed  bool
}

// NewRecorder returns an empty recorder with no gates.
func NewRecorder() *Recorder {
	return &Recorder{
		start:   time.Now(),
		objName: map[uintptr]string{},
		gName:   map[int64]string{},
		gates:   map[string]bool{},
		Arrived: make(chan struct{}, 1),
	}
}

// SetGates makes the named hook points gating.
func (r *Recorder) SetGates(names ...string) {
	r.mu.Lock()
	defer r.mu.Unlock()
	r.gates = map[string]bool{}
	for _, n := range names {
		r.gates[n] = true
	}
}

// SetFilter installs a predicate; events for which it returns false are ignored.
func (r *Recorder) SetFilter(f func(ev string, obj interface{}) bool) {
	r.mu.Lock()
	defer r.mu.Unlock()
	r.filter = f
}

// NameObj gives a stable name to an object (pointer identity).
func (r *Recorder) NameObj(obj interface{}, name string) {
	p := ptrOf(obj)
	r.mu.Lock()
	defer r.mu.Unlock()
	r.objName[p] = name
}

// LabelG labels the calling goroutine.
func (r *Recorder) LabelG(name string) {
	g := goid()
	r.mu.Lock()
	defer r.mu.Unlock()
	r.gName[g] = name
}

func ptrOf(obj interface{}) uintptr {
	if obj == nil {
		return 0
	}
	v := reflect.ValueOf(obj)
	switch v.Kind() {
	case reflect.Ptr, reflect.Chan, reflect.Map, reflect.Func, reflect.UnsafePointer, reflect.Slice:
		return v.Pointer()
	}
	return 0
}

func goid() int64 {
	var buf [64]byte
	n := runtime.Stack(buf[:], false)
	// "goroutine 123 [running]:"
	b := buf[:n]
	b = bytes.TrimPrefix(b, []byte("goroutine "))
	i := bytes.IndexByte(b, ' ')
	if i < 0 {
		return -1
	}
	id, _ := strconv.ParseInt(string(b[:i]), 10, 64)
	return id
}

// Hook is the function to install with plugin.VerifSetHook.
func (r *Recorder) Hook(ev string, obj interface{}, a, b int64) {
	r.mu.Lock()
	if r.closed || (r.filter != nil && !r.filter(ev, obj)) {
		r.mu.Unlock()
		return
	}
	e := r.newEventLocked(ev, obj, a, b, nil)
	var arr *Arrival
	if r.gates[ev] || r.allGate {
		arr = &Arrival{Event: e, release: make(chan struct{})}
		r.waiting = append(r.waiting, arr)
	}
	r.mu.Unlock()
	if arr != nil {
		select {
		case r.Arrived <- struct{}{}:
		default:
		}
		<-arr.release
	}
}

func (r *Recorder) newEventLocked(ev string, obj interface{}, a, b int64, f map[string]interface{}) Event {
	r.seq++
	g := goid()
	gn, ok := r.gName[g]
	if !ok {
		gn = "g" + strconv.FormatInt(g, 10)
	}
	on := ""
	if s, ok := obj.(string); ok {
		on = s
	} else if p := ptrOf(obj); p != 0 {
		on, ok = r.objName[p]
		if !ok {
			r.objN++
			on = "o" + strconv.Itoa(r.objN)
			r.objName[p] = on
		}
	}
	e := Event{Seq: r.seq, Ev: ev, Obj: on, A: a, B: b, G: gn, T: time.Since(r.start).Milliseconds(), F: f}
	r.events = append(r.events, e)
	return e
}

// Log records a driver event (never gates).
func (r *Recorder) Log(ev string, obj interface{}, a, b int64, f map[string]interface{}) Event {
	r.mu.Lock()
	defer r.mu.Unlock()
	return r.newEventLocked(ev, obj, a, b, f)
}

// Waiting returns the goroutines currently parked at gates, in arrival order.
func (r *Recorder) Waiting() []*Arrival {
	r.mu.Lock()
	defer r.mu.Unlock()
	out := make([]*Arrival, 0, len(r.waiting))
	for _, a := range r.waiting {
		if !a.done {
			out = append(out, a)
		}
	}
	return out
}

// Release lets the goroutine parked at a continue.
func (r *Recorder) Release(a *Arrival) {
	r.mu.Lock()
	if a.done {
		r.mu.Unlock()
		return
	}
	a.done = true
	w := r.waiting[:0]
	for _, x := range r.waiting {
		if x != a {
			w = append(w, x)
		}
	}
	r.waiting = w
	r.mu.Unlock()
	close(a.release)
}

// ReleaseAll opens every gate for good: parked goroutines continue and later
// arrivals no longer block.
func (r *Recorder) ReleaseAll() {
	r.mu.Lock()
	r.gates = map[string]bool{}
	r.allGate = false
	w := r.waiting
	r.waiting = nil
	r.mu.Unlock()
	for _, a := range w {
		if !a.done {
			a.done = true
			close(a.release)
		}
	}
}

// Close stops recording (later hook points are ignored) and opens all gates.
func (r *Recorder) Close() {
	r.ReleaseAll()
	r.mu.Lock()
	r.closed = true
	r.mu.Unlock()
}

// Events returns a copy of the recorded events.
func (r *Recorder) Events() []Event {
	r.mu.Lock()
	defer r.mu.Unlock()
	return append([]Event(nil), r.events...)
}

// Len is the number of events so far.
func (r *Recorder) Len() int {
	r.mu.Lock()
	defer r.mu.Unlock()
	return len(r.events)
}

// WriteNDJSON appends events (flattened) to w.
func WriteNDJSON(f *os.File, evs []Event, extra map[string]interface{}) error {
	for _, e := range evs {
		m := map[string]interface{}{"seq": e.Seq, "ev": e.Ev, "obj": e.Obj, "a": e.A, "b": e.B, "g": e.G, "t": e.T}
		for k, v := range e.F {
			m[k] = v
		}
		for k, v := range extra {
			m[k] = v
		}
		b, err := json.Marshal(m)
		if err != nil {
			return err
		}
		if _, err := f.Write(append(b, '\n')); err != nil {
			return err
		}
	}
	return nil
}

// GoroutineDump returns the stacks of all goroutines.
func GoroutineDump() string {
	buf := make([]byte, 1<<20)
	for {
		n := runtime.Stack(buf, true)
		if n < len(buf) {
			return string(buf[:n])
		}
		buf = make([]byte, 2*len(buf))
	}
}

// Fatalf is a helper for drivers: print and exit 2 (inconclusive).
func Fatalf(format string, args ...interface{}) {
	fmt.Fprintf(os.Stderr, "DRIVER-ERROR: "+format+"\n", args...)
	os.Exit(2)
}
