// vplugin is the configurable plugin binary used by the process-level drivers.
package main

func main() { run() }
