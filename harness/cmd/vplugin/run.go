package main

import (
	"bufio"
	"encoding/base64"
	"encoding/json"
	"encoding/pem"
	"fmt"
	"io"
	"net"
	"os"
	"os/exec"
	"os/signal"
	"runtime"
	"strings"
	"sync"
	"sync/atomic"
	"syscall"
	"time"

	plugin "github.com/hashicorp/go-plugin"
	"github.com/hashicorp/go-plugin/verifharness/vp"
)

// impostor: run the real plugin as a child and announce a different certificate than the one it
// serves with.
func impostor() {
	// the child must not outlive this wrapper (it would keep the host's stderr pipe open)
	runtime.LockOSThread()
	cmd := exec.Command(os.Args[0])
	cmd.SysProcAttr = &syscall.SysProcAttr{Pdeathsig: syscall.SIGKILL}
	mode := os.Getenv("VPLUGIN_IMPOSTOR")
	for _, e := range os.Environ() {
		if strings.HasPrefix(e, "VPLUGIN_IMPOSTOR=") || strings.HasPrefix(e, "VPLUGIN_IMPOSTOR_TCP=") {
			continue
		}
		if mode == "nocert" && strings.HasPrefix(e, "PLUGIN_CLIENT_CERT=") {
			// a program that ignores the host's request for mutual TLS: it announces no
			// certificate and serves in plaintext
			continue
		}
		if (mode == "chain" || mode == "replay") && (strings.HasPrefix(e, "PLUGIN_CLIENT_CERT=") || strings.HasPrefix(e, vp.CfgEnv+"=")) {
			continue
		}
		cmd.Env = append(cmd.Env, e)
	}
	var announcedPEM string
	if mode == "chain" {
		// Announce certificate X, serve with a key pair Y of our own and append X (public) to the
		// chain we present: we hold no key for what we announced.
		xPEM, _, _ := vp.StaticTLS()
		yPEM, yKey, _ := vp.StaticTLS()
		announcedPEM = xPEM
		var cfg map[string]interface{}
		json.Unmarshal([]byte(os.Getenv(vp.CfgEnv)), &cfg)
		cfg["tls"], cfg["cert_pem"], cfg["key_pem"] = "static_open", yPEM+xPEM, yKey
		b, _ := json.Marshal(cfg)
		cmd.Env = append(cmd.Env, vp.CfgEnv+"="+string(b))
	}
	if mode == "replay" {
		// First launch (no state file yet): an honest plugin with key pair A -- it announces A and serves
		// with A; the key pair is kept in the state file. Later launches: the same key pair A is served
		// again, but a fresh certificate X is announced.
		state := os.Getenv("VPLUGIN_IMPOSTOR_STATE")
		var aPEM, aKey string
		if b, err := os.ReadFile(state); err == nil {
			var st [2]string
			json.Unmarshal(b, &st)
			aPEM, aKey = st[0], st[1]
			announcedPEM, _, _ = vp.StaticTLS()
		} else {
			aPEM, aKey, _ = vp.StaticTLS()
			b, _ := json.Marshal([2]string{aPEM, aKey})
			os.WriteFile(state, b, 0o600)
			announcedPEM = aPEM
		}
		var cfg map[string]interface{}
		json.Unmarshal([]byte(os.Getenv(vp.CfgEnv)), &cfg)
		cfg["tls"], cfg["cert_pem"], cfg["key_pem"] = "static_open", aPEM, aKey
		b, _ := json.Marshal(cfg)
		cmd.Env = append(cmd.Env, vp.CfgEnv+"="+string(b))
	}
	cmd.Stderr = os.Stderr
	stdout, _ := cmd.StdoutPipe()
	if err := cmd.Start(); err != nil {
		os.Exit(70)
	}
	rd := bufio.NewReader(stdout)
	line, _ := rd.ReadString('\n')
	parts := strings.Split(strings.TrimRight(line, "\n"), "|")
	switch mode {
	case "chain", "replay":
		for len(parts) < 6 {
			parts = append(parts, "")
		}
		blk, _ := pem.Decode([]byte(announcedPEM))
		parts[5] = base64.RawStdEncoding.EncodeToString(blk.Bytes)
	case "nocert": // the line is passed on as the plaintext child printed it
	case "legacyline": // a plugin from before the protocol field: core version, app version, network, address
		if len(parts) > 4 {
			parts = parts[:4]
		}
	case "dropmux": // an old plugin: never prints the multiplexing field
		if len(parts) > 6 {
			parts = parts[:6]
		}
	case "muxfalse": // a plugin that says it does not support multiplexing
		if len(parts) > 6 {
			parts[6] = "false"
		}
	default:
		if len(parts) >= 6 {
			certPEM, _, _ := vp.StaticTLS()
			blk, _ := pem.Decode([]byte(certPEM))
			parts[5] = base64.RawStdEncoding.EncodeToString(blk.Bytes)
		}
	}
	if os.Getenv("VPLUGIN_IMPOSTOR_TCP") != "" && len(parts) >= 4 && parts[2] == "unix" {
		// announce a TCP address: every connection to it is passed on, byte for byte, to the child's socket
		if ln, err := net.Listen("tcp", "127.0.0.1:0"); err == nil {
			target := parts[3]
			go func() {
				for {
					c, err := ln.Accept()
					if err != nil {
						return
					}
					go func() {
						u, err := net.Dial("unix", target)
						if err != nil {
							c.Close()
							return
						}
						go func() { io.Copy(u, c); u.Close() }()
						io.Copy(c, u)
						c.Close()
					}()
				}
			}()
			parts[2], parts[3] = "tcp", ln.Addr().String()
		}
	}
	fmt.Println(strings.Join(parts, "|"))
	os.Stdout.Sync()
	go io.Copy(os.Stdout, rd)
	ch := make(chan os.Signal, 1)
	signal.Notify(ch, syscall.SIGTERM)
	go func() { <-ch; cmd.Process.Kill() }()
	cmd.Wait()
	os.Exit(0)
}

func run() {
	if os.Getenv("VPLUGIN_IMPOSTOR") != "" {
		impostor()
	}
	var pc vp.PluginCfg
	raw := os.Getenv(vp.CfgEnv)
	if raw == "" {
		fmt.Fprintln(os.Stderr, "vplugin: no "+vp.CfgEnv)
		os.Exit(64)
	}
	if err := json.Unmarshal([]byte(raw), &pc); err != nil {
		fmt.Fprintln(os.Stderr, "vplugin: bad config:", err)
		os.Exit(64)
	}
	if pc.IgnoreTerm {
		signal.Ignore(syscall.SIGTERM)
	}

	// hook events of the plugin process: crash points and (optionally) an event log
	var logMu sync.Mutex
	var logF *os.File
	if pc.EventLog != "" {
		logF, _ = os.OpenFile(pc.EventLog, os.O_CREATE|os.O_APPEND|os.O_WRONLY, 0o644)
	}
	var seq int64
	counts := map[string]int{}
	logEvent := func(ev string, a, b int64) {
		if logF == nil {
			return
		}
		n := atomic.AddInt64(&seq, 1)
		line, _ := json.Marshal(map[string]interface{}{"seq": n, "ev": ev, "a": a, "b": b, "pid": os.Getpid(), "t": time.Now().UnixMilli()})
		logMu.Lock()
		logF.Write(append(line, '\n'))
		logMu.Unlock()
	}
	plugin.VerifSetHook(func(ev string, obj interface{}, a, b int64) {
		logEvent(ev, a, b)
		if ev == "grpc.shutdown" && pc.OnShutdownServe > 0 && vp.PluginSideBroker != nil {
			vp.PluginSideBroker.ServeWho(pc.OnShutdownServe, "late")
			time.Sleep(150 * time.Millisecond)
		}
		if ev == "serve.stdio.swapped" && len(pc.StdioScript) > 0 {
			vp.RunStdioScript(pc.StdioScript)
		}
		if pc.HoldEvent == ev && pc.HoldMs > 0 {
			time.Sleep(time.Duration(pc.HoldMs) * time.Millisecond)
		}
		if pc.Crash != nil && pc.Crash.Event == ev {
			logMu.Lock()
			counts[ev]++
			n := counts[ev]
			logMu.Unlock()
			if n == pc.Crash.Nth || (pc.Crash.Nth == 0 && n == 1) {
				if pc.Crash.DelayMs > 0 {
					time.Sleep(time.Duration(pc.Crash.DelayMs) * time.Millisecond)
				}
				if pc.Crash.How == "kill" {
					syscall.Kill(os.Getpid(), syscall.SIGKILL)
					time.Sleep(5 * time.Second)
				}
				os.Exit(3)
			}
		}
	})

	if pc.PreStdout != "" {
		os.Stdout.WriteString(pc.PreStdout)
	}

	if pc.MockLine != "" || pc.MockThen != "" {
		// do not serve: print the given bytes as the first stdout output and behave as told
		os.Stdout.WriteString(pc.MockLine)
		switch pc.MockThen {
		case "exit":
			os.Exit(0)
		case "close":
			os.Stdout.Close()
			select {}
		case "closeboth":
			os.Stdout.Close()
			os.Stderr.Close()
			select {}
		default:
			select {}
		}
	}

	sc := pc.ServeConfig()
	plugin.Serve(sc)

	// Serve returned: the host asked us to quit (or the listener failed)
	logEvent("vplugin.serve.returned", 0, 0)
	kind, ms := vp.ParseAfter(pc.AfterServe)
	switch kind {
	case "sleep":
		time.Sleep(time.Duration(ms) * time.Millisecond)
	case "hang":
		select {}
	}
	if pc.Marker != "" {
		os.WriteFile(pc.Marker, []byte("clean\n"), 0o644)
	}
	os.Exit(0)
}
