package main

import "os"

func run() { os.Exit(0) }
