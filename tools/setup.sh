#!/bin/sh
# Build everything the checks need from files on disk (offline) and warm the Go build cache.
set -e
cd "$(dirname "$0")/.."
export GOFLAGS=-mod=mod GOPROXY=off GOSUMDB=off GOTOOLCHAIN=local
GO=$(command -v go1.26.8 || command -v go1.26 || command -v go)
python3 - <<'PY'
import sys
sys.path.insert(0, "tools")
import vlib
vlib.sync_gosum()
PY
mkdir -p /var/tmp/verif.setup
( cd harness && $GO vet -tags verif ./... && $GO test -tags verif -c -o /var/tmp/verif.setup/drivers.test ./drivers/ && $GO build -tags verif -o /var/tmp/verif.setup/ ./cmd/... )
rm -rf /var/tmp/verif.setup
# the TLA+ modules must parse
for m in spec/*.tla; do
  ( cd spec && timeout 120 tla-sany "$(basename "$m")" >/dev/null 2>&1 ) || { echo "SANY failed on $m"; exit 1; }
done
rm -rf spec/states spec/*.tlacache 2>/dev/null || true
echo "setup ok"
