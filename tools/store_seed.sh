#!/bin/sh
# usage: store_seed.sh <seedout dir> <property id> <caught-by text>
# Refreshes the agent's patch against /repo HEAD, confirms it in a scratch worktree (library builds,
# existing suite passes, demo fails with the patch and passes without), and stores it under /verif/seeded/.
SRC="$1"; PROP="$2"; CAUGHT="$3"; N=$(basename "$SRC"); DST=/verif/seeded/$N; WT=/var/tmp/wt-store-$N
git -C /repo worktree remove --force $WT 2>/dev/null
git -C /repo worktree add -q --detach $WT HEAD || exit 2
cd $WT
git apply --3way "$SRC/patch.diff" >/dev/null 2>&1 || git apply "$SRC/patch.diff" || { echo "$N: patch does not apply"; cd /; git -C /repo worktree remove --force $WT; exit 1; }
git reset -q
mkdir -p $DST
git diff > $DST/patch.diff
DEMO=$(ls $SRC/*_test.go 2>/dev/null | head -1)
cp "$DEMO" $DST/demo_test.go
cp $SRC/README.md $DST/README.agent.md 2>/dev/null
RACE=${SEED_RACE:+-race}   # SEED_RACE=1: the demonstration needs the race detector
RUNRE=$(grep -o '^func Test[A-Za-z0-9_]*' $DST/demo_test.go | sed 's/func //' | paste -sd'|')
B=fail; go build ./... && B=ok
S=fail; for i in 1 2 3; do go test -vet=off -count=1 -timeout 25m ./... > /var/tmp/store-$N-suite.log 2>&1 && { S=ok; break; }; done
cp $DST/demo_test.go zz_demo_test.go
DP=passes; go test $RACE -vet=off -count=1 -run "^($RUNRE)\$" . > /var/tmp/store-$N-demo-patched.log 2>&1 || DP=fails
git checkout -q -- . 
DC=fails; go test $RACE -vet=off -count=1 -run "^($RUNRE)\$" . > /var/tmp/store-$N-demo-clean.log 2>&1 && DC=passes
cd /; git -C /repo worktree remove --force $WT
HEAD=$(git -C /repo log --format=%h -1)
python3 - "$DST" "$PROP" "$N" "$B" "$S" "$DP" "$DC" "$HEAD" "$CAUGHT" "$RUNRE" "$RACE" <<'PY'
import json, sys, re
dst, prop, name, b, s, dp, dc, head, caught, runre, race = (sys.argv[1:] + [""])[:11]
needs = ""
try:
    txt = open(dst + "/README.agent.md").read()
    m = re.search(r"(?is)(what exactly is needed[^\n]*\n|## *(?:trigger|what is needed|needs)[^\n]*\n)(.{0,900})", txt)
    needs = (m.group(2).strip() if m else txt[:900])
except Exception:
    pass
meta = {"seed": name, "property": prop, "made_by": "independent sub-agent given only the property text and a scratch worktree",
        "needs_to_manifest": needs, "repo_head_when_confirmed": head,
        "confirmation": {"library_builds_with_patch": b, "existing_suite_with_patch": s, "demo_with_patch": dp, "demo_without_patch": dc,
                         "commands": ["git apply patch.diff", "go build ./...", "go test -vet=off -count=1 -timeout 25m ./...  (up to 3 tries; the suite is flaky on this machine even unpatched)",
                                      "cp demo_test.go zz_demo_test.go; go test %s -vet=off -count=1 -run '^(%s)$' ." % (race, runre)]},
        "confirmed": b == "ok" and s == "ok" and dp == "fails" and dc == "passes",
        "detected_by": caught}
json.dump(meta, open(dst + "/meta.json", "w"), indent=1)
print(name, "confirmed" if meta["confirmed"] else "NOT CONFIRMED", b, s, dp, dc)
PY
