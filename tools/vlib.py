"""Shared machinery for the /verif checks: scratch space, Go builds, TLC runs,
trace validation, evidence, verdicts and known findings."""
import atexit, concurrent.futures as cf, hashlib, json, os, random, re, shutil, signal, subprocess, sys, tempfile, time

VERIF = os.path.dirname(os.path.dirname(os.path.abspath(__file__)))
REPO = os.environ.get("VERIF_REPO", "/repo")
SPEC = os.path.join(VERIF, "spec")
HARNESS = os.path.join(VERIF, "harness")
NCPU = os.cpu_count() or 4

GOENV = dict(os.environ, GOFLAGS="-mod=mod", GOPROXY="off", GOSUMDB="off", GOTOOLCHAIN="local",
             CGO_ENABLED=os.environ.get("CGO_ENABLED", "1"))
GO = shutil.which("go1.26.8") or shutil.which("go1.26") or "go"


class Inconclusive(Exception):
    pass


_scratch = None


def scratch():
    """Per-process scratch directory under /var/tmp, removed at exit."""
    global _scratch
    if _scratch is None:
        base = "/var/tmp"
        os.makedirs(base, exist_ok=True)
        _scratch = tempfile.mkdtemp(prefix="verif.", dir=base)
        atexit.register(cleanup)
    return _scratch


def cleanup():
    global _scratch
    if _scratch and os.path.isdir(_scratch) and not os.environ.get("VERIF_KEEP"):
        shutil.rmtree(_scratch, ignore_errors=True)
    _scratch = None


def sub(name):
    d = os.path.join(scratch(), name)
    os.makedirs(d, exist_ok=True)
    return d


def log(*a):
    print(*a, file=sys.stderr, flush=True)


# ----------------------------------------------------------------------------- Go

def sync_gosum():
    """The harness module needs /repo's go.sum (replace directive; no network)."""
    src = os.path.join(REPO, "go.sum")
    dst = os.path.join(HARNESS, "go.sum")
    try:
        have = set(open(dst).read().splitlines()) if os.path.exists(dst) else set()
        want = open(src).read().splitlines()
        missing = [l for l in want if l not in have]
        if missing:
            with open(dst, "a") as f:
                f.write("\n".join(missing) + "\n")
    except OSError as e:
        raise Inconclusive("go.sum sync failed: %s" % e)


def go_build(kind, pkg, out, race=False, tags="verif", timeout=900):
    """kind: 'test' (go test -c) or 'bin' (go build). Always rebuilds from /repo's working tree
    (the harness module has `replace github.com/hashicorp/go-plugin => /repo`)."""
    sync_gosum()
    cmd = [GO, "test", "-c"] if kind == "test" else [GO, "build"]
    if tags:
        cmd += ["-tags", tags]
    if race:
        cmd += ["-race"]
    cmd += ["-o", out, pkg]
    t0 = time.time()
    p = subprocess.run(cmd, cwd=HARNESS, env=GOENV, capture_output=True, text=True, timeout=timeout)
    if p.returncode != 0:
        raise Inconclusive("build failed (%s):\n%s" % (" ".join(cmd), (p.stdout + p.stderr)[-4000:]))
    log("built %s in %.1fs" % (os.path.basename(out), time.time() - t0))
    return out


# ----------------------------------------------------------------------------- TLC

TLC_JAR_CP = "/opt/veriftools/tla/tla2tools.jar:/opt/veriftools/tla/CommunityModules-deps.jar"


import threading
_spec_lock = threading.Lock()


def _spec_copy(name="spec"):
    with _spec_lock:
        d = os.path.join(scratch(), name)
        if not os.path.isdir(d):
            shutil.copytree(SPEC, d + ".tmp")
            os.rename(d + ".tmp", d)
        return d


def tlc(module, cfg, workers=None, timeout=1800, env=None, extra=None, heap=None, dfs=False, tag=None):
    """Run TLC on spec/<module>.tla with spec/<cfg>. Returns dict with ok, generated, distinct,
    depth, violated (invariant/property name or None), out."""
    d = _spec_copy()
    meta = tempfile.mkdtemp(prefix="meta.", dir=scratch())
    java = ["java", "-XX:+UseParallelGC"]
    if heap:
        java.append("-Xmx%s" % heap)
    java += ["-Xss64m"]
    if dfs:
        java.append("-Dtlc2.tool.queue.IStateQueue=StateDeque")
    cmd = java + ["-cp", TLC_JAR_CP, "tlc2.TLC", "-workers", str(workers or NCPU), "-metadir", meta,
                  "-config", cfg] + (extra or []) + [module + ".tla"]
    e = dict(os.environ)
    if env:
        e.update(env)
    t0 = time.time()
    try:
        p = subprocess.run(cmd, cwd=d, env=e, capture_output=True, text=True, timeout=timeout)
        out = p.stdout + p.stderr
        rc = p.returncode
    except subprocess.TimeoutExpired as ex:
        out = (ex.stdout or b"").decode("utf8", "replace") if isinstance(ex.stdout, bytes) else (ex.stdout or "")
        rc = -9
        subprocess.run(["pkill", "-f", meta], capture_output=True)
    finally:
        shutil.rmtree(meta, ignore_errors=True)
    r = {"rc": rc, "out": out, "wall_s": round(time.time() - t0, 2), "module": module, "cfg": cfg}
    m = re.findall(r"(\d+) states generated, (\d+) distinct states found", out)
    if m:
        r["generated"], r["distinct"] = int(m[-1][0]), int(m[-1][1])
    m = re.search(r"depth of the complete state graph search is (\d+)", out)
    if m:
        r["depth"] = int(m.group(1))
    r["violated"] = None
    m = re.search(r"Invariant (\S+) is violated", out)
    if m:
        r["violated"] = m.group(1)
    elif "Temporal properties were violated" in out:
        r["violated"] = "temporal"
    elif re.search(r"Deadlock reached", out):
        r["violated"] = "deadlock"
    r["completed"] = "Model checking completed. No error has been found." in out
    r["ok"] = r["completed"] and rc == 0
    if rc == -9:
        r["timeout"] = True
    return r


def tlc_expect_ok(module, cfg, **kw):
    r = tlc(module, cfg, **kw)
    if not r["ok"]:
        raise Inconclusive("TLC did not pass %s/%s (violated=%s, rc=%s):\n%s" %
                           (module, cfg, r.get("violated"), r["rc"], r["out"][-3000:]))
    return r


def tlc_expect_violation(module, cfg, name, **kw):
    """Model-sensitivity run: the buggy-variant constants must make TLC report `name`."""
    r = tlc(module, cfg, **kw)
    if r.get("violated") != name:
        raise Inconclusive("model sensitivity lost: %s/%s expected violation of %s, got %s\n%s" %
                           (module, cfg, name, r.get("violated"), r["out"][-2000:]))
    return r


def validate_trace(module, cfg, trace_path, timeout=300, env=None):
    """Trace validation: returns dict accepted, highwater, length, violated, out."""
    e = {"VERIF_TRACE": trace_path}
    if env:
        e.update(env)
    r = tlc(module, cfg, workers=1, timeout=timeout, env=e, dfs=True, heap="2g")
    hw = re.findall(r'<<"HIGHWATER", (\d+), (\d+)>>', r["out"])
    r["highwater"], r["length"] = (int(hw[-1][0]), int(hw[-1][1])) if hw else (None, None)
    r["accepted"] = bool(r["ok"] and hw and int(hw[-1][0]) == int(hw[-1][1]) + 1)
    return r


def validate_traces(module, cfg, paths, timeout=300, jobs=None, env=None):
    out = {}
    with cf.ThreadPoolExecutor(max_workers=jobs or max(2, NCPU // 2)) as ex:
        futs = {ex.submit(validate_trace, module, cfg, p, timeout, env): p for p in paths}
        for f in cf.as_completed(futs):
            out[futs[f]] = f.result()
    return out


def read_ndjson(path):
    out = []
    with open(path) as f:
        for line in f:
            line = line.strip()
            if line:
                out.append(json.loads(line))
    return out


def write_ndjson(path, rows):
    with open(path, "w") as f:
        for r in rows:
            f.write(json.dumps(r, separators=(",", ":")) + "\n")


# ----------------------------------------------------------------------------- verdicts

def known_findings():
    p = os.path.join(VERIF, "known_findings.json")
    if not os.path.exists(p):
        return {"known": [], "fixed": []}
    return json.load(open(p))


def save_replay(prop, payload):
    d = os.path.join(VERIF, "replays", prop)
    os.makedirs(d, exist_ok=True)
    blob = json.dumps(payload, sort_keys=True, default=str)
    h = hashlib.sha1(blob.encode()).hexdigest()[:12]
    path = os.path.join(d, h + ".json")
    with open(path, "w") as f:
        f.write(json.dumps(payload, indent=1, default=str))
    return path


class Report:
    """Collects violations (each with a signature), matches them against known findings,
    writes evidence and produces the exit code."""

    def __init__(self, prop, tier, seed, level):
        self.prop, self.tier, self.seed, self.level = prop, tier, seed, level
        self.t0 = time.time()
        self.violations = []   # dicts: sig, what, replay payload
        self.coverage = {}
        self.assumptions = []
        self.inconclusive = []

    def violation(self, sig, what, payload):
        self.violations.append({"sig": sig, "what": what, "payload": payload})

    def finish(self):
        kf = known_findings()
        known = {k["signature"]: k for k in kf.get("known", []) if k.get("property") == self.prop}
        new, seen_known = [], {}
        for v in self.violations:
            if v["sig"] in known:
                seen_known.setdefault(v["sig"], v)
            else:
                new.append(v)
        for sig, v in seen_known.items():
            print("KNOWN-FINDING: property=%s %s (%s)" % (self.prop, known[sig].get("what", v["what"]), sig))
        ev = {
            "property_id": self.prop, "tier": self.tier, "seed": int(self.seed), "level": self.level,
            "coverage": self.coverage, "assumptions": self.assumptions,
            "wall_s": round(time.time() - self.t0, 1), "violations": len(new),
        }
        if seen_known:
            ev["coverage"]["known_findings_seen"] = sorted(seen_known)
        os.makedirs(os.path.join(VERIF, "evidence"), exist_ok=True)
        with open(os.path.join(VERIF, "evidence", self.prop + ".json"), "w") as f:
            json.dump(ev, f, indent=1, default=str)
        if new:
            shown = set()
            for v in new:
                path = save_replay(self.prop, {"property": self.prop, "signature": v["sig"], "what": v["what"],
                                               "seed": self.seed, "tier": self.tier, "case": v["payload"]})
                if v["sig"] in shown:
                    continue
                shown.add(v["sig"])
                print("VIOLATION property=%s replay=%s" % (self.prop, path))
                print("  what: %s" % v["what"])
                if len(shown) >= 10:
                    break
            return 1
        print("OK property=%s tier=%s seed=%s wall=%.1fs" % (self.prop, self.tier, self.seed, time.time() - self.t0))
        return 0


def run_cmd(cmd, cwd=None, env=None, timeout=600):
    e = dict(os.environ)
    if env:
        e.update(env)
    try:
        p = subprocess.run(cmd, cwd=cwd, env=e, capture_output=True, text=True, timeout=timeout)
        return p.returncode, p.stdout + p.stderr
    except subprocess.TimeoutExpired as ex:
        o = ex.stdout or ""
        if isinstance(o, bytes):
            o = o.decode("utf8", "replace")
        return -9, o


def pmap(fn, items, jobs=None):
    with cf.ThreadPoolExecutor(max_workers=jobs or NCPU) as ex:
        return list(ex.map(fn, items))


# ----------------------------------------------------------------------------- case-table drivers

def run_cases(binary, test, cases, tag, shards=None, timeout=1500, env=None, serial=False):
    """Runs a Go case-table driver (reads VERIF_IN ndjson cases with a unique "name", appends one
    observation per case to VERIF_OUT). Sharded over processes. If a process dies (a panic in a
    goroutine of the code under test kills it), the unfinished cases are re-run one at a time so
    that the crash is attributed to a case. Returns (observations by name, crashes by name)."""
    outdir = sub(tag + ".cases")
    shards = shards or min(NCPU, max(1, len(cases) // 200))
    parts = [cases[i::shards] for i in range(shards)]
    crashes = {}

    def run(inp_cases, path_in, path_out, workers=None):
        write_ndjson(path_in, inp_cases)
        e = {"VERIF_IN": path_in, "VERIF_OUT": path_out, "TMPDIR": sub("tmp")}
        if workers:
            e["VERIF_WORKERS"] = str(workers)
        if env:
            e.update(env)
        return run_cmd([binary, "-test.run", "^%s$" % test, "-test.timeout", "30m"], cwd=outdir, env=e, timeout=timeout)

    def work(arg):
        idx, part = arg
        po = os.path.join(outdir, "obs.%d.ndjson" % idx)
        rest = list(part)
        rc, out = 0, ""
        for attempt in range(40):
            rc, out = run(rest, os.path.join(outdir, "in.%d.a%d.ndjson" % (idx, attempt)), po, 1 if serial else None)
            done = set(o["name"] for o in read_ndjson(po)) if os.path.exists(po) else set()
            rest = [c for c in rest if c["name"] not in done]
            if rc == 0 or not rest:
                return
            if rc != 3:      # 3 = the per-case watchdog reported a hung case and stopped the process
                break
        if not rest:
            return
        if not ("panic:" in out or "fatal error:" in out or rc in (-9,)):
            raise Inconclusive("driver %s failed (rc=%s):\n%s" % (test, rc, out[-3000:]))
        # attribute: serial re-run, restarting after every crash
        rounds = 0
        while rest and rounds < 200:
            rounds += 1
            rc, out = run(rest, os.path.join(outdir, "in.%d.r%d.ndjson" % (idx, rounds)), po, 1)
            done = set(o["name"] for o in read_ndjson(po)) if os.path.exists(po) else set()
            if rc == 0:
                break
            started = re.findall(r"^SCENARIO (\S+)$", out, re.M)
            cur = started[-1] if started else None
            if cur and cur not in done and rc != 3:
                crashes[cur] = out[-4000:]
                done.add(cur)
            n = len(rest)
            rest = [c for c in rest if c["name"] not in done]
            if len(rest) == n:
                raise Inconclusive("driver %s keeps dying without progress (rc=%s):\n%s" % (test, rc, out[-3000:]))

    pmap(work, list(enumerate(parts)), jobs=shards)
    obs = {}
    for idx in range(shards):
        po = os.path.join(outdir, "obs.%d.ndjson" % idx)
        if os.path.exists(po):
            for o in read_ndjson(po):
                obs[o["name"]] = o
    return obs, crashes


def _no_nulls(x):
    """TLC's JSON reader has no null: drop null members, turn null items into "null"."""
    if isinstance(x, dict):
        return {k: _no_nulls(v) for k, v in x.items() if v is not None}
    if isinstance(x, list):
        return [_no_nulls(v) if v is not None else "null" for v in x]
    return x


def hung_cases(obs):
    """Names of cases the driver's watchdog reported as hung."""
    return [n for n, o in obs.items() if o.get("hang")]


def judge_observations(module, cfg, obs_list, tag, timeout=1800):
    """Writes the observations as one log, lets TLC judge every line (DEVIATION lines), returns
    (number judged, list of deviating observation names)."""
    path = os.path.join(sub(tag + ".judge"), "obs.ndjson")
    write_ndjson(path, [_no_nulls(o) for o in obs_list])
    r = tlc(module, cfg, workers=1, timeout=timeout, env={"VERIF_TRACE": path}, heap="6g")
    m = re.findall(r'<<"JUDGED", (\d+), "BAD", (\d+)>>', r["out"])
    if not m:
        raise Inconclusive("TLC did not judge the observation log (%s/%s):\n%s" % (module, cfg, r["out"][-3000:]))
    judged, bad = int(m[-1][0]), int(m[-1][1])
    dev = re.findall(r'<<"DEVIATION", (\d+), "([^"]*)">>', r["out"])
    names = [d[1] for d in dev]
    if judged != len(obs_list) or bad != len(set(names)):
        raise Inconclusive("TLC judged %d of %d lines, bad=%d, deviations listed=%d" % (judged, len(obs_list), bad, len(names)))
    r["judged"] = judged
    return r, names


# ----------------------------------------------------------------------------- TLC graph -> call words

def tlc_graph(module, cfg, timeout=600):
    """Dumps the reachable state graph with action labels. Returns (init node, {node: [(label, next)]})."""
    dot = os.path.join(scratch(), "graph.%s.%s.dot" % (module, cfg.replace(".cfg", "")))
    r = tlc(module, cfg, extra=["-dump", "dot,actionlabels", dot], timeout=timeout)
    if not r["completed"] or not os.path.exists(dot):
        raise Inconclusive("graph dump failed for %s/%s:\n%s" % (module, cfg, r["out"][-2000:]))
    node_re = re.compile(r'^(-?\d+) \[label="((?:[^"\\]|\\.)*)"(,style = filled)?\]')
    edge_re = re.compile(r'^(-?\d+) -> (-?\d+) \[label="((?:[^"\\]|\\.)*)"')
    edges, init = {}, None
    for line in open(dot):
        m = edge_re.match(line)
        if m:
            edges.setdefault(m.group(1), []).append((m.group(3).replace('\\"', '"'), m.group(2)))
            continue
        m = node_re.match(line)
        if m and m.group(3):
            init = m.group(1)
    if init is None:
        raise Inconclusive("no initial node in graph dump of %s/%s" % (module, cfg))
    return init, edges, r


def graph_words(init, edges, silent, maxlen):
    """All distinct words of visible labels (length <= maxlen) along paths from init; labels in
    `silent` are epsilon moves."""
    def closure(nodes):
        out, stack = set(nodes), list(nodes)
        while stack:
            n = stack.pop()
            for lab, nx in edges.get(n, []):
                if lab.split("(")[0] in silent and nx not in out:
                    out.add(nx)
                    stack.append(nx)
        return frozenset(out)
    words = set()
    frontier = {(): closure([init])}
    for _ in range(maxlen):
        nxt = {}
        for w, nodes in frontier.items():
            by = {}
            for n in nodes:
                for lab, nx in edges.get(n, []):
                    if lab.split("(")[0] in silent:
                        continue
                    by.setdefault(lab, set()).add(nx)
            for lab, tgt in by.items():
                w2 = w + (lab,)
                words.add(w2)
                nxt[w2] = closure(tgt)
        frontier = nxt
    return sorted(words)


def validate_packed(module, cfg, cases_events, tag, max_rounds=12, timeout=900, header=None):
    """cases_events: list of (name, [event dicts]) where the first event is the reset line. Packs
    them into one log, validates; on rejection attributes the failure to the case containing the
    high-water line, drops it and repeats. Returns (accepted case count, [(name, rejected event, detail)])."""
    rejected = []
    remaining = list(cases_events)
    rounds = 0
    total_states = 0
    while remaining and rounds < max_rounds:
        rounds += 1
        rows, owner = [], []
        if header is not None:        # a first line shared by all cases of the log (e.g. the constants of the trace specification)
            rows.append(header)
            owner.append(remaining[0][0])
        for name, evs in remaining:
            for e in evs:
                rows.append(e)
                owner.append(name)
        path = os.path.join(sub(tag + ".packed"), "trace.%d.ndjson" % rounds)
        write_ndjson(path, rows)
        r = validate_trace(module, cfg, path, timeout=timeout)
        total_states += r.get("distinct", 0) or 0
        if r["accepted"]:
            return len(remaining), rejected, total_states
        if r.get("highwater") is None and not r.get("violated"):
            raise Inconclusive("trace validation did not finish (%s/%s):\n%s" % (module, cfg, r["out"][-2000:]))
        if r.get("violated") and r.get("highwater"):
            idx = min(r["highwater"], len(rows)) - 1
            detail = "invariant %s violated" % r["violated"]
        else:
            idx = r["highwater"] - 1
            detail = "event not allowed by the specification"
        idx = max(0, min(idx, len(rows) - 1))
        bad = owner[idx]
        rejected.append((bad, rows[idx], detail))
        remaining = [(n, e) for n, e in remaining if n != bad]
    return len(remaining), rejected, total_states


# ----------------------------------------------------------------------------- binding self-test (E4)

def selftest_trace(module, cfg, good_trace_path, mutations, tag, env=None):
    """The trace specification must reject corrupted versions of a trace it accepts: each mutation is
    a function rows -> rows (or None if not applicable). Raises Inconclusive if a corrupted trace is
    accepted (the oracle would be vacuous). Returns the number of mutations applied."""
    rows = read_ndjson(good_trace_path)
    applied = 0
    d = sub(tag + ".selftest")
    for i, (name, fn) in enumerate(mutations):
        bad = fn([dict(r) for r in rows])
        if bad is None:
            continue
        p = os.path.join(d, "bad%d.ndjson" % i)
        write_ndjson(p, bad)
        r = validate_trace(module, cfg, p, env=env)
        if r["accepted"]:
            raise Inconclusive("binding self-test failed: %s accepted a trace corrupted by '%s'" % (module, name))
        applied += 1
    return applied


def selftest_judge(module, cfg, good_obs, mutations, tag):
    """Same for TLC-judged observation logs: each corrupted observation must be reported as a DEVIATION."""
    applied = 0
    for i, (name, fn) in enumerate(mutations):
        bad = []
        for o in good_obs:
            m = fn(json.loads(json.dumps(o)))
            if m is not None:
                m["name"] = "selftest-%d" % len(bad)
                bad.append(m)
            if len(bad) >= 3:
                break
        if not bad:
            continue
        r, dev = judge_observations(module, cfg, bad, "%s.st%d" % (tag, i))
        if len(dev) != len(bad):
            raise Inconclusive("binding self-test failed: %s did not flag observations corrupted by '%s' (%d of %d)" % (module, name, len(dev), len(bad)))
        applied += len(bad)
    return applied


def action_coverage(module, cfgs, ignore=(), timeout=1800):
    """Runs the configurations with -coverage 1 and returns {action: distinct states found by it},
    summed over the configurations. An action no configuration ever takes means part of the model
    was never exercised (vacuity): raises Inconclusive unless it is listed in `ignore`."""
    total = {}
    for cfg in cfgs:
        r = tlc(module, cfg, extra=["-coverage", "1"], timeout=timeout)
        if not r["completed"]:
            raise Inconclusive("coverage run of %s/%s did not complete" % (module, cfg))
        for name, found, _ in re.findall(r"^<(\w+) line [^>]*>: (\d+):(\d+)", r["out"], re.M):
            total[name] = total.get(name, 0) + int(found)
    never = sorted(a for a, n in total.items() if n == 0 and a not in ignore and a != "Init")
    if never:
        raise Inconclusive("actions never taken in any configuration of %s (vacuous): %s" % (module, never))
    return total
