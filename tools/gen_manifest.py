#!/usr/bin/env python3
"""Writes /verif/MANIFEST.json from the table below (one source of truth)."""
import json, os, subprocess, sys
HERE = os.path.dirname(os.path.dirname(os.path.abspath(__file__)))

CLAIMED = {
 "C01": dict(cat="model_checking", design="§6 C01, §4.1",
   technique="TLA+ decision module Handshake.tla (Decide vs. the property's WellFormed, checked by TLC on all 1.3 M class pairs); TLC-exported class table concretised and run through the real Client.Start with a scripted runner; every observation judged by TLC (TraceHandshake.tla)",
   text="TLC checks on every canonical (line class, client config class) pair that the code-shaped decision procedure accepts exactly the lines the property calls well-formed and reports the line's own protocol/network. TLC's exported table is then concretised (several byte-level spellings per class) and fed through the real Client.Start with an in-memory runner; TLC judges each observed outcome (ok/err, reported protocol, network, address, negotiated version, panic, latency against the start timeout, runner killed on error) against Decide and the property predicates. All lines with fewer than four fields, all lines some config accepts and the lines one field away from them are always included (all of their configs in the thorough tier).",
   note="Trusted: the concretiser (class -> bytes) and Go's net.Resolve*Addr as the meaning of 'resolvable'. Within a class the concrete spellings are sampled. 'Dialable' is read as non-nil and well-formed, not as 'something listens'."),
 "C02": dict(cat="model_checking", design="§6 C02, §4.1",
   technique="TLA+ module Versions.tla (Announce written as the code's scan; the property's clauses as invariants, TLC over all 14,400 configurations); real plugin binary alone and real Client/plugin pairs run on the case table; every observation judged by TLC (TraceVersions.tla)",
   text="TLC checks for every host set, plugin set, per-version wire protocol, gRPC factory and list/no-list combination over versions 0..3 that the code-shaped scan announces the highest common version (else the lowest), with that set's protocol, and that acceptance implies a version both sides have. The same cases are run on the real code: the plugin binary alone with raw PLUGIN_PROTOCOL_VERSIONS values (duplicates, unsorted, partly invalid, empty, absent) whose handshake line is parsed, and real Client/plugin pairs where NegotiatedVersion, the version tag of the stub the host built and the tag answered by the dispensed implementation in the plugin must all equal the highest common version, or Start must fail with the incompatible-version error and the process be gone. TLC judges each observation.",
   note="Versions range over 0..3; one plugin per set. Thorough enumerates all 225 set pairs (x3 random forms); quick all pairs with >= 2 common versions plus a sample."),
 "C04": dict(cat="model_checking", design="§6 C04, §4.2",
   technique="TLA+ Kill.tla (Kill's steps as actions, up to three concurrent callers, plugin shutdown behaviours, discrete time with maximal progress; invariants KillPost / GracefulRespected / MarkerIffGraceful / Bounded and liveness KillTerminates by TLC; the pre-fix variant without the kill lock must fail); real vplugin processes per behaviour x protocol x launch method x Kill pattern judged by TLC (TraceKill.tla)",
   text="TLC explores all interleavings of up to three concurrent Kill calls against a plugin that exits promptly, after a delay inside the grace period, never, is frozen (close request blocking, then succeeding or failing) or is already dead, and checks that every Kill ends with the process dead, reaped and reported exited, that a plugin exiting inside the grace period is never force-killed, that the cleanup marker exists iff the exit was graceful, that each Kill returns within the model's bound and (liveness) always returns. Real processes: the vplugin binary with the same behaviours (SIGSTOP for frozen, a crash before Kill, a failed handshake, an RPC in flight), over net/rpc, gRPC and multiplexed gRPC, launched by command, custom runner or reattached, killed once, twice, from 2-4 goroutines, or through CleanupClients over several managed clients; per caller the latency, /proc state and Exited() at the moment it returns, the cleanup marker and panics are observed and judged by TLC against the model's bounds in milliseconds. A deviation is reported only if it reproduces when the case runs alone.",
   note="Trusted: /proc as process table, SIGSTOP as 'frozen'. Frozen net/rpc plugins (bounded by the yamux keep-alive, ~40 s) only in the thorough tier."),
 "C05": dict(cat="model_checking", design="§6 C05, §4.2",
   technique="TLA+ Lifecycle.tla (FailedStartKills, KillPost, liveness FailedStartEndsProcess checked by TLC on every failing plan) + Handshake.tla for the rejected lines; call words from TLC's graph replayed on a real Client with a scripted runner and validated by TLC (TraceLifecycle.tla); real vplugin processes per failure cause x launch method judged by TLC (TraceStartFail.tla)",
   text="TLC checks on Lifecycle.tla, for each way the launch can fail, that the runner is told to kill before Start returns, that the process eventually ends and that a later Kill leaves no runner and no socket directory. All call words up to length 5 read off TLC's state graph are executed on the real Client with an in-memory runner and the recorded traces (result, launch count, kill count, directory presence after every call) must be behaviours of the model. Real processes: for handshake-line classes that Handshake!Decide rejects (taken from TLC's table: each field invalid in turn, disallowed protocol, bad certificate, unsupported multiplexing) and for silence, half a line, early exit and closed stdout, launched by command and by custom runner, the pid must be gone within 1 s of Start returning its error, Kill must return within 1 s, report exited and remove the runner's directory.",
   note="'Shortly after' is read as 1 s. Trusted: /proc as the process table, the scripted runner's fidelity to a dying process (pipes close, Wait returns)."),
 "C06": dict(cat="model_checking", design="§6 C06, §4.3",
   technique="TLA+ spec MuxBroker.tla checked by TLC; real brokers driven in a synctest bubble under a gate controller; every recorded trace validated by TLC against TraceMux.tla",
   text="TLC exhaustively checks routing, ack matching, close-once, no wedge and in-window success on MuxBroker.tla for small call sets (all interleavings, fully asynchronous and timed variants). The two real MuxBrokers are then driven through seeded call sets and schedules (controller-forced gate orders, holds, lag, walks through TLC's state graph) in virtual time, and each recorded event trace (hook points, call results, the token actually received on each accepted connection) must be a behaviour of the spec with all invariants holding at every step.",
   note="Trusted: yamux, net/rpc, testing/synctest virtual time, the hook placement (binding self-tested by mutating /repo). Bounded: <= 6 ids per scenario, schedules sampled (not all)."),
 "C09": dict(cat="model_checking", design="§6 C09, §4.3",
   technique="TLA+ spec MuxBroker.tla checked by TLC (incl. liveness); abusive histories replayed on the real brokers in a synctest bubble with forced schedules; traces validated by TLC; real-time watchdog for wedges",
   text="TLC checks on MuxBroker.tla that no reachable state has the expiry goroutine blocked under the broker lock, that every call returns (liveness under fairness, maximal-progress time) and that nothing is left waiting at the end of time, and confirms that the pre-fix variant of the model violates these. Histories of unmatched / duplicate / late / expiry-instant calls followed by a fresh pair are replayed on the real brokers with gates forcing the critical interleavings; a hang, a call that never returns, a goroutine left after Close, or a trace TLC rejects is a violation.",
   note="Trusted: yamux, net/rpc, synctest. The gRPC broker's liveness clauses are exercised by the C07/C08 drivers' timeout scenarios when those are built; this check decides the MuxBroker side."),

 "C10": dict(cat="model_checking", design="§6 C10, §4.6",
   technique="TLA+ LogStderr.tla (the stderr-to-log rule as a two-bit state machine vs. the property's level rule; TLC over all sequences of <= 3 line tokens); real Client with a scripted runner fed concretised stderr streams and post-handshake stdout volumes; per-line observations judged by TLC (TraceLogStderr.tla) replaying the model's state over each stream",
   text="TLC checks for every sequence of up to three stderr line tokens (20 kinds: text, [LEVEL] prefixes, panic:, hclog JSON per level, JSON with unknown/no level, null, wrong field types, bad timestamp, arrays, scalars, broken JSON; fitting the buffer or not) that the code-shaped rule emits one record per line at a level the property allows and carries the JSON message or the line. Real Client runs (in-memory runner, successful handshake through an in-process RPC server) feed concretised streams for buffer sizes 16..65536, both terminators, unterminated last lines and several spellings per kind, plus up to 10 MiB of stdout after the handshake with line lengths up to 1 MiB; the bytes copied to ClientConfig.Stderr, the records of an hclog JSON logger (level, message, key/values, attribution of chunks to long lines), completion of both writers within 15 s and the survival of the host process are observed; TLC walks each stream with the model's state and judges every line.",
   note="Terminators are normalised; for over-long lines only the verbatim copy and complete in-order emission at some level are required. A panic in the library's reader goroutine kills the driver process: the case is re-run alone and reported."),
 "C13": dict(cat="model_checking", design="§6 C13",
   technique="TLA+ Checksum.tla (Gate as the code's check order; launch enabled only by a passed check; TLC over all bit-string pairs); real Client.Start with SecureConfig on generated files, all single-bit flips / prefixes / extensions / empty / nil hash and tamper-after-ok histories; observations judged by TLC (TraceChecksum.tla)",
   text="TLC checks for all digests of 3 bits and all configured checksums of up to 4 bits, with and without a hash function, that the launch step is reachable only when the two are equal and that every other relation yields the corresponding error. The real Client.Start is run with a SecureConfig on generated executables (a script that records its own launch): the exact digest must launch; every one-bit flip at each of the digest's bit positions, every proper prefix, trailing bytes, empty/nil checksum, an unrelated checksum and a nil Hash must return the matching error with no launch, also 200 ms later; and a SecureConfig value reused after the file was changed in place (same length and mtime) must reject it. TLC maps each observation's class to a representative pair and judges it with Gate.",
   note="Trusted: the hash implementations, the marker file as the witness of execution. Quick: one file, sha256 exhaustively plus a few cases per other hash; thorough: 12 files x 4 hashes."),
 "C16": dict(cat="model_checking", design="§6 C16",
   technique="TLA+ ServeStartup.tla (startup steps as actions in the code's order; TLC over all cookie/mux classes) + Versions!Announce for the line's version and protocol; the real plugin binary exec'd directly per class; stdout bytes, exit status, an immediate connect and the process's own hook-event order judged by TLC (TraceServeStartup.tla)",
   text="TLC checks for every configured-cookie class, cookie-environment class and multiplexing-variable class that no listener and no line exist without the right cookie, that a refusal ends with status 1, that the listener exists when the line is printed, that there is one line and that it has seven fields iff the host set the multiplexing variable. A real plugin process (plugin.Serve in the vplugin binary) is started directly for all 21 cookie combinations and all 18 (mux variable, TLS mode) combinations with random served/offered version sets: exit status, the raw stdout bytes (exactly one line, field count, core version, version and protocol as Versions!Announce says, certificate field iff a client certificate was sent), a connect to the announced address at the moment the line is read, and the order of the process's hook events (cookie accepted/refused, listener opened, line printed, stdio swapped, serving) are judged by TLC.",
   note="Linux/unix sockets only. 'Nothing else on stdout' is observed for 150 ms. The event order relies on the hook points in server.go."),
 "C17": dict(cat="model_checking", design="§6 C17",
   technique="TLA+ Env.tla (last-wins layering of cmd.Env as the code builds it vs. the property's allowed sources; TLC over all 32 configs x 512 host environments); real Client.Start with RunnerFunc capture and with a real child process dumping its environment; observations judged by TLC (TraceEnv.tla)",
   text="TLC checks for every client configuration (AutoMTLS, multiplexing, socket group, custom runner, SkipHostEnv) and every subset of the nine variables present in the host's own environment that the effective source of each variable is one the property allows and that the negotiation variables do not depend on the host environment. The same cases run on the real code: the driver sets its own environment, starts a Client, and reads the environment handed to RunnerFunc or found in a real child process (env -0); last-wins values are classified as client / host / absent, the version list must be exactly the offered set, values must be the configured ones, stdin must be the host's; TLC judges each observation against both the property and the model of the code.",
   note="Each config is run with the all-present host (a host that is itself a plugin) and the clean host, plus random host subsets. Linux only."),
 "C19": dict(cat="model_checking", design="§6 C19, §4.2",
   technique="TLA+ Lifecycle.tla (LaunchAtMostOnce, NoLaunchAfterKill, KillPost; TLC exhaustive per plan, pre-fix variant must fail); all call words up to length 5 read off TLC's state graph replayed on a real Client with a scripted runner; traces validated by TLC (TraceLifecycle.tla); concurrent call mixes held to the property's invariants",
   text="TLC explores every sequence of Start/Client/Protocol/ReattachConfig/ID/Exited/Kill calls (and plugin crashes) of bounded length for every outcome of the first launch and checks that the plugin is launched at most once, never again after Kill, and what each call returns. The call words are read off TLC's graph and executed on the real Client (custom runner with an in-memory process, an in-process RPC server when the launch succeeds); after every call the result class, the launch count, the runner kill count, pointer identity of address and protocol client, and the presence of the socket directory are logged, and TLC validates each trace against the model (process exit and the wait goroutine as silent steps). Two-goroutine mixes with a delayed handshake line are checked against the invariants (one launch, one directory, same address, same client) and for calls that never return.",
   note="The custom-runner launch path with a scripted process; the command path is covered by C05's process cases. Thorough runs every word of length <= 5 for the fast plans."),
}

REASON_TODO = "no check has been built for this property yet in this round; it is planned (DESIGN.md §6) and is not claimed"
ALL = ["C%02d" % i for i in range(1, 21)]

def main():
    repo_commits = subprocess.run(["git", "-C", "/repo", "log", "--format=%h %s"], capture_output=True, text=True).stdout.splitlines()
    hook_commits = [l.split()[0] for l in repo_commits if l.split(" ", 1)[1].startswith("verif:")]
    checks = []
    for pid in ALL:
        if pid not in CLAIMED:
            continue
        c = CLAIMED[pid]
        checks.append({
            "property_id": pid,
            "quick_cmd": "./check %s quick" % pid,
            "thorough_cmd": "./check %s thorough" % pid,
            "evidence_file": "/verif/evidence/%s.json" % pid,
            "replay_cmd_template": "./check %s --replay {path}" % pid,
            "engine": c.get("engine", "tlc+replay+trace-validation"),
            "level_claimed": {"category": c["cat"], "text": c["text"], "design_ref": c["design"]},
            "level_note": c["note"],
            "technique": c["technique"],
        })
    m = {
        "version": 1,
        "setup_cmd": "./tools/setup.sh",
        "hooks": {
            "guard": "verif",
            "enable": "go build -tags verif (the harness module /verif/harness replaces github.com/hashicorp/go-plugin with /repo and is built with -tags verif)",
            "baseline_off_cmd": "cd /repo && go test -json -vet=off -count=1 -timeout 25m ./...",
            "source_commits": hook_commits,
            "add_only": True,
        },
        "engines": [
            {"name": "tlc", "path": "/verif/spec", "serves_properties": sorted(CLAIMED), "kind_free_text": "TLA+ specifications and TLC configurations (exhaustive, model-sensitivity, generation, trace validation)"},
            {"name": "harness", "path": "/verif/harness", "serves_properties": sorted(CLAIMED), "kind_free_text": "Go drivers (go1.26.8, -tags verif): gate controller + event sink, synctest bubble drivers, process-level drivers, configurable plugin binary"},
            {"name": "check", "path": "/verif/check", "serves_properties": sorted(CLAIMED), "kind_free_text": "python3 driver: builds, runs TLC, generates scenarios from TLC output, runs drivers, validates traces with TLC, writes evidence"},
        ],
        "checks": checks,
        "not_applicable": [{"property_id": p, "reason": REASON_TODO} for p in ALL if p not in CLAIMED],
        "notes": "See DESIGN.md. Verdicts come only from behaviour of the real code; a TLC counterexample on the model alone is never a violation. Exit 2 = inconclusive.",
    }
    with open(os.path.join(HERE, "MANIFEST.json"), "w") as f:
        json.dump(m, f, indent=1)
    print("wrote MANIFEST.json with %d checks" % len(checks))

if __name__ == "__main__":
    main()
