"""C17 - the plugin's launch environment and stdin are determined by the client config."""
import itertools, json, os, random
import vlib

PROP = "C17"
VARS = ["COOKIE", "MIN", "MAX", "VERS", "CERT", "MUX", "GROUP", "DIR", "HOSTX"]


def make_cases(tier, rng):
    cases = []
    cfgs = [dict(zip(["automtls", "mux", "group", "runner", "skip"], bits)) for bits in itertools.product([False, True], repeat=5)]

    def add(cfg, host):
        vs = rng.sample([0, 1, 2, 3, 7], rng.randint(1, 4))
        # the config's history: used for an earlier launch already / a TLSConfig supplied by the caller
        cfg = dict(cfg, relaunch=rng.random() < 0.4, presettls=rng.random() < 0.3)
        # the configured port range: both ends, only one of them (the other zero), or none (documented defaults)
        ports = rng.choice([[11111, 22222], [11111, 22222], [0, 9000], [5000, 0], [0, 0]])
        cases.append({"name": "e%d" % len(cases), "cfg": cfg, "host": host, "versions": vs, "legacy": rng.random() < 0.4, "ports": ports})
        if not cfg["runner"] and len(cases) % 2 == 0:
            # the caller's Cmd.Env is already populated with the host's values of the variables every client sets
            cases[-1]["cmd_env"] = True
    all_on = {v: True for v in VARS}
    all_off = {v: False for v in VARS}
    for cfg in cfgs:
        # a host that is itself a plugin carries every variable; and the clean host
        add(cfg, all_on)
        add(cfg, all_off)
        n = 4 if tier == "quick" else 800
        if not cfg["runner"]:
            n = 1 if tier == "quick" else 20     # command launches wait for the start timeout
        for _ in range(n):
            add(cfg, {v: rng.random() < 0.5 for v in VARS})
    return cases


def run(tier, seed):
    rng = random.Random(seed * 22695477 % (1 << 31) + 17)
    rep = vlib.Report(PROP, tier, seed, "model_checking")
    binary = vlib.go_build("test", "./drivers/", os.path.join(vlib.scratch(), "drivers.test"))
    r1 = vlib.tlc_expect_ok("Env", "env.cfg")
    cases = make_cases(tier, rng)
    obs, crashes = vlib.run_cases(binary, "TestEnvCases", cases, "c17", shards=min(12, vlib.NCPU), serial=True)
    by = {c["name"]: c for c in cases}
    nhung = len(vlib.hung_cases(obs))
    for name in vlib.hung_cases(obs):
        rep.violation("c17:hang", "case never finished", {"case": by[name]})
        del obs[name]
    for name, out in crashes.items():
        rep.violation("c17:crash", "host died", {"case": by[name], "output": out})
    obs_list = [obs[c["name"]] for c in cases if c["name"] in obs]
    if len(obs_list) + len(crashes) + nhung < len(cases):
        raise vlib.Inconclusive("missing observations")
    r2, dev = vlib.judge_observations("TraceEnv", "trace_env.cfg", obs_list, "c17")
    for name in dev:
        o = obs[name]
        c = by[name]
        wrong = sorted(v for v in VARS if o["out"]["source"].get(v) is not None)
        rep.violation("c17:%s" % ("runner" if c["cfg"]["runner"] else "cmd"),
                      "client config %s, host environment has %s: child got sources %s (versions exact/values right: %s, stdin is the host's: %s) -- not what Env.tla allows; effective: %s" % (
                          json.dumps(c["cfg"]), sorted(v for v in VARS if c["host"][v]), json.dumps(o["out"]["source"], sort_keys=True),
                          o["out"]["versions_exact"], o["out"]["stdin_is_host"], o["out"]["effective"]),
                      {"case": c, "observation": o})
    rep.coverage.update({
        "states": r1["distinct"], "transitions": r1["generated"], "traces_validated_against_impl": len(obs_list),
        "evaluations": len(cases), "distinct_nontrivial": len(set(json.dumps([c["cfg"], c["host"]], sort_keys=True) for c in cases)),
        "rule": "case = (client config bits: AutoMTLS, multiplexing, socket group, custom runner vs command, SkipHostEnv; which of the nine variables the host's own "
                "environment carries); every config with the all-present and all-absent host, plus random host subsets; distinct = distinct (config, host set)",
        "exhaustive": False, "samples": obs_list[:2] + obs_list[-1:],
    })
    rep.assumptions += ["the child's effective environment is the last assignment per variable (how exec and getenv behave)",
                        "custom-runner cases read cmd.Env as handed to RunnerFunc; command cases read the environment of a real child process"]
    return rep.finish()


def replay(path):
    payload = json.load(open(path))
    c = payload["case"]["case"]
    rep = vlib.Report(PROP, "quick", payload.get("seed", 0), "model_checking")
    binary = vlib.go_build("test", "./drivers/", os.path.join(vlib.scratch(), "drivers.test"))
    obs, crashes = vlib.run_cases(binary, "TestEnvCases", [c], "c17r", shards=1, serial=True)
    r2, dev = vlib.judge_observations("TraceEnv", "trace_env.cfg", list(obs.values()), "c17r")
    for name in dev:
        rep.violation("c17:replay", "observed %s" % json.dumps(obs[name]["out"]), {"case": c, "observation": obs[name]})
    rep.coverage.update({"states": 1, "transitions": 1, "traces_validated_against_impl": len(obs), "samples": [c]})
    return rep.finish()
