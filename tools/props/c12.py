"""C12 - with AutoMTLS every plugin connection is mutually authenticated."""
import json, os, random
import vlib
from props import c02

PROP = "C12"
PROTOS = ["netrpc", "grpc", "grpcmux"]


def run(tier, seed):
    rng = random.Random(seed + 12)
    rep = vlib.Report(PROP, tier, seed, "model_checking")
    b = c02.build()
    r1 = vlib.tlc_expect_ok("MTLS", "mtls.cfg")
    cases = []
    reps = 1 if tier == "quick" else 8
    for _ in range(reps):
        for p in PROTOS:
            cases.append({"name": "t%d" % len(cases), "kind": "intrude", "proto": p})
            cases.append({"name": "t%d" % len(cases), "kind": "impostor", "impostor": "othercert", "proto": p})
            cases.append({"name": "t%d" % len(cases), "kind": "impostor", "impostor": "nocert", "proto": p})
            cases.append({"name": "t%d" % len(cases), "kind": "impostor", "impostor": "chain", "proto": p})
            cases.append({"name": "t%d" % len(cases), "kind": "impostor", "impostor": "replay", "proto": p})
            # the same impostors announcing a TCP address (what they serve on is reached through it)
            for m in (["nocert", "othercert"] if tier == "quick" else ["nocert", "othercert", "chain"]):
                cases.append({"name": "t%d" % len(cases), "kind": "impostor", "impostor": m, "proto": p, "tcp": True})
        # a plugin with a net/rpc version 1 and a gRPC version 2 (gRPC server configured), negotiated down to version 1
        cases.append({"name": "t%d" % len(cases), "kind": "intrude", "proto": "netrpc", "upgrade": True})
        # the plugin alone, with a host certificate that reached it damaged
        for p in ["netrpc", "grpc"]:
            cases.append({"name": "t%d" % len(cases), "kind": "mangled", "impostor": rng.choice(["firstline", "truncated", "garbage"]), "proto": p})
    obs, crashes = vlib.run_cases(b["drivers"], "TestMTLSCases", cases, "c12", env={"VERIF_VPLUGIN": b["vplugin"], "VERIF_CASE_TIMEOUT_S": "120"},
                                  shards=min(6, len(cases)), serial=True, timeout=1800)
    by = {c["name"]: c for c in cases}
    for name in vlib.hung_cases(obs):
        rep.violation("c12:hang", "scenario never finished", {"case": by[name]})
        del obs[name]
    for name, out in crashes.items():
        rep.violation("c12:crash", "host died: %s" % out[-300:], {"case": by[name], "output": out})
    obs_list = [obs[c["name"]] for c in cases if c["name"] in obs]
    for o in obs_list:
        o["out"].setdefault("attempts", [])
    r2, dev = vlib.judge_observations("TraceMTLS", "trace_mtls.cfg", obs_list, "c12")
    for name in dev:
        o, c = obs[name], by[name]
        if c["kind"] == "mangled":
            served = [a for a in o["out"].get("attempts", []) if a["served"]]
            rep.violation("c12:mangled:%s:%s" % (c["proto"], "+".join(sorted(set(a["cred"] for a in served))) or "setup"),
                          "%s plugin whose PLUGIN_CLIENT_CERT arrived damaged (%s) served %s" % (c["proto"], c["impostor"], ", ".join("a peer presenting %s" % a["cred"] for a in served) or json.dumps(o["out"])[:300]),
                          {"case": c, "observation": o})
            continue
        if c["kind"] == "impostor":
            how = {"nocert": "announced no certificate and served in plaintext", "chain": "announced a certificate it has no key for and served with another, appending the announced one to its chain",
                   "replay": "announced a fresh certificate and served with the key pair of an earlier launch from the same ClientConfig"}.get(
                c.get("impostor"), "announced one certificate and served with another")
            rep.violation("c12:impostor:%s:%s" % (c.get("impostor", "othercert"), c["proto"]), "%s: a plugin that %s was used successfully (or Start failed to complete): %s" % (c["proto"], how, json.dumps(o["out"])),
                          {"case": c, "observation": o})
            continue
        wrong = [a for a in o["out"]["attempts"] if a["served"] != (a["cred"] == "peer_keypair")]
        sig = "c12:%s:%s" % (c["proto"], "+".join(sorted(set("%s/%s" % (a["listener"], a["cred"]) for a in wrong))) or "legit-broken")
        rep.violation(sig, "%s with AutoMTLS: %s; legit before/after %s/%s -- not what MTLS.tla allows" % (
            c["proto"], "; ".join("%s listener answered a peer presenting %s" % (a["listener"], a["cred"]) if a["served"] else "%s listener refused the legitimate peer (%s)" % (a["listener"], a.get("err"))
                                  for a in wrong) or "setup/legit failure: %s" % o["out"].get("err"),
            o["out"].get("legit_ok_before"), o["out"].get("legit_ok_after")), {"case": c, "observation": o})
    nat = sum(len(o["out"]["attempts"]) for o in obs_list)
    rep.coverage.update({
        "states": r1["distinct"], "transitions": r1["generated"], "traces_validated_against_impl": len(obs_list),
        "evaluations": nat + sum(1 for c in cases if c["kind"] == "impostor"),
        "distinct_nontrivial": len(set((o["proto"], a["listener"], a["cred"]) for o in obs_list for a in o["out"]["attempts"])) + 3,
        "rule": "attempt = (protocol, listener kind: main / plugin-side brokered / host-side brokered, credential: the pair's own, plaintext, TLS without certificate, "
                "TLS with a fresh self-signed certificate, TLS with the same subject but another key) against the sockets of a real AutoMTLS pair; plus an impostor plugin per protocol",
        "exhaustive": True, "samples": [{"proto": o["proto"], "attempts": o["out"]["attempts"][:5]} for o in obs_list[:1]],
    })
    rep.assumptions += ["crypto/tls and x509 are trusted", "brokered sockets are found as the new socket files under the pair's TMPDIR", "'served' = a request on the connection got an answer within 2 s"]
    return rep.finish()


def replay(path):
    payload = json.load(open(path))
    c = payload["case"]["case"]
    rep = vlib.Report(PROP, "quick", payload.get("seed", 0), "model_checking")
    b = c02.build()
    obs, crashes = vlib.run_cases(b["drivers"], "TestMTLSCases", [c], "c12r", env={"VERIF_VPLUGIN": b["vplugin"]}, shards=1, serial=True)
    ol = [o for o in obs.values() if not o.get("hang")]
    for o in ol:
        o["out"].setdefault("attempts", [])
    r2, dev = vlib.judge_observations("TraceMTLS", "trace_mtls.cfg", ol, "c12r")
    for n in dev:
        rep.violation("c12:replay", "observed %s" % json.dumps(obs[n]["out"])[:600], {"case": c, "observation": obs[n]})
    rep.coverage.update({"states": 1, "transitions": 1, "traces_validated_against_impl": len(ol), "samples": [c]})
    return rep.finish()
