"""C18 - graceful shutdown leaves no sockets, temp directories or goroutines behind."""
import itertools, json, os, random
import vlib
from props import c02

PROP = "C18"
OPS = ["dispense", "broker_h2p", "broker_p2h", "stdio"]


def make_cases(tier, rng):
    cases = []
    combos = [(p, t, l) for p in ["netrpc", "grpc", "grpcmux"] for t in ["", "auto"] for l in ["cmd", "runner"]]
    if tier == "quick":
        picks = rng.sample(combos, 8) + [("grpc", "", "cmd"), ("grpcmux", "", "runner"), ("netrpc", "", "runner")]
        reps = 1
    else:
        picks, reps = combos, 6
    for (p, t, l) in picks:
        for _ in range(reps):
            ops = [rng.choice(OPS) for _ in range(rng.randint(1, 5))]
            if tier == "quick" and "broker_h2p" not in ops and rng.random() < 0.5:
                ops.append("broker_h2p")
            if p != "netrpc" and rng.random() < 0.5:
                # the plugin accepts one more brokered id while it handles the shutdown request, i.e.
                # after the host has closed its side of the broker
                ops.append("accept_during_shutdown")
            cases.append({"name": "l%d" % len(cases), "proto": p, "tls": t, "launch": l, "ops": ops})
    # many plugin-side brokered listeners open at the moment of the Kill (plain gRPC: each has a socket file; whether
    # a serving goroutine gets to close its listener before the process exits is a race, so there are several)
    for l in (["cmd"] if tier == "quick" else ["cmd", "runner", "cmd", "runner"]):
        cases.append({"name": "l%d" % len(cases), "proto": "grpc", "tls": "", "launch": l, "ops": ["broker_h2p"] * 40})
    # one brokered id used twice in a row (plain gRPC: two listeners under one id are open at the Kill)
    for p, op in ([("grpc", "broker_p2h_reuse"), ("grpc", "broker_h2p_reuse")] if tier == "quick" else
                  [(p, op) for p in ["grpc", "grpc", "netrpc"] for op in ["broker_p2h_reuse", "broker_h2p_reuse"]]):
        cases.append({"name": "l%d" % len(cases), "proto": p, "tls": "", "launch": rng.choice(["cmd", "runner"]), "ops": [op] + [rng.choice(OPS)]})
    cases.append({"name": "l%d" % len(cases), "proto": "grpc", "tls": "", "launch": "cmd", "ops": ["raw_accept_reuse", "broker_p2h"]})
    cases.append({"name": "l%d" % len(cases), "proto": "grpc", "tls": "", "launch": "cmd", "ops": ["raw_accept_closed", rng.choice(["broker_p2h", "dispense"])]})
    # a listener the host reserved and never accepts on, dialled once by the plugin (multiplexed: the knock is acknowledged
    # and its token is never taken); closed by the application after the Kill
    for p_ in (["grpcmux"] if tier == "quick" else ["grpcmux", "grpc", "grpcmux"]):
        cases.append({"name": "l%d" % len(cases), "proto": p_, "tls": "", "launch": rng.choice(["cmd", "runner"]), "ops": ["raw_accept_unserved"] + ([rng.choice([o for o in OPS if o != "broker_p2h" or p_ != "grpcmux"])] if tier != "quick" else [])})
        # (no plugin-to-host establishment after it under multiplexing: the unanswered dial's yamux stream sits at the head of the
        # session's single accept queue and the next host-side listener would take it -- outside C08's preconditions, DESIGN section 7)
        if p_ == "grpcmux":
            cases.append({"name": "l%d" % len(cases), "proto": p_, "tls": "", "launch": "cmd", "ops": ["raw_accept_unserved_twice"]})
    # the plugin is ended by another client (reattached), this one sees it exit and is killed afterwards
    for p_ in ["grpc", "netrpc"]:
        cases.append({"name": "l%d" % len(cases), "proto": p_, "tls": "", "launch": "cmd", "ops": ["broker_p2h", "dispense", "broker_h2p"], "killed_by_other": True})
    # calls whose peer never comes (not with multiplexing, where gRPC keeps re-dialling for a while)
    for p in ["netrpc", "grpc"]:
        for _ in range(1 if tier == "quick" else 4):
            ops = [rng.choice(OPS) for _ in range(rng.randint(0, 2))] + [rng.choice(["unmatched_dials", "unmatched_accept"]) if tier != "quick" else ("unmatched_dials" if p == "netrpc" else "unmatched_accept")]
            rng.shuffle(ops)
            cases.append({"name": "l%d" % len(cases), "proto": p, "tls": "", "launch": rng.choice(["cmd", "runner"]), "ops": ops})
    return cases


def run(tier, seed):
    rng = random.Random(seed * 69069 + 18)
    rep = vlib.Report(PROP, tier, seed, "model_checking")
    b = c02.build()
    runs = [vlib.tlc_expect_ok("Resources", "resources_%s.cfg" % c) for c in ("grpc", "grpcmux", "netrpc")]
    vlib.tlc_expect_violation("Resources", "resources_prefix_mux.cfg", "NoLeak")
    vlib.tlc_expect_violation("Resources", "resources_f16.cfg", "NoLeak")
    cases = make_cases(tier, rng)
    obs, crashes = vlib.run_cases(b["drivers"], "TestLeakCases", cases, "c18", env={"VERIF_VPLUGIN": b["vplugin"], "VERIF_CASE_TIMEOUT_S": "120"},
                                  shards=min(12, len(cases)), serial=True, timeout=3000)
    by = {c["name"]: c for c in cases}
    for name in vlib.hung_cases(obs):
        rep.violation("c18:hang", "scenario never finished", {"case": by[name]})
        del obs[name]
    for name, out in crashes.items():
        rep.violation("c18:crash", "host died: %s" % out[-300:], {"case": by[name], "output": out})
    obs_list = [obs[c["name"]] for c in cases if c["name"] in obs]
    r2, dev = vlib.judge_observations("TraceResources", "trace_resources.cfg", obs_list, "c18")
    for name in dev:
        o, c = obs[name], by[name]
        out = o["out"]
        kinds = []
        if out.get("leftover_sockets"):
            # which listener kind could have created them: after the graceful exit only plugin-side sockets can remain in a plain gRPC history with broker_h2p
            plugin_brokered = c["proto"] == "grpc" and ("broker_h2p" in c["ops"] or "accept_during_shutdown" in c["ops"])
            n_h2p = c["ops"].count("broker_h2p") + c["ops"].count("accept_during_shutdown")
            if plugin_brokered and len(out["leftover_sockets"]) <= n_h2p and all(s.startswith("socket:plugin") for s in out["leftover_sockets"]):
                kinds.append("socket:plugin_brokered:grpc")
            else:
                kinds.append("socket:%s" % c["proto"])
        if out.get("leftover_dirs"):
            kinds.append("dir:%s" % c["launch"])
        if out.get("leftover_goroutines"):
            kinds.append("goroutines:%s" % c["proto"])
        if not kinds:
            kinds.append("scenario:" + ("setup" if not out.get("setup_ok") else "ops" if not out.get("ops_ok") else "not-graceful"))
        for k in kinds:
            rep.violation("c18:" + k, "%s (TLS %r, launched by %s), history %s then a graceful Kill: left behind sockets %s, directories %s, %s goroutines%s -- Resources.tla requires nothing" % (
                c["proto"], c["tls"], c["launch"], c["ops"], out.get("leftover_sockets"), out.get("leftover_dirs"), out.get("leftover_goroutines"),
                (" e.g. " + out["goroutine_sample"][0][:300]) if out.get("goroutine_sample") else ""), {"case": c, "observation": o})
    rep.coverage.update({
        "states": sum(r["distinct"] for r in runs), "transitions": sum(r["generated"] for r in runs), "traces_validated_against_impl": len(obs_list),
        "evaluations": len(cases), "distinct_nontrivial": len(set(json.dumps([c["proto"], c["tls"], c["launch"], c["ops"]]) for c in cases)),
        "rule": "history = 1-5 operations (dispense, brokered connection host->plugin / plugin->host, stdio traffic) then Kill, per protocol x AutoMTLS x launch method, on a real process with a "
                "private temp directory for both sides; sockets/directories listed 1 s after Kill, host goroutines compared with the pre-start dump 6.5 s after Kill",
        "exhaustive": False, "samples": obs_list[:1],
    })
    rep.assumptions += ["both sides create their sockets under one private TMPDIR per history", "goroutines are attributed by go-plugin / yamux frames in the host's goroutine dump"]
    return rep.finish()


def replay(path):
    payload = json.load(open(path))
    c = payload["case"]["case"]
    rep = vlib.Report(PROP, "quick", payload.get("seed", 0), "model_checking")
    b = c02.build()
    obs, crashes = vlib.run_cases(b["drivers"], "TestLeakCases", [c], "c18r", env={"VERIF_VPLUGIN": b["vplugin"]}, shards=1, serial=True)
    ol = [o for o in obs.values() if not o.get("hang")]
    r2, dev = vlib.judge_observations("TraceResources", "trace_resources.cfg", ol, "c18r")
    for n in dev:
        rep.violation("c18:replay", "observed %s" % json.dumps(obs[n]["out"])[:600], {"case": c, "observation": obs[n]})
    rep.coverage.update({"states": 1, "transitions": 1, "traces_validated_against_impl": len(ol), "samples": [c]})
    return rep.finish()
