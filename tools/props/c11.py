"""C11 - synced stdout/stderr arrive byte-exact, in order, on the right stream."""
import json, os, random
import vlib
from props import c02

PROP = "C11"
SIZES = [0, 1, 2, 1023, 1024, 1025, 2048, 4095, 4096, 4097, 9000, 70000]
PROTOS = ["netrpc", "grpc", "grpcmux"]


def script(rng, n, seed0, maxsize=70000, gaps=True):
    ws = []
    for i in range(n):
        ws.append({"stream": rng.choice(["out", "err"]), "n": rng.choice([s for s in SIZES if s <= maxsize]), "seed": seed0 + i,
                   "gap_ms": rng.choice([0, 0, 0, 1, 5]) if gaps else 0})
    return ws


def make_cases(tier, rng):
    cases = []
    n = 5 if tier == "quick" else 2500
    for proto in PROTOS:
        for i in range(n):
            pre = script(rng, rng.randint(0, 4), 100, maxsize=9000) if rng.random() < 0.6 else []
            cases.append({"name": "io%d" % len(cases), "proto": proto, "pre": pre, "attach_delay_ms": rng.choice([0, 50, 300]) if pre else 0,
                          "script": script(rng, rng.randint(2, 10), 1000), "with_rpc": rng.random() < 0.4})
        # all boundary sizes in a row on both streams
        cases.append({"name": "io%d" % len(cases), "proto": proto, "pre": [], "attach_delay_ms": 0, "with_rpc": False,
                      "script": [{"stream": st, "n": s, "seed": 2000 + k * 2 + j, "gap_ms": 0} for k, s in enumerate(SIZES) for j, st in enumerate(["out", "err"])]})
    # output that comes later than the client's StartTimeout after the host attached
    for proto in PROTOS:
        for _ in range(1 if tier == "quick" else 4):
            late = [{"stream": "out", "n": 300, "seed": 3000, "gap_ms": 0}, {"stream": "err", "n": 200, "seed": 3001, "gap_ms": 0},
                    {"stream": "out", "n": rng.choice([100, 2048]), "seed": 3002, "gap_ms": 1700}, {"stream": "err", "n": 1500, "seed": 3003, "gap_ms": 1700}]
            cases.append({"name": "io%d" % len(cases), "proto": proto, "pre": [], "attach_delay_ms": 0, "with_rpc": False, "script": late, "start_timeout_ms": 1000})
    # the host's stdout writer is stuck for six seconds while the plugin writes more than a yamux window's worth
    for proto in (["netrpc"] if tier == "quick" else ["netrpc", "grpc", "netrpc"]):
        cases.append({"name": "io%d" % len(cases), "proto": proto, "kind": "stall", "pre": [], "attach_delay_ms": 0, "with_rpc": False, "stall_ms": 6000,
                      # (a small first write, so that the blocks the copier reads afterwards do not line up with the window)
                      "script": [{"stream": "out", "n": rng.choice([1000, 777, 4321]), "seed": 3999, "gap_ms": 150}, {"stream": "out", "n": 300000, "seed": 4000, "gap_ms": 150}, {"stream": "out", "n": 300000, "seed": 4001, "gap_ms": 0},
                                 {"stream": "err", "n": 2000, "seed": 4002, "gap_ms": 0}]})
    # the first host's connection goes away with output backed up; a second host reattaches to the running plugin
    for i in range(3 if tier == "quick" else 24):
        cases.append({"name": "io%d" % len(cases), "proto": "grpc", "kind": "handover", "pre": [], "script": [],
                      "attach_delay_ms": 0, "with_rpc": False, "stall_ms": rng.choice([300, 600, 1000]), "on_stream": ["out", "err"][i % 2]})
    return cases


def run(tier, seed):
    rng = random.Random(seed * 40692 + 11)
    rep = vlib.Report(PROP, tier, seed, "model_checking")
    b = c02.build()
    runs = [vlib.tlc_expect_ok("Stdio", "stdio_grpc.cfg"), vlib.tlc_expect_ok("Stdio", "stdio_netrpc.cfg"), vlib.tlc_expect_ok("Stdio", "stdio_handover.cfg")]
    vlib.tlc_expect_violation("Stdio", "stdio_requeue.cfg", "Run")
    vlib.tlc_expect_violation("Stdio", "stdio_crosstag.cfg", "NoCrossing")
    vlib.tlc_expect_violation("Stdio", "stdio_reuse.cfg", "Prefix")
    cases = make_cases(tier, rng)
    obs, crashes = vlib.run_cases(b["drivers"], "TestStdioCases", cases, "c11", env={"VERIF_VPLUGIN": b["vplugin"], "VERIF_CASE_TIMEOUT_S": "90"}, shards=min(6, vlib.NCPU), timeout=2400)
    by = {c["name"]: c for c in cases}
    for name in vlib.hung_cases(obs):
        rep.violation("c11:hang", "scenario never finished", {"case": by[name]})
        del obs[name]
    for name, out in crashes.items():
        rep.violation("c11:crash", "host died: %s" % out[-300:], {"case": by[name], "output": out})
    obs_list = [obs[c["name"]] for c in cases if c["name"] in obs]
    for o in obs_list:
        o["out"].setdefault("written", {"out": [], "err": []})
        o["out"].setdefault("delivered", {"out": [], "err": []})
        o["out"].setdefault("garbage", {"out": 0, "err": 0})
    r2, dev = vlib.judge_observations("TraceStdio", "trace_stdio.cfg", obs_list, "c11")
    for name in dev:
        o, c = obs[name], by[name]
        kind = "handover" if c.get("kind") == "handover" else "crossed" if any(k.startswith("crossed_") for k in o["out"]) else ("garbage" if any(o["out"]["garbage"].values()) else "lost")
        rep.violation("c11:%s:%s" % (c["proto"], kind),
                      "%s, %d writes before attach, %d after%s: bytes per stream got/expected out=%s err=%s, %s -- not what Stdio.tla allows" % (
                          c["proto"], len(c["pre"]), len(c["script"]), ", RPC traffic" if c["with_rpc"] else "", o["out"].get("bytes_out"), o["out"].get("bytes_err"),
                          json.dumps({k: v for k, v in o["out"].items() if k.startswith(("first_mismatch", "crossed", "garbage", "alive", "err", "b_", "first_"))})),
                      {"case": c, "observation": o})
    rep.coverage.update({
        "states": sum(r["distinct"] for r in runs), "transitions": sum(r["generated"] for r in runs), "traces_validated_against_impl": len(obs_list),
        "evaluations": len(cases), "distinct_nontrivial": len(set(json.dumps([c["proto"], c["pre"], c["script"], c["with_rpc"]]) for c in cases)),
        "bytes_checked": sum(sum(o["out"].get("bytes_" + s, [0])[:1]) for o in obs_list for s in ("out", "err")),
        "rule": "scenario = (protocol, writes the plugin makes as soon as it serves -- possibly before the host attaches, attach delay, writes after attaching, concurrent RPC traffic); "
                "write sizes around the 1 KiB chunk and 4 KiB buffer boundaries, both streams interleaved; plus all boundary sizes in a row per protocol",
        "exhaustive": False, "samples": [{"proto": c["proto"], "pre": c["pre"][:2], "script": c["script"][:3]} for c in cases[:2]],
    })
    rep.assumptions += ["every write is filled with a pattern derived from a per-write seed; delivered bytes are compared with the concatenation per stream"]
    return rep.finish()


def replay(path):
    payload = json.load(open(path))
    c = payload["case"]["case"]
    rep = vlib.Report(PROP, "quick", payload.get("seed", 0), "model_checking")
    b = c02.build()
    obs, crashes = vlib.run_cases(b["drivers"], "TestStdioCases", [c], "c11r", env={"VERIF_VPLUGIN": b["vplugin"]}, shards=1)
    ol = [o for o in obs.values() if not o.get("hang")]
    r2, dev = vlib.judge_observations("TraceStdio", "trace_stdio.cfg", ol, "c11r")
    for n in dev:
        rep.violation("c11:replay", "observed %s" % json.dumps(obs[n]["out"])[:500], {"case": c, "observation": obs[n]})
    rep.coverage.update({"states": 1, "transitions": 1, "traces_validated_against_impl": len(ol), "samples": [c]})
    return rep.finish()
