"""C05 - a failed start never leaves a plugin process behind."""
import json, os, random
import vlib
from props import c01, c02, c19

PROP = "C05"
FAIL_PLANS = ["badline", "silent", "partial", "closeout", "exitearly"]


def run(tier, seed):
    rng = random.Random(seed * 69621 + 5)
    rep = vlib.Report(PROP, tier, seed, "model_checking")
    b = c02.build()
    cov = rep.coverage
    # E1: Lifecycle.tla, every failing plan: the launch is killed before Start returns, the process
    # ends (liveness), Kill afterwards leaves nothing; Handshake.tla supplies the rejected lines
    runs = [vlib.tlc_expect_ok("Lifecycle", "lifecycle_%s.cfg" % p) for p in FAIL_PLANS]
    runs.append(vlib.tlc_expect_ok("Handshake", "handshake.cfg"))
    # (a) custom runner, scripted process: call words from TLC's graph on the failing plans
    lc_cases, _ = c19.gen_cases(tier, rng, cov, plans=FAIL_PLANS)
    lc_cases = [c for c in lc_cases if not c["concurrent"] and c["plan"] in FAIL_PLANS]
    if tier == "quick":
        lc_cases = [c for c in lc_cases if len(c["calls"]) <= 2] + rng.sample([c for c in lc_cases if len(c["calls"]) > 2], 120)
    obs, crashes = vlib.run_cases(b["drivers"], "TestLifecycleCases", lc_cases, "c05a", shards=vlib.NCPU)
    by = {c["name"]: c for c in lc_cases}
    for name in vlib.hung_cases(obs):
        rep.violation("c05:hang", "call sequence %s on plan %s never returned" % (by[name]["calls"], by[name]["plan"]), {"case": by[name]})
        del obs[name]
    for name, out in crashes.items():
        rep.violation("c05:crash", "host died on %s" % by[name]["calls"], {"case": by[name], "output": out})
    accepted = 0
    for plan in FAIL_PLANS:
        packed = [(c["name"], [{"ev": "reset", "concurrent": False, "name": c["name"]}] + obs[c["name"]]["events"])
                  for c in lc_cases if c["plan"] == plan and c["name"] in obs]
        if not packed:
            continue
        ok, rejected, st = vlib.validate_packed("TraceLifecycle", "trace_lifecycle_%s.cfg" % plan, packed, "c05." + plan)
        accepted += ok
        for name, ev, detail in rejected:
            rep.violation("c05:runner:%s:%s" % (plan, ev.get("op", ev.get("ev"))),
                          "custom runner, plan %s, calls %s: observed %s -- %s" % (plan, by[name]["calls"], json.dumps(ev), detail),
                          {"case": by[name], "events": obs[name]["events"]})
    # (b) real processes: every failure cause x launch method
    table = c01.export_table()
    accepted_rows, near, rest, short = c01.strata(table)
    cfgs = table["cfgs"]
    cases = []

    def add(cause, launch, line=None, cfg=None):
        cases.append({"name": "sf%d" % len(cases), "cause": cause, "launch": launch,
                      "line": line or table["rows"][0]["line"], "cfg": cfg or cfgs[0], "variant": rng.randint(0, 59)})
        if launch == "runner" and len(cases) % 4 == 0:
            # another client sharing this one's *UnixSocketConfig is started between the failed Start and the Kill
            cases[-1]["shared"] = True
    n_line = 70 if tier == "quick" else 500
    reject_rows = [r for r in near] + rng.sample(short, 20)
    for r in rng.sample(reject_rows, min(n_line, len(reject_rows))):
        bad_cfgs = [i for i in range(len(cfgs)) if (i + 1) not in r["ok"]]
        ci = rng.choice(bad_cfgs)
        add("line", rng.choice(["cmd", "runner"]), r["line"], cfgs[ci])
    # a line that is fine for some configs but not for this one (disallowed protocol, mux not supported, ...)
    for r in rng.sample(accepted_rows, min(len(accepted_rows), 40 if tier == "quick" else 300)):
        bad_cfgs = [i for i in range(len(cfgs)) if (i + 1) not in r["ok"]]
        if bad_cfgs:
            add("line", rng.choice(["cmd", "runner"]), r["line"], cfgs[rng.choice(bad_cfgs)])
    reps = 2 if tier == "quick" else 8
    for cause in ["mismatch", "silent", "tinytimeout", "partial", "exitearly", "closeout", "closeboth"]:
        for launch in ["cmd", "runner"]:
            for _ in range(reps):
                add(cause, launch)
    obs2, crashes2 = vlib.run_cases(b["drivers"], "TestStartFailCases", cases, "c05b", env={"VERIF_VPLUGIN": b["vplugin"]},
                                    shards=min(8, vlib.NCPU))
    by2 = {c["name"]: c for c in cases}
    for name in vlib.hung_cases(obs2):
        rep.violation("c05:hang", "start-failure case %s never finished" % json.dumps(by2[name])[:300], {"case": by2[name], "dump": obs2[name].get("dump", "")[:6000]})
        del obs2[name]
    for name, out in crashes2.items():
        rep.violation("c05:crash", "host died", {"case": by2[name], "output": out})
    obs_list = [obs2[c["name"]] for c in cases if c["name"] in obs2]
    r2, dev = vlib.judge_observations("TraceStartFail", "trace_startfail.cfg", obs_list, "c05")
    for name in dev:
        o = obs2[name]
        rep.violation("c05:proc:%s:%s" % (o["cause"], o["launch"]),
                      "launch by %s, cause %s%s: observed %s -- not what C05 allows (TraceStartFail.tla)" % (
                          o["launch"], o["cause"], (" line %r" % o["out"].get("raw")) if o["cause"] == "line" else "", json.dumps(o["out"])),
                      {"case": by2[name], "observation": o})
    cov.update({
        "states": sum(r["distinct"] for r in runs), "transitions": sum(r["generated"] for r in runs),
        "traces_validated_against_impl": accepted + len(obs_list),
        "evaluations": len(lc_cases) + len(cases),
        "distinct_nontrivial": len(set((c["plan"], tuple(c["calls"])) for c in lc_cases if len(c["calls"]) >= 2)) + len(set((c["cause"], c["launch"], json.dumps(c["line"], sort_keys=True), json.dumps(c["cfg"], sort_keys=True)) for c in cases)),
        "rule": "(a) call words from TLC's Lifecycle graph on every failing plan, scripted custom runner; (b) real vplugin process per failure cause "
                "(rejected handshake-line class from TLC's table, silence, half line, early exit, closed stdout) x launch method; distinct = distinct words / (cause, launch, line class, config)",
        "samples": [{"cause": o["cause"], "launch": o["launch"], "out": o["out"]} for o in obs_list[:2] + obs_list[-2:]],
        "exhaustive": False,
    })
    rep.assumptions += ["'shortly after' = within 1 s of Start returning; 'promptly' = Kill within 1 s", "start timeout 1.5 s in the process cases"]
    return rep.finish()


def replay(path):
    payload = json.load(open(path))
    case = payload["case"]["case"]
    if "calls" in case:
        return c19.replay(path)
    rep = vlib.Report(PROP, "quick", payload.get("seed", 0), "model_checking")
    b = c02.build()
    obs2, crashes2 = vlib.run_cases(b["drivers"], "TestStartFailCases", [case], "c05r", env={"VERIF_VPLUGIN": b["vplugin"]}, shards=1)
    r2, dev = vlib.judge_observations("TraceStartFail", "trace_startfail.cfg", list(obs2.values()), "c05r")
    for name in dev:
        rep.violation("c05:replay", "observed %s" % json.dumps(obs2[name]["out"]), {"case": case, "observation": obs2[name]})
    rep.coverage.update({"states": 1, "transitions": 1, "traces_validated_against_impl": len(obs2), "samples": [case]})
    return rep.finish()
