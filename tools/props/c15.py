"""C15 - reattach reaches the same live plugin; test mode never kills the server."""
import json, os, random, re
import vlib
from props import c02

PROP = "C15"


def parse_label(lab):
    m = re.match(r"(\w+)(?:\((.*)\))?", lab)
    act, args = m.group(1), [a.strip().strip('"') for a in (m.group(2) or "").split(",") if a.strip()]
    if act in ("Start", "Cancel", "Crash", "Freeze", "Ghost"):
        return {"op": act, "c": "-", "v": 0}
    if act == "Set":
        return {"op": "Set", "c": args[0], "v": int(args[1])}
    return {"op": act, "c": args[0], "v": 0}


def gen(tier, rng, cov):
    cases, runs = [], []
    for tm in (False, True):
        init, edges, r = vlib.tlc_graph("Reattach", "reattach_%s.cfg" % ("TRUE" if tm else "FALSE"))
        runs.append(r)
        words = [w for w in vlib.graph_words(init, edges, set(), 6) if len(w) >= 3 and any(x.startswith("Reattach") for x in w)]
        cov.setdefault("graph_words", {})["test_mode" if tm else "process"] = len(words)
        # prefer histories that exercise the clauses: a Get after a Set through another client, a Kill, a Reattach after death
        def score(w):
            s = 0
            s += any(x.startswith("Kill") for x in w)
            s += any(x.startswith("Get") for x in w) and any(x.startswith("Set") for x in w)
            s += sum(1 for x in w if x.startswith("Reattach")) >= 2
            s += any(x.startswith("Cancel") for x in w)
            # an ungraceful death (socket file left behind) followed by a reattach
            s += 2 * any(x.startswith("Crash") and any(y.startswith("Reattach") for y in w[i + 1:]) for i, x in enumerate(w))
            s += 2 * any(x.startswith("Again") for x in w)
            # a host that connected and went away without a word, then the plugin is used again
            s += 2 * any(x.startswith("Ghost") and any(y.startswith(("Get", "Reattach")) for y in w[i + 1:]) for i, x in enumerate(w))
            # a plugin that answers nothing any more, killed through a reattached client
            s += 3 * any(x.startswith("Freeze") and any(y.startswith("Kill") and "c1" not in y for y in w[i + 1:]) for i, x in enumerate(w))
            return s
        good = [w for w in words if score(w) >= 2]
        n = {"quick": 16, "thorough": 900}[tier]
        for proto in ("netrpc", "grpc"):
            # (the shutdown request to a stopped net/rpc plugin is only bounded by the yamux keep-alive, C04's thorough tier)
            pool = good if proto == "grpc" else [w for w in good if not any(x.startswith("Freeze") for x in w)]
            # every clause-specific shape is represented (two words each), the rest is a random sample
            feats = [lambda w: any(x.startswith("Ghost") and any(y.startswith(("Get", "Reattach")) for y in w[i + 1:]) for i, x in enumerate(w)),
                     lambda w: any(x.startswith("Crash") and any(y.startswith("Reattach") for y in w[i + 1:]) for i, x in enumerate(w)),
                     lambda w: any(x.startswith("Again") for x in w),
                     lambda w: any(x.startswith("Freeze") and any(y.startswith("Kill") and "c1" not in y for y in w[i + 1:]) for i, x in enumerate(w)),
                     lambda w: any(x.startswith("Cancel") for x in w),
                     lambda w: any(x.startswith("Kill") and "c1" not in x for x in w) and any(x.startswith("Get") for x in w)]
            chosen = []
            for f in feats:
                cand = [w for w in pool if f(w)]
                chosen += rng.sample(cand, min(2 if tier == "quick" else 20, len(cand)))
            chosen += rng.sample(pool, min(max(0, n - len(chosen)), len(pool)))
            for w in chosen:
                ops = [parse_label(x) for x in w]
                for o in ops:
                    if o["op"] == "Reattach":
                        # the configuration may come from the original or from a client that is itself reattached
                        o["src"] = rng.choice(["orig", "c2", "c3"])
                cases.append({"name": "ra%d" % len(cases), "test_mode": tm, "proto": proto, "ops": ops})
                if not tm and len(cases) % 3 == 0:
                    cases[-1]["tls"] = "static"        # plugin and all clients share one certificate
                # the same word on a plugin whose main() lingers after Serve has returned (listener closed, process
                # still there): a Kill by whichever client must still end it (after the grace period)
                if not tm and any(o["op"] == "Kill" and o["c"] != "c1" for o in ops) and not any(o["op"] in ("Freeze", "Crash") for o in ops) \
                        and sum(1 for c in cases if c.get("linger") and c["proto"] == proto) < (2 if tier == "quick" else 40):
                    cases.append({"name": "ra%d" % len(cases), "test_mode": tm, "proto": proto, "ops": ops, "linger": True})
    return cases, runs


def run(tier, seed):
    rng = random.Random(seed * 1664525 + 15)
    rep = vlib.Report(PROP, tier, seed, "model_checking")
    b = c02.build()
    cov = rep.coverage
    runs = [vlib.tlc_expect_ok("Reattach", "reattach_TRUE.cfg"), vlib.tlc_expect_ok("Reattach", "reattach_FALSE.cfg")]
    cases, _ = gen(tier, rng, cov)
    if len(cases) < 8:
        raise vlib.Inconclusive("no histories could be generated from the TLC graph")
    obs, crashes = vlib.run_cases(b["drivers"], "TestReattachCases", cases, "c15", env={"VERIF_VPLUGIN": b["vplugin"], "VERIF_CASE_TIMEOUT_S": "90"},
                                  shards=min(8, vlib.NCPU), timeout=2400)
    by = {c["name"]: c for c in cases}
    for name in vlib.hung_cases(obs):
        rep.violation("c15:hang", "history never finished: %s" % json.dumps(by[name])[:300], {"case": by[name], "dump": obs[name].get("dump", "")[:6000]})
        del obs[name]
    for name, out in crashes.items():
        rep.violation("c15:crash", "host died: %s" % out[-300:], {"case": by[name], "output": out})
    accepted = 0
    for tm in (False, True):
        packed = [(c["name"], [{"ev": "reset", "name": c["name"]}] + vlib._no_nulls(obs[c["name"]]["events"])) for c in cases if c["test_mode"] == tm and c["name"] in obs]
        if not packed:
            continue
        ok, rejected, st = vlib.validate_packed("TraceReattach", "trace_reattach_%s.cfg" % ("TRUE" if tm else "FALSE"), packed, "c15.%s" % tm)
        accepted += ok
        for name, ev, detail in rejected:
            c = by[name]
            rep.violation("c15:%s:%s:%s" % ("test" if tm else "proc", c["proto"], ev.get("op", "?")),
                          "%s plugin (%s), history %s: observed %s -- %s (Reattach.tla)" % ("test-mode" if tm else "real-process", c["proto"],
                                                                                          [(o["op"], o["c"], o["v"]) for o in c["ops"]], json.dumps(ev), detail),
                          {"case": c, "events": obs[name]["events"]})
    cov.update({
        "states": sum(r["distinct"] for r in runs), "transitions": sum(r["generated"] for r in runs), "traces_validated_against_impl": accepted,
        "evaluations": len(cases), "distinct_nontrivial": len(set((c["test_mode"], c["proto"], json.dumps(c["ops"])) for c in cases)),
        "rule": "history = word of operations (start, reattach c2/c3, set/get through any client, kill through any client, cancel in test mode) read off TLC's state graph of "
                "Reattach.tla (length 3-6, at least one reattach), executed on a real plugin process or an in-process test-mode server, for net/rpc and gRPC",
        "exhaustive": False, "samples": [{"test_mode": c["test_mode"], "proto": c["proto"], "ops": c["ops"], "events": obs[c["name"]]["events"]} for c in cases[:1] if c["name"] in obs],
    })
    rep.assumptions += ["'the same plugin instance' = same per-process instance id and the state cell written through one client is read through another"]
    return rep.finish()


def replay(path):
    payload = json.load(open(path))
    c = payload["case"]["case"]
    rep = vlib.Report(PROP, "quick", payload.get("seed", 0), "model_checking")
    b = c02.build()
    obs, crashes = vlib.run_cases(b["drivers"], "TestReattachCases", [c], "c15r", env={"VERIF_VPLUGIN": b["vplugin"]}, shards=1)
    for name, o in obs.items():
        packed = [(name, [{"ev": "reset", "name": name}] + vlib._no_nulls(o["events"]))]
        ok, rejected, st = vlib.validate_packed("TraceReattach", "trace_reattach_%s.cfg" % ("TRUE" if c["test_mode"] else "FALSE"), packed, "c15r")
        for n, ev, detail in rejected:
            rep.violation("c15:replay", "observed %s -- %s" % (json.dumps(ev), detail), {"case": c, "events": o["events"]})
    rep.coverage.update({"states": 1, "transitions": 1, "traces_validated_against_impl": len(obs), "samples": [c]})
    return rep.finish()
