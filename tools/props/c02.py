"""C02 - version negotiation settles both sides on the highest common version."""
import itertools, json, os, random
import vlib

PROP = "C02"
U = [0, 1, 2, 3]


def subsets():
    out = []
    for r in range(1, 5):
        out += [list(c) for c in itertools.combinations(U, r)]
    return out


VALID_SPELL = [lambda v: str(v), lambda v: "+%d" % v, lambda v: "0%d" % v]
INVALID = ["x", "2.0", " 2", "", "2 ", "0x1", "v1", "1;2"]


def form_for(rng, versions):
    if len(versions) == 1:
        return rng.choice(["legacy", "versioned"])
    return rng.choice(["versioned", "both"])


def make_cases(tier, rng):
    cases = []
    subs = subsets()

    def served_of(S):
        return [{"v": v, "proto": rng.choice(["netrpc", "grpc"])} for v in S]

    def add(c):
        c["name"] = "v%d" % len(cases)
        cases.append(c)
    pairs = [(H, S) for H in subs for S in subs]
    if tier == "quick":
        multi = [p for p in pairs if len(set(p[0]) & set(p[1])) >= 2]
        pick = multi + rng.sample([p for p in pairs if p not in multi], 90)
    else:
        pick = pairs * 40
    for H, S in pick:
        add({"layer": "pair", "host": H, "host_form": form_for(rng, H), "served": served_of(S), "served_form": form_for(rng, S),
             "grpc_factory": rng.random() < 0.7, "no_list": False,
             "tokens": [{"text": str(v), "val": v, "valid": True} for v in H]})
    # the plugin alone, with raw lists a real host never sends
    n_raw = 120 if tier == "quick" else 20000
    for _ in range(n_raw):
        S = rng.choice(subs)
        kind = rng.choice(["nolist", "wellformed", "partly_invalid", "duplicates", "unsorted", "empty"])
        toks = []
        if kind in ("wellformed", "unsorted", "duplicates", "partly_invalid"):
            H = rng.choice(subs)
            vs = list(H)
            if kind == "duplicates":
                vs = vs + [rng.choice(vs)]
            rng.shuffle(vs) if kind != "wellformed" else None
            toks = [{"text": rng.choice(VALID_SPELL)(v), "val": v, "valid": True} for v in vs]
            if kind == "partly_invalid":
                for _ in range(rng.randint(1, 2)):
                    toks.insert(rng.randint(0, len(toks)), {"text": rng.choice(INVALID), "val": 0, "valid": False})
        elif kind == "empty":
            toks = []
        add({"layer": "plugin", "host": [], "host_form": "-", "served": served_of(S), "served_form": form_for(rng, S),
             "grpc_factory": rng.random() < 0.7, "no_list": kind == "nolist", "tokens": toks, "kind": kind})
    # the same raw lists against a plugin served in test mode inside the driver (ServeConfig.Test): the client built
    # from the reattach configuration it hands out must report the version whose set it is served
    plugin_cases = [c for c in cases if c["layer"] == "plugin"]
    for c in rng.sample(plugin_cases, min(len(plugin_cases), 30 if tier == "quick" else 600)):
        add(dict(c, layer="testmode"))
    return cases


def build(binaries={}):
    if not binaries:
        binaries["drivers"] = vlib.go_build("test", "./drivers/", os.path.join(vlib.scratch(), "drivers.test"))
        binaries["vplugin"] = vlib.go_build("bin", "./cmd/vplugin", os.path.join(vlib.scratch(), "vplugin"))
    return binaries


def run(tier, seed):
    rng = random.Random(seed * 2654435761 % (1 << 31) + 2)
    rep = vlib.Report(PROP, tier, seed, "model_checking")
    b = build()
    r1 = vlib.tlc_expect_ok("Versions", "versions.cfg")
    cases = make_cases(tier, rng)
    obs, crashes = vlib.run_cases(b["drivers"], "TestVersionCases", cases, "c02", env={"VERIF_VPLUGIN": b["vplugin"]},
                                  shards=min(8, vlib.NCPU))
    # the same negotiation from a host that is itself a plugin: its own environment carries the list
    # ITS host sent, which must not reach the plugins it launches
    pairs = [c for c in cases if c["layer"] == "pair"]
    nested = []
    for c in (pairs if tier == "thorough" else rng.sample(pairs, min(60, len(pairs)))):
        n = dict(c, name="n" + c["name"], host_env_versions=rng.choice(["7", "0", "3,2,1,0", "9,8"]))
        nested.append(n)
    for stale in sorted(set(n["host_env_versions"] for n in nested)):
        grp = [n for n in nested if n["host_env_versions"] == stale]
        o2, c2 = vlib.run_cases(b["drivers"], "TestVersionCases", grp, "c02n" + stale.replace(",", "_"),
                                env={"VERIF_VPLUGIN": b["vplugin"], "PLUGIN_PROTOCOL_VERSIONS": stale}, shards=2)
        obs.update(o2)
        crashes.update(c2)
    cases = cases + nested
    # one ClientConfig value used for two launches in a row (a plugin being replaced by another build): the
    # first negotiates the highest common version, the second plugin only serves a lower one
    relaunch = []
    multi = [c for c in pairs if len(c["host"]) >= 2 and c["host_form"] in ("versioned", "both")]
    for c in (multi if tier == "thorough" else rng.sample(multi, min(25, len(multi)))):
        hi = max(c["host"])
        lower = [v for v in c["host"] if v != hi]
        lo = rng.choice(lower)
        relaunch.append(dict(c, name="r" + c["name"], first_served=[{"v": hi, "proto": rng.choice(["netrpc", "grpc"])}],
                             served=[{"v": lo, "proto": rng.choice(["netrpc", "grpc"])}], served_form="versioned", grpc_factory=True))
    if relaunch:
        o3, c3 = vlib.run_cases(b["drivers"], "TestVersionCases", relaunch, "c02r2", env={"VERIF_VPLUGIN": b["vplugin"]}, shards=min(4, vlib.NCPU))
        obs.update(o3)
        crashes.update(c3)
        cases = cases + relaunch
    by = {c["name"]: c for c in cases}
    for name in vlib.hung_cases(obs):
        rep.violation("c02:hang", "case %s did not finish within %ss: a call never returned (%s)" % (name, obs[name].get("limit_s"), json.dumps({k: v for k, v in by[name].items() if k != "name"})[:300]),
                      {"case": by[name], "dump": obs[name].get("dump", "")[:8000]})
        del obs[name]
        cases = [c for c in cases if c["name"] != name]
    for name, out in crashes.items():
        rep.violation("c02:crash", "the host process died on version case %s" % name, {"case": by[name], "output": out})
    obs_list = [obs[c["name"]] for c in cases if c["name"] in obs]
    if len(obs_list) + len(crashes) != len(cases):
        raise vlib.Inconclusive("%d of %d cases produced no observation" % (len(cases) - len(obs_list) - len(crashes), len(cases)))
    r2, dev = vlib.judge_observations("TraceVersions", "trace_versions.cfg", obs_list, "c02")
    for name in dev:
        o = obs[name]
        c = by[name]
        if c["layer"] == "pair":
            what = "host offers %s (%s), plugin serves %s (%s, gRPC factory %s): observed %s" % (
                c["host"], c["host_form"], [(s["v"], s["proto"]) for s in c["served"]], c["served_form"], c["grpc_factory"], json.dumps(o["out"]))
            common = sorted(set(c["host"]) & set(s["v"] for s in c["served"]))
            sig = "c02:pair:%s%s" % ("common" if common else "nocommon", ":nested-host" if c.get("host_env_versions") else "")
            if c.get("first_served"):
                sig += ":relaunch"
                what = "the ClientConfig was used before for a plugin serving %s; " % [x["v"] for x in c["first_served"]] + what
            if c.get("host_env_versions"):
                what = "host is itself a plugin (its environment has PLUGIN_PROTOCOL_VERSIONS=%s); " % c["host_env_versions"] + what
        else:
            what = ("plugin served in test mode inside the host process" if c["layer"] == "testmode" else "plugin alone") + ", PLUGIN_PROTOCOL_VERSIONS=%r (%s), serves %s: announced %s" % (
                ",".join(t["text"] for t in c["tokens"]) if not c["no_list"] else None, c.get("kind"),
                [(s["v"], s["proto"]) for s in c["served"]], json.dumps(o["out"]))
            sig = "c02:%s:%s" % (c["layer"], c.get("kind"))
        rep.violation(sig, what + " -- not what Versions!Announce / the property allow", {"case": c, "observation": o})
    distinct = len(set(json.dumps({k: c[k] for k in ("layer", "host", "served", "grpc_factory", "no_list", "tokens", "host_form", "served_form")}, sort_keys=True) for c in cases))
    rep.coverage.update({
        "states": r1["distinct"], "transitions": r1["generated"], "traces_validated_against_impl": len(obs_list),
        "evaluations": len(cases), "distinct_nontrivial": distinct,
        "rule": "case = (host version set and form, plugin version set, per-version wire protocol, gRPC factory, form) for the pair layer, "
                "or (raw PLUGIN_PROTOCOL_VERSIONS token list, plugin sets) for the plugin-only layer; distinct = distinct case records",
        "exhaustive": tier == "thorough",
        "samples": [obs[c["name"]] for c in cases[:2] + cases[-2:] if c["name"] in obs],
    })
    rep.assumptions += ["versions range over 0..3", "every plugin set holds one plugin", "tier thorough enumerates all 225 (host set, plugin set) pairs three times with random forms/protocols"]
    return rep.finish()


def replay(path):
    payload = json.load(open(path))
    c = payload["case"]["case"]
    rep = vlib.Report(PROP, "quick", payload.get("seed", 0), "model_checking")
    b = build()
    env = {"VERIF_VPLUGIN": b["vplugin"]}
    if c.get("host_env_versions"):
        env["PLUGIN_PROTOCOL_VERSIONS"] = c["host_env_versions"]
    obs, crashes = vlib.run_cases(b["drivers"], "TestVersionCases", [c], "c02r", env=env, shards=1)
    r2, dev = vlib.judge_observations("TraceVersions", "trace_versions.cfg", list(obs.values()), "c02r")
    for name in dev:
        rep.violation("c02:replay", "observation not allowed: %s" % json.dumps(obs[name]["out"]), {"case": c, "observation": obs[name]})
    rep.coverage.update({"states": 1, "transitions": 1, "traces_validated_against_impl": len(obs), "samples": [c]})
    return rep.finish()
