"""C13 - SecureConfig runs the binary only if its checksum matches."""
import json, os, random
import vlib

PROP = "C13"
HLEN = {"sha256": 32, "sha512": 64, "sha1": 20, "md5": 16}


def make_cases(tier, rng):
    cases = []

    def add(**kw):
        kw.setdefault("history", "")
        kw.setdefault("hash_nil", False)
        kw.setdefault("launch", "cmd")
        kw["name"] = "ck%d" % len(cases)
        cases.append(kw)
    files = [(rng.choice([0, 1, 100, 4096, 70000]), rng.randint(1, 1 << 20)) for _ in range(1 if tier == "quick" else 12)]
    hashes = ["sha256"] if tier == "quick" else ["sha256", "sha512", "sha1", "md5"]
    for size, seed in files:
        for h in hashes:
            n = HLEN[h]
            add(hash=h, **{"class": "exact"}, pos=0, file_size=size, file_seed=seed)
            for bit in range(n * 8):
                add(hash=h, **{"class": "bitflip"}, pos=bit, file_size=size, file_seed=seed)
            for k in range(n - 1):
                add(hash=h, **{"class": "prefix"}, pos=k, file_size=size, file_seed=seed)
            for k in range(4):
                add(hash=h, **{"class": "extended"}, pos=k, file_size=size, file_seed=seed)
            for k in range(2):
                add(hash=h, **{"class": "empty"}, pos=k, file_size=size, file_seed=seed)
            add(hash=h, **{"class": "other"}, pos=0, file_size=size, file_seed=seed)
            for cl in ["exact", "bitflip", "prefix", "empty", "other"]:
                add(hash=h, hash_nil=True, **{"class": cl}, pos=rng.randint(0, 100), file_size=size, file_seed=seed)
    # other hash functions, a few each, also in the quick tier
    for h in ["sha512", "sha1", "md5"]:
        for cl in ["exact", "bitflip", "prefix", "extended", "empty"]:
            add(hash=h, **{"class": cl}, pos=rng.randint(0, 1000), file_size=rng.choice([1, 5000]), file_seed=rng.randint(1, 99999))
    # SecureConfig together with a custom runner: there is no command path, nothing may ever be launched
    for h in (["sha256"] if tier == "quick" else list(HLEN)):
        for cl in ["exact", "bitflip", "prefix", "extended", "empty", "other"]:
            for hn in (False, True):
                add(hash=h, hash_nil=hn, **{"class": cl}, pos=rng.randint(0, 100), file_size=rng.choice([1, 5000]), file_seed=rng.randint(1, 99999), launch="runner")
    # a bare relative command name: the file in the host's working directory is checked; another executable of that
    # name sits in a PATH directory
    for h in (["sha256"] if tier == "quick" else list(HLEN)):
        for cl in ["exact", "other"]:
            add(hash=h, **{"class": cl}, pos=0, file_size=rng.choice([1, 5000]), file_seed=rng.randint(1, 99999), launch="relpath")
            # ... and a relative path with a working directory set for the command (os/exec resolves it there)
            add(hash=h, **{"class": cl}, pos=0, file_size=rng.choice([1, 5000]), file_seed=rng.randint(1, 99999), launch="reldir")
    # one SecureConfig shared by two clients whose checks overlap (the tampered file's check waits in Sum while the
    # genuine file's check runs): the tampered file is never launched
    for h in (["sha256"] if tier == "quick" else list(HLEN)):
        for _ in range(2 if tier == "quick" else 6):
            add(hash=h, **{"class": "other"}, pos=0, file_size=rng.choice([1, 5000]), file_seed=rng.randint(1, 99999), history="shared-overlap")
    # histories on one SecureConfig value
    for _ in range(6 if tier == "quick" else 40):
        add(hash=rng.choice(list(HLEN)), **{"class": "exact"}, pos=0, file_size=rng.choice([10, 5000]), file_seed=rng.randint(1, 99999),
            history="tamper-after-ok")
    return cases


def run(tier, seed):
    rng = random.Random(seed * 1103515245 % (1 << 31) + 13)
    rep = vlib.Report(PROP, tier, seed, "model_checking")
    binary = vlib.go_build("test", "./drivers/", os.path.join(vlib.scratch(), "drivers.test"))
    r1 = vlib.tlc_expect_ok("Checksum", "checksum.cfg")
    cases = make_cases(tier, rng)
    obs, crashes = vlib.run_cases(binary, "TestChecksumCases", cases, "c13", shards=min(4, vlib.NCPU))
    by = {c["name"]: c for c in cases}
    nhung = len(vlib.hung_cases(obs))
    for name in vlib.hung_cases(obs):
        rep.violation("c13:hang", "case %s never finished" % json.dumps(by[name]), {"case": by[name]})
        del obs[name]
    for name, out in crashes.items():
        rep.violation("c13:crash", "host died", {"case": by[name], "output": out})
    obs_list = [obs[c["name"]] for c in cases if c["name"] in obs]
    if len(obs_list) + len(crashes) + nhung < len(cases):
        raise vlib.Inconclusive("missing observations")
    r2, dev = vlib.judge_observations("TraceChecksum", "trace_checksum.cfg", obs_list, "c13")
    for name in dev:
        o = obs[name]
        rep.violation("c13:%s:%s%s" % (o["class"], "nilhash" if o["hash_nil"] else o["hash"], ":" + o["history"] if o["history"] else ""),
                      "checksum class %s (%s, position %s, history %r, hash %s%s): observed %s -- Checksum!Gate does not allow it" % (
                          o["class"], o["class_given"], o["pos"], o["history"], o["hash"], ", nil Hash" if o["hash_nil"] else "", json.dumps(o["out"])),
                      {"case": by[name], "observation": o})
    rep.coverage.update({
        "states": r1["distinct"], "transitions": r1["generated"], "traces_validated_against_impl": len(obs_list),
        "evaluations": len(cases), "distinct_nontrivial": len(set((c["hash"], c["hash_nil"], c["class"], c["pos"], c["file_seed"], c["history"]) for c in cases)),
        "rule": "case = (file content, hash function, checksum class relative to the true digest: exact / one bit flipped at each position / every proper prefix / "
                "trailing bytes / empty / unrelated, nil Hash or not, history on the SecureConfig value); distinct = distinct tuples",
        "exhaustive": False, "samples": obs_list[:2] + obs_list[-2:],
    })
    rep.assumptions += ["the hash functions are trusted", "'launched' is observed through a marker file written by the target script, also 200 ms after Start returned"]
    return rep.finish()


def replay(path):
    payload = json.load(open(path))
    c = payload["case"]["case"]
    rep = vlib.Report(PROP, "quick", payload.get("seed", 0), "model_checking")
    binary = vlib.go_build("test", "./drivers/", os.path.join(vlib.scratch(), "drivers.test"))
    obs, crashes = vlib.run_cases(binary, "TestChecksumCases", [c], "c13r", shards=1)
    r2, dev = vlib.judge_observations("TraceChecksum", "trace_checksum.cfg", list(obs.values()), "c13r")
    for name in dev:
        rep.violation("c13:replay", "observed %s" % json.dumps(obs[name]["out"]), {"case": c, "observation": obs[name]})
    rep.coverage.update({"states": 1, "transitions": 1, "traces_validated_against_impl": len(obs), "samples": [c]})
    return rep.finish()
