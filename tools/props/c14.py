"""C14 - host and plugin configurations interoperate exactly when compatible."""
import itertools, json, os, random
import vlib
from props import c02

PROP = "C14"


def all_cells():
    cells = []
    for proto, allowed, htls, ptls, muxreq, launch in itertools.product(["netrpc", "grpc"], ["unset", "netrpc", "grpc", "both", "emptylist"], ["none", "static", "auto"],
                                                                        ["none", "static"], [False, True], ["cmd", "runner", "reattach"]):
        pmuxes = ["advertised"]
        if proto == "grpc" and muxreq and launch != "reattach":
            pmuxes += ["old", "false"]
        if proto == "netrpc" and ptls == "none" and htls == "none":
            pmuxes += ["legacy"]      # the plugin does not name its protocol at all
        for pm in pmuxes:
            cells.append({"proto": proto, "allowed": allowed, "htls": htls, "ptls": ptls, "muxreq": muxreq, "pmux": pm, "launch": launch})
    return cells


def allowed_set(a):
    return {"unset": {"netrpc"}, "netrpc": {"netrpc"}, "grpc": {"grpc"}, "both": {"netrpc", "grpc"}, "emptylist": set()}[a]


def plausible_works(c):
    return c["proto"] in allowed_set(c["allowed"]) and (c["htls"], c["ptls"]) in (("none", "none"), ("static", "static"), ("auto", "none"))


def py_outcome(c):
    """Mirror of Interop!Outcome, used only to stratify the quick sample (TLC judges)."""
    if c["launch"] == "reattach" and (c["muxreq"] or c["htls"] == "auto"):
        return "start_error_option"
    if c["proto"] not in allowed_set(c["allowed"]):
        return "start_error_protocol"
    if c["launch"] != "reattach" and c["muxreq"] and c["proto"] == "grpc" and c["pmux"] != "advertised":
        return "start_error_mux"
    if (c["htls"], c["ptls"]) not in (("none", "none"), ("static", "static"), ("auto", "none")):
        return "use_error"
    return "works"


def run(tier, seed):
    rng = random.Random(seed * 1140671485 % (1 << 31) + 14)
    rep = vlib.Report(PROP, tier, seed, "model_checking")
    b = c02.build()
    r1 = vlib.tlc_expect_ok("Interop", "interop.cfg")
    cells = all_cells()
    if tier == "quick":
        # every (expected outcome, launch method) stratum is represented
        strata = {}
        for c in cells:
            strata.setdefault((py_outcome(c), c["launch"]), []).append(c)
        cells = []
        for k in sorted(strata):
            cells += rng.sample(strata[k], min(len(strata[k]), 12 if k[0] == "works" else 8))
    cases = [{"name": "x%d" % i, "cell": c} for i, c in enumerate(cells)]
    obs, crashes = vlib.run_cases(b["drivers"], "TestInteropCases", cases, "c14", env={"VERIF_VPLUGIN": b["vplugin"], "VERIF_CASE_TIMEOUT_S": "150", "VERIF_WORKERS": "4"},
                                  shards=min(8, vlib.NCPU), timeout=3000)
    by = {c["name"]: c for c in cases}
    for name in vlib.hung_cases(obs):
        rep.violation("c14:hang:" + json.dumps(by[name]["cell"], sort_keys=True), "configuration hangs: %s" % json.dumps(by[name]["cell"]), {"case": by[name], "dump": obs[name].get("dump", "")[:8000]})
        del obs[name]
    for name, out in crashes.items():
        rep.violation("c14:crash", "host died on %s: %s" % (json.dumps(by[name]["cell"]), out[-300:]), {"case": by[name], "output": out})
    obs_list = [obs[c["name"]] for c in cases if c["name"] in obs]
    r2, dev = vlib.judge_observations("TraceInterop", "trace_interop.cfg", obs_list, "c14")
    dev = list(dev)
    if dev:
        again = [by[n] for n in dev]
        obs2, crashes2 = vlib.run_cases(b["drivers"], "TestInteropCases", again, "c14c", env={"VERIF_VPLUGIN": b["vplugin"], "VERIF_WORKERS": "1"}, shards=min(4, len(again)), timeout=3000)
        ol2 = [o for o in obs2.values() if not o.get("hang")]
        dev2 = set(vlib.judge_observations("TraceInterop", "trace_interop.cfg", ol2, "c14c")[1]) if ol2 else set()
        for n in dev:
            c = by[n]["cell"]
            if n in dev2 or n in crashes2 or obs2.get(n, {}).get("hang"):
                o = obs2.get(n) if n in obs2 and not obs2[n].get("hang") else obs[n]
                cls = "%s:%s/%s:%s:%s%s" % (c["launch"], c["htls"], c["ptls"], c["proto"], c["allowed"], (":mux-" + c["pmux"]) if c["muxreq"] else "")
                rep.violation("c14:" + cls, "configuration %s: observed %s -- not the outcome Interop.tla gives for this cell (confirmed by a second run)" % (
                    json.dumps(c), json.dumps({k: v for k, v in o["out"].items() if v not in (False, "", None) or k in ("start_ok", "first_use_ok")})[:700]),
                    {"case": by[n], "observation": o})
            else:
                rep.coverage.setdefault("unconfirmed", []).append(n)
    rep.coverage.update({
        "states": r1["distinct"], "transitions": r1["generated"], "traces_validated_against_impl": len(obs_list),
        "evaluations": len(cases), "distinct_nontrivial": len(set(json.dumps(c["cell"], sort_keys=True) for c in cases)),
        "cells_total": len(all_cells()),
        "rule": "cell = (plugin wire protocol, host allowed-protocol list, host TLS none/static/AutoMTLS, plugin TLS none/static, multiplexing requested, plugin's multiplexing answer, "
                "launch by command / custom runner / reattach); thorough = all 480 canonical cells, quick = a seeded 120 (45 compatible, 75 incompatible)",
        "exhaustive": tier == "thorough", "samples": obs_list[:1],
    })
    rep.assumptions += ["old / unsupporting plugins are emulated by a wrapper that edits the handshake line of a real plugin", "a compatible cell must pass: call, ping, 8 MiB response, brokered callback in both directions, unknown plugin name refused"]
    return rep.finish()


def replay(path):
    payload = json.load(open(path))
    c = payload["case"]["case"]
    rep = vlib.Report(PROP, "quick", payload.get("seed", 0), "model_checking")
    b = c02.build()
    obs, crashes = vlib.run_cases(b["drivers"], "TestInteropCases", [c], "c14r", env={"VERIF_VPLUGIN": b["vplugin"]}, shards=1, timeout=3000)
    ol = [o for o in obs.values() if not o.get("hang")]
    r2, dev = vlib.judge_observations("TraceInterop", "trace_interop.cfg", ol, "c14r")
    for n in dev:
        rep.violation("c14:replay", "observed %s" % json.dumps(obs[n]["out"])[:600], {"case": c, "observation": obs[n]})
    rep.coverage.update({"states": 1, "transitions": 1, "traces_validated_against_impl": len(ol), "samples": [c]})
    return rep.finish()
