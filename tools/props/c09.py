"""C09 - brokers stay live: unmatched, duplicate or late peers cannot wedge them (MuxBroker part;
the gRPC broker part is added by grpccommon when available)."""
import json, os, random
import vlib
from props import muxcommon as mx

PROP = "C09"


def run(tier, seed):
    rng = random.Random(seed * 104729 + 9)
    rep = vlib.Report(PROP, tier, seed, "model_checking")
    binary = mx.build_driver()
    runs = [vlib.tlc_expect_ok("MCMux", "mux_C_timed.cfg"), vlib.tlc_expect_ok("MCMux", "mux_E_timed.cfg"), vlib.tlc_expect_ok("MCMux", "mux_E_safety.cfg"), vlib.tlc_expect_ok("MCMux", "mux_B_safety.cfg")]
    # the session dying under the calls (AllowDown): everything still returns, nothing is acknowledged afterwards
    runs += [vlib.tlc_expect_ok("MCMux", "mux_F_down_timed.cfg")]
    if tier == "thorough":
        runs += [vlib.tlc_expect_ok("MCMux", "mux_A_timed.cfg", timeout=3000),
                 vlib.tlc_expect_ok("MCMux", "mux_B_timed.cfg", timeout=3000),
                 vlib.tlc_expect_ok("MCMux", "mux_F_down_safety.cfg", timeout=3000)]
    # model sensitivity: the pre-fix expiry handler must wedge / strand a dial in the model
    vlib.tlc_expect_violation("MCMux", "mux_prefix_wedge.cfg", "NoWedge")
    vlib.tlc_expect_violation("MCMux", "mux_prefix_stuck.cfg", "NoStuckAtEnd")
    cov = rep.coverage
    if tier == "thorough":
        # vacuity: every action of the model is taken in some configuration (TWUnstick exists only before the fix)
        cov["action_coverage"] = vlib.action_coverage("MCMux", ["mux_C_timed.cfg", "mux_E_timed.cfg", "mux_C_safety.cfg", "mux_F_down_timed.cfg"], ignore=("TWUnstick",))
    n = {"quick": (90, 30, 30), "thorough": (900, 400, 600)}[tier]
    scs = mx.fam_histories(rng, n[0], maxlen=4) + mx.fam_random(rng, n[1]) + mx.tlc_graph_scripts(rng, n[2], cov)
    scs += mx.fam_down(rng, 30 if tier == "quick" else 400)
    results, outdir = mx.run_driver(binary, scs)
    c = mx.classify_and_validate(rep, scs, results, outdir, PROP)
    cov["binding_selftest_mutations_rejected"] = mx.binding_selftest(outdir, scs)
    kinds = {}
    for s in scs:
        for k in s.get("kinds", []):
            kinds[k] = kinds.get(k, 0) + 1
    cov.update({
        "states": sum(r.get("distinct", 0) for r in runs), "transitions": sum(r.get("generated", 0) for r in runs),
        "tlc_runs": [{"cfg": r["cfg"], "distinct": r.get("distinct"), "generated": r.get("generated"), "depth": r.get("depth"), "wall_s": r["wall_s"]} for r in runs],
        "traces_validated_against_impl": c["accepted"], "traces_recorded": c["traces"],
        "evaluations": len(scs), "distinct_nontrivial": sum(1 for s in scs if s.get("kinds") or s["fam"] != "hist"),
        "rule": "history = sequence of abusive elements (dial without accept, accept without dial, second dial to a pending id, "
                "accept at the expiry instant / held across it, late peer, second dial parked after the take, the connection cut under calls in flight) on shared ids, followed by a fresh "
                "matched pair; plus random controlled schedules and TLC graph walks; distinct by seeded construction",
        "history_elements": kinds,
        "samples": [{k: s.get(k) for k in ("name", "fam", "kinds", "dials", "accepts", "holds")} for s in scs[:3]],
        "exhaustive": False,
    })
    rep.assumptions += ["yamux and net/rpc are trusted", "virtual time of testing/synctest stands for wall-clock time",
                        "gRPC broker liveness is covered by the C07/C08 drivers' timeout scenarios"]
    if rep.inconclusive and not rep.violations:
        rep.finish()
        raise vlib.Inconclusive("; ".join(rep.inconclusive[:3]))
    return rep.finish()


def replay(path):
    from props import c06
    return c06.replay(path)
