"""C03 - plugin failure at any point becomes a host error, never a crash or hang."""
import json, os, random
import vlib
from props import c02

PROP = "C03"
POINTS = ["before_output", "mid_line", "after_line", "idle", "in_unary", "in_stream", "in_accept", "broker_after_id", "during_stdio"]
PROTOS = ["netrpc", "grpc", "grpcmux"]


def make_cases(tier, rng):
    cases = []
    hows = ["exit"] if tier == "quick" else ["exit", "kill"]
    reps = 1 if tier == "quick" else 30
    for pt in POINTS:
        for pr in PROTOS:
            if pt == "in_stream" and pr == "netrpc":
                continue
            if pt == "in_accept" and pr != "netrpc":
                continue
            for how in hows:
                for _ in range(reps):
                    # a plugin that dies during startup: once with the calls issued at once (they may race with
                    # the crash), once after the crash has completed (they are after it for sure)
                    for settle in ([False, True] if pt in ("before_output", "mid_line", "after_line") else [False]):
                        cases.append({"name": "cr%d" % len(cases), "point": pt, "proto": pr, "how": how, "jitter_ms": rng.randint(0, 90), "settle": settle,
                                      "line_variant": len(cases)})
                        if pr == "grpc" and pt in ("after_line", "idle", "in_unary", "broker_after_id") and how == hows[0]:
                            # the same with a host that asked for a blocking dial of its main connection
                            cases.append(dict(cases[-1], name="cr%d" % len(cases), block=True))
    return cases


def run(tier, seed):
    rng = random.Random(seed * 279470273 % (1 << 31) + 3)
    rep = vlib.Report(PROP, tier, seed, "fault_enumeration")
    b = c02.build()
    r1 = vlib.tlc_expect_ok("CrashTable", "crashtable.cfg")
    cases = make_cases(tier, rng)
    env = {"VERIF_VPLUGIN": b["vplugin"], "VERIF_CASE_TIMEOUT_S": "150"}
    obs, crashes = vlib.run_cases(b["drivers"], "TestCrashCases", cases, "c03", env=env, shards=min(8, vlib.NCPU), timeout=2400)
    by = {c["name"]: c for c in cases}
    for name in vlib.hung_cases(obs):
        c = by[name]
        rep.violation("c03:hang:%s:%s" % (c["point"], c["proto"]), "scenario never finished: %s" % json.dumps(c), {"case": c, "dump": obs[name].get("dump", "")[:8000]})
        del obs[name]
    for name, out in crashes.items():
        c = by[name]
        rep.violation("c03:hostcrash:%s:%s" % (c["point"], c["proto"]), "the host process died when the plugin crashed at %s (%s): %s" % (c["point"], c["proto"], out[-400:]),
                      {"case": c, "output": out})
    obs_list = [obs[c["name"]] for c in cases if c["name"] in obs]
    r2, dev = vlib.judge_observations("TraceCrash", "trace_crash.cfg", obs_list, "c03")
    dev = list(dev)
    if dev:
        again = [by[n] for n in dev]
        obs2, crashes2 = vlib.run_cases(b["drivers"], "TestCrashCases", again, "c03c", env=dict(env, VERIF_WORKERS="1"), shards=min(4, len(again)), timeout=2400)
        ol2 = [o for o in obs2.values() if not o.get("hang")]
        dev2 = set(vlib.judge_observations("TraceCrash", "trace_crash.cfg", ol2, "c03c")[1]) if ol2 else set()
        for n in dev:
            c = by[n]
            if n in dev2 or n in crashes2 or obs2.get(n, {}).get("hang"):
                o = obs2.get(n) if n in obs2 and not obs2[n].get("hang") else obs[n]
                calls = o["out"].get("calls", [])
                badc = [x for x in calls if x["after_crash"] and x["res"] == "ok" and x["op"] not in ("kill", "start")] or [x for x in calls if x["ms"] > 3000]
                rep.violation("c03:%s:%s:%s" % (c["point"], c["proto"], "+".join(sorted(set(x["op"] for x in badc))) or "post"),
                              "plugin dies at %s (%s, %s): observed calls %s, exited after %s ms, ctx cancelled %s, really crashed %s -- not what CrashTable.tla allows (confirmed by a second run)" % (
                                  c["point"], c["proto"], c["how"], json.dumps([{k: x[k] for k in ("op", "res", "ms", "after_crash")} for x in calls]),
                                  o["out"].get("exited_ms"), o["out"].get("ctx_cancelled"), o["out"].get("crashed")),
                              {"case": c, "observation": o})
            else:
                rep.coverage.setdefault("unconfirmed", []).append(n)
    ncalls = sum(len(o["out"].get("calls", [])) for o in obs_list)
    rep.coverage.update({
        "states": r1["distinct"], "transitions": r1["generated"], "traces_validated_against_impl": len(obs_list),
        "evaluations": len(cases), "distinct_nontrivial": len(set((c["point"], c["proto"], c["how"]) for c in cases)),
        "calls_observed": ncalls,
        "rule": "fault = (crash point of the plugin process, protocol, exit vs SIGKILL, timing jitter); every named crash point x protocol is run; the host calls in flight and "
                "afterwards (start, client, dispense, ping, a unary call, a stream receive, broker dial and accept, kill) are each observed",
        "exhaustive": True, "samples": obs_list[:1],
    })
    rep.assumptions += ["crash points are hook points of the plugin process built with -tags verif, or a kill of the process while a call is in flight",
                        "gRPC Client()/Dispense() and accepting a brokered connection do not need the plugin (lazy connect / local listener): ok or error are both allowed there",
                        "bounds: 3 s, start timeout 5 s + 1.5 s, broker waits 6.5 s (13 s multiplexed dial); Exited() within 2.5 s"]
    return rep.finish()


def replay(path):
    payload = json.load(open(path))
    c = payload["case"]["case"]
    rep = vlib.Report(PROP, "quick", payload.get("seed", 0), "fault_enumeration")
    b = c02.build()
    obs, crashes = vlib.run_cases(b["drivers"], "TestCrashCases", [c], "c03r", env={"VERIF_VPLUGIN": b["vplugin"]}, shards=1, timeout=2400)
    ol = [o for o in obs.values() if not o.get("hang")]
    if crashes or not ol:
        rep.violation("c03:replay", "host crash or hang", {"case": c})
    else:
        r2, dev = vlib.judge_observations("TraceCrash", "trace_crash.cfg", ol, "c03r")
        for n in dev:
            rep.violation("c03:replay", "observed %s" % json.dumps(obs[n]["out"])[:600], {"case": c, "observation": obs[n]})
    rep.coverage.update({"evaluations": 1, "distinct_nontrivial": 2, "rule": "replay", "samples": [c]})
    return rep.finish()
