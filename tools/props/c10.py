"""C10 - plugin output never crashes or stalls the host; stderr is forwarded faithfully."""
import json, os, random
import vlib

PROP = "C10"
KINDS = ["plain", "panic", "p_trace", "p_debug", "p_info", "p_warn", "p_error", "j_trace", "j_debug", "j_info", "j_warn", "j_error",
         "j_unknownlevel", "j_nolevel", "j_null", "j_badtype", "j_badts", "j_array", "j_scalar", "broken_json"]


def tok(rng, kind=None, fit=None):
    return {"kind": kind or rng.choice(KINDS), "fit": fit or rng.choice(["fits", "fits", "fits", "long"]),
            "term": rng.choice(["lf", "lf", "crlf"]), "variant": rng.randint(0, 41), "longlen": rng.choice(["eq", "plus1", "multi"])}


def make_cases(tier, rng):
    cases = []

    def add(tokens, bufsize=None, unterminated=False, stdout=None):
        bufsize = bufsize or rng.choice([16, 64, 256, 65536])
        if any(t["fit"] == "long" for t in tokens) and bufsize == 65536 and rng.random() < 0.7:
            bufsize = rng.choice([16, 64, 256])
        so = stdout or rng.choice([(0, [1]), (200000, [1, 100, 70000]), (50000, [65536, 65537])])
        cases.append({"name": "se%d" % len(cases), "bufsize": bufsize, "tokens": tokens, "unterminated": unterminated,
                      "stdout_bytes": so[0], "stdout_lines": so[1], "stderr_first": len(cases) % 4 == 3})
    # every kind alone, fitting and long, each terminator, several buffer sizes
    for k in KINDS:
        for fit in ["fits", "long"]:
            for b in [256, 65536] if fit == "fits" else [16, 64, 256]:
                for variant in range(3 if tier == "quick" else 8):
                    t = tok(rng, k, fit)
                    t["variant"] = variant
                    add([t], b, unterminated=rng.random() < 0.2)
    # panic traces: panic line followed by plain / json / prefixed lines
    for _ in range(40 if tier == "quick" else 400):
        seq = [tok(rng, "panic", "fits")] + [tok(rng, rng.choice(["plain", "plain", "j_badtype", "j_info", "p_warn", "j_null", "broken_json"])) for _ in range(rng.randint(1, 3))]
        add(seq, rng.choice([256, 65536]))
    # random sequences
    for _ in range(150 if tier == "quick" else 3000):
        add([tok(rng) for _ in range(rng.randint(2, 4))], unterminated=rng.random() < 0.25)
    # a real child process launched with Cmd: its stderr lines first, then the first stdout line -- malformed in two of
    # three cases, so that Start fails and kills it while the (slow) reader of its stderr is still behind
    for i in range(12 if tier == "quick" else 120):
        add([tok(rng, rng.choice(["plain", "plain", "j_info", "p_warn"]), "fits") for _ in range(rng.randint(3, 12))], rng.choice([256, 65536]), stdout=(0, [1]))
        cases[-1].update({"real": True, "bad_line": i % 3 != 2, "slow_write_ms": rng.choice([0, 5, 30]), "stderr_first": False})
    # stdout volume after the handshake: long lines, many lines
    add([tok(rng, "plain", "fits")], 65536, stdout=(2 << 20, [1, 100, 70000]))
    add([tok(rng, "plain", "fits")], 65536, stdout=(3 << 20, [1 << 20]))
    if tier == "thorough":
        add([tok(rng, "plain", "fits")], 65536, stdout=(10 << 20, [1, 65535, 65536, 65537, 1 << 20]))
    return cases


def run(tier, seed):
    rng = random.Random(seed * 214013 + 10)
    rep = vlib.Report(PROP, tier, seed, "model_checking")
    binary = vlib.go_build("test", "./drivers/", os.path.join(vlib.scratch(), "drivers.test"))
    r1 = vlib.tlc_expect_ok("LogStderr", "logstderr.cfg")
    cases = make_cases(tier, rng)
    obs, crashes = vlib.run_cases(binary, "TestStderrCases", cases, "c10", shards=min(8, vlib.NCPU))
    by = {c["name"]: c for c in cases}
    nhung = len(vlib.hung_cases(obs))
    for name in vlib.hung_cases(obs):
        rep.violation("c10:hang", "the host stopped consuming plugin output: case %s" % json.dumps(by[name])[:300], {"case": by[name], "dump": obs[name].get("dump", "")[:6000]})
        del obs[name]
    for name, out in crashes.items():
        kinds = [t["kind"] for t in by[name]["tokens"]]
        rep.violation("c10:crash:" + "+".join(sorted(set(kinds))), "the host process died while reading plugin output (stderr kinds %s): %s" % (kinds, out[-400:]),
                      {"case": by[name], "output": out})
    obs_list = [obs[c["name"]] for c in cases if c["name"] in obs]
    if len(obs_list) + len(crashes) + nhung < len(cases):
        raise vlib.Inconclusive("missing observations")
    r2, dev = vlib.judge_observations("TraceLogStderr", "trace_logstderr.cfg", obs_list, "c10")
    for name in dev:
        o = obs[name]
        badl = [l for l in o["lines"] if not l["copied"] or l["level"] == "none" or l["msg"] == "other"]
        kinds = sorted(set("%s/%s" % (l["kind"], l["fit"]) for l in (badl or o["lines"])))
        rep.violation("c10:" + ",".join(kinds)[:80],
                      "buffer %d, stderr lines %s: observed %s / %s -- not what LogStderr.tla allows" % (
                          o["bufsize"], [(l["kind"], l["fit"], l["len"]) for l in o["lines"]], json.dumps(o["lines"])[:600], json.dumps(o["out"])),
                      {"case": by[name], "observation": o})
    rep.coverage.update({
        "states": r1["distinct"], "transitions": r1["generated"], "traces_validated_against_impl": len(obs_list),
        "evaluations": len(cases), "distinct_nontrivial": len(set(json.dumps([c["bufsize"], c["tokens"], c["unterminated"]], sort_keys=True) for c in cases)),
        "rule": "case = (log buffer size, sequence of 1-4 stderr line tokens: kind x fits/long x terminator x spelling variant, last line unterminated or not, "
                "stdout volume and line lengths after the handshake); every kind alone in both fits, panic traces, random sequences; distinct = distinct case records",
        "exhaustive": False, "samples": [{"tokens": c["tokens"], "bufsize": c["bufsize"]} for c in cases[:2]],
    })
    rep.assumptions += ["line terminators are not part of 'the line' (CRLF and a missing final newline are normalised)",
                        "for lines longer than the buffer only the verbatim copy and 'emitted in order, complete, at some level' are required",
                        "records are read from an hclog JSON logger passed as ClientConfig.Logger"]
    return rep.finish()


def replay(path):
    payload = json.load(open(path))
    c = payload["case"]["case"]
    rep = vlib.Report(PROP, "quick", payload.get("seed", 0), "model_checking")
    binary = vlib.go_build("test", "./drivers/", os.path.join(vlib.scratch(), "drivers.test"))
    obs, crashes = vlib.run_cases(binary, "TestStderrCases", [c], "c10r", shards=1)
    if crashes:
        rep.violation("c10:crash", "host died", {"case": c})
    else:
        r2, dev = vlib.judge_observations("TraceLogStderr", "trace_logstderr.cfg", list(obs.values()), "c10r")
        for name in dev:
            rep.violation("c10:replay", "observed %s" % json.dumps(obs[name])[:600], {"case": c, "observation": obs[name]})
    rep.coverage.update({"states": 1, "transitions": 1, "traces_validated_against_impl": len(obs), "samples": [c]})
    return rep.finish()
