"""C06 - MuxBroker connects Dial(id) only to Accept(id)."""
import json, os, random
import vlib
from props import muxcommon as mx
from props import rpcsession as rs

PROP = "C06"


def run(tier, seed, prop=PROP):
    rng = random.Random(seed * 7919 + 6)
    rep = vlib.Report(prop, tier, seed, "model_checking")
    binary = mx.build_driver()
    # ---- E1: TLC on the specification
    runs = [vlib.tlc_expect_ok("MCMux", "mux_C_timed.cfg"), vlib.tlc_expect_ok("MCMux", "mux_E_timed.cfg"), vlib.tlc_expect_ok("MCMux", "mux_E_safety.cfg"), vlib.tlc_expect_ok("MCMux", "mux_A_safety.cfg")]
    if tier == "thorough":
        runs += [vlib.tlc_expect_ok("MCMux", "mux_B_safety.cfg"),
                 vlib.tlc_expect_ok("MCMux", "mux_A_timed.cfg", timeout=3000),
                 vlib.tlc_expect_ok("MCMux", "mux_B_timed.cfg", timeout=3000)]
    # model sensitivity: the contract-violating instance must break NoPanic
    vlib.tlc_expect_violation("MCMux", "mux_D_contract.cfg", "NoPanic")
    cov = rep.coverage
    if tier == "thorough":
        # vacuity: every action of the model is taken in some configuration (TWUnstick exists only before the fix)
        cov["action_coverage"] = vlib.action_coverage("MCMux", ["mux_C_timed.cfg", "mux_E_timed.cfg", "mux_C_safety.cfg", "mux_F_down_timed.cfg"], ignore=("TWUnstick",))
    # ---- E2: scenarios (seeded families + TLC-graph-directed schedules) on the real brokers
    n = {"quick": (60, 20, 30, 40), "thorough": (600, 150, 400, 600)}[tier]
    scs = mx.fam_pairs(rng, n[0]) + mx.fam_histories(rng, n[1]) + mx.fam_random(rng, n[2])
    scs += mx.tlc_graph_scripts(rng, n[3], cov)
    scs += mx.fam_acceptor_first(rng, 8 if tier == "quick" else 80)
    scs += mx.fam_lookup_race(rng, 6 if tier == "quick" else 60) + mx.fam_down(rng, 10 if tier == "quick" else 100, prefix="cdn")
    results, outdir = mx.run_driver(binary, scs)
    # ---- E3: every recorded trace must be a behaviour of the spec
    c = mx.classify_and_validate(rep, scs, results, outdir, prop)
    cov["binding_selftest_mutations_rejected"] = mx.binding_selftest(outdir, scs)
    # ---- the session layer above the broker (last clause: each Dispense reaches the server object made for it)
    rs_runs = rs.model_check()
    rs_cases, rs_ok, rs_events, rs_packed = rs.run_and_validate(rep, binary, tier, rng, "c06rs")
    cov["rpcsession"] = {"tlc_runs": [{"cfg": r["cfg"], "distinct": r.get("distinct"), "generated": r.get("generated")} for r in rs_runs],
                         "cases": len(rs_cases), "traces_accepted": rs_ok, "events": rs_events,
                         "binding_selftest_mutations_rejected": rs.selftest(rs_packed, "c06rs"),
                         "rule": "case = (1-3 connections to one RPCServer, 2-8 concurrent Dispense calls by name incl. names that cannot be served, "
                                 "NextId calls by the plugin's own code, records on the server's stdout/stderr, a goroutine held with an id in hand, close order)"}
    runs += rs_runs
    fams = {}
    for s in scs:
        fams[s["fam"]] = fams.get(s["fam"], 0) + 1
    nontrivial = sum(1 for s in scs if len(s["dials"]) + len(s["accepts"]) >= 2)
    cov.update({
        "states": sum(r.get("distinct", 0) for r in runs), "transitions": sum(r.get("generated", 0) for r in runs),
        "tlc_runs": [{"cfg": r["cfg"], "distinct": r.get("distinct"), "generated": r.get("generated"), "depth": r.get("depth"), "wall_s": r["wall_s"]} for r in runs],
        "traces_validated_against_impl": c["accepted"], "traces_recorded": c["traces"],
        "evaluations": len(scs), "distinct_nontrivial": nontrivial,
        "rule": "scenario = set of Accept/Dial calls (side, id, virtual issue time) + schedule (controller seed, lag, holds, or a TLC graph walk); "
                "distinct by construction (seeded generator, unique names); non-trivial = at least two calls",
        "families": fams,
        "samples": [{k: s[k] for k in ("name", "fam", "dials", "accepts", "mode", "holds", "lagpct")} for s in scs[:2] + scs[-2:]],
        "exhaustive": False,
    })
    rep.assumptions += ["yamux and net/rpc are trusted", "virtual time of testing/synctest stands for wall-clock time",
                        "documented contract: at most one Accept per id at a time"]
    if rep.inconclusive and not rep.violations:
        rep.finish()
        raise vlib.Inconclusive("; ".join(rep.inconclusive[:3]))
    return rep.finish()


def replay(path):
    payload = json.load(open(path))
    rep = vlib.Report(payload.get("property", PROP), "quick", payload.get("seed", 0), "model_checking")
    binary = mx.build_driver()
    if "scenario" not in payload["case"]:
        # a net/rpc session case
        c = payload["case"]["case"]
        rs.make_cases = lambda tier, rng: [c]
        cases, ok, nev, packed = rs.run_and_validate(rep, binary, "quick", random.Random(0), "c06rsr")
        rep.coverage.update({"states": 1, "transitions": 1, "traces_validated_against_impl": ok, "samples": [c]})
        return rep.finish()
    sc = payload["case"]["scenario"]
    results, outdir = mx.run_driver(binary, [sc], shards=1)
    c = mx.classify_and_validate(rep, [sc], results, outdir, PROP)
    rep.coverage.update({"states": 1, "transitions": 1, "traces_validated_against_impl": c["accepted"], "samples": [sc]})
    return rep.finish()
