"""C19 - a Client launches its plugin at most once; its accessors are idempotent.
(also produces the custom-runner half of C05's evidence)"""
import json, os, random
import vlib

PROP = "C19"
PLANS = ["ok", "badline", "silent", "partial", "closeout", "exitearly", "startfails"]
SILENT = {"ProcGone", "WaitMarkExited"}
OPS = ["Start", "Protocol", "ClientCall", "ReattachConfig", "ID", "Exited", "Kill"]


def gen_cases(tier, rng, cov, plans=PLANS):
    cases = []
    runs = []
    for plan in plans:
        init, edges, r = vlib.tlc_graph("Lifecycle", "lifecycle_%s.cfg" % plan)
        runs.append(r)
        words = vlib.graph_words(init, edges, SILENT, 5)
        cov.setdefault("graph_words", {})[plan] = len(words)
        slow = plan in ("silent", "partial", "closeout")
        if tier == "quick":
            n = 60 if slow else 260
            full = [w for w in words if len(w) == 5]
            short = [w for w in words if len(w) <= 2]
            pick = short + rng.sample(full, min(n, len(full)))
        else:
            pick = words if not slow else [w for w in words if len(w) <= 3] + rng.sample([w for w in words if len(w) > 3], 1500)
        for w in pick:
            cases.append({"name": "lc%d" % len(cases), "plan": plan, "calls": list(w), "concurrent": False, "line_delay_ms": 0, "line_variant": len(cases)})
    # concurrent mixes: two goroutines, the handshake line delayed so that calls overlap the launch
    nconc = 80 if tier == "quick" else 1200
    for i in range(nconc):
        plan = rng.choice(["ok", "ok", "badline", "exitearly", "silent", "startfails"])
        k = rng.randint(3, 6)
        calls = [rng.choice(OPS[:3] + OPS) for _ in range(k)]
        cases.append({"name": "lc%d" % len(cases), "plan": plan, "calls": calls, "concurrent": True, "line_variant": len(cases),
                      "line_delay_ms": rng.choice([0, 30, 120])})
    return cases, runs


def run(tier, seed, prop=PROP):
    rng = random.Random(seed * 48271 + 19)
    rep = vlib.Report(prop, tier, seed, "model_checking")
    binary = vlib.go_build("test", "./drivers/", os.path.join(vlib.scratch(), "drivers.test"))
    cov = rep.coverage
    # E1: exhaustive TLC per plan (invariants + liveness), and the pre-fix variant must fail
    runs = [vlib.tlc_expect_ok("Lifecycle", "lifecycle_%s.cfg" % p) for p in PLANS]
    vlib.tlc_expect_violation("Lifecycle", "lifecycle_prefix.cfg", "LaunchAtMostOnce")
    cases, _ = gen_cases(tier, rng, cov)
    obs, crashes = vlib.run_cases(binary, "TestLifecycleCases", cases, "c19", shards=vlib.NCPU)
    by = {c["name"]: c for c in cases}
    for name in vlib.hung_cases(obs):
        rep.violation("c19:hang", "case %s did not finish within %ss: a call never returned (%s)" % (name, obs[name].get("limit_s"), json.dumps({k: v for k, v in by[name].items() if k != "name"})[:300]),
                      {"case": by[name], "dump": obs[name].get("dump", "")[:8000]})
        del obs[name]
        cases = [c for c in cases if c["name"] != name]
    for name, out in crashes.items():
        rep.violation("c19:crash", "the host process died during call sequence %s %s" % (by[name]["plan"], by[name]["calls"]),
                      {"case": by[name], "output": out})
    missing = [c["name"] for c in cases if c["name"] not in obs and c["name"] not in crashes]
    if missing:
        raise vlib.Inconclusive("%d cases produced no observation" % len(missing))
    accepted = 0
    states = 0
    for plan in PLANS:
        packed = []
        for c in cases:
            if c["plan"] != plan or c["name"] not in obs:
                continue
            evs = [{"ev": "reset", "concurrent": c["concurrent"], "name": c["name"]}] + obs[c["name"]]["events"]
            packed.append((c["name"], evs))
        if not packed:
            continue
        ok, rejected, st = vlib.validate_packed("TraceLifecycle", "trace_lifecycle_%s.cfg" % plan, packed, "c19." + plan)
        accepted += ok
        states += st
        for name, ev, detail in rejected:
            c = by[name]
            rep.violation("c19:%s:%s:%s" % (plan, "conc" if c["concurrent"] else "seq", ev.get("op", ev.get("ev"))),
                          "plan %s, calls %s%s: observed %s -- %s (Lifecycle.tla)" % (plan, c["calls"], " (two goroutines)" if c["concurrent"] else "",
                                                                                    json.dumps(ev), detail),
                          {"case": c, "events": obs[name]["events"], "rejected": ev})
    cov.update({
        "states": sum(r["distinct"] for r in runs), "transitions": sum(r["generated"] for r in runs),
        "traces_validated_against_impl": accepted, "trace_validation_states": states,
        "evaluations": len(cases), "distinct_nontrivial": len(set((c["plan"], tuple(c["calls"]), c["concurrent"], c["line_delay_ms"]) for c in cases if len(c["calls"]) >= 2)),
        "rule": "case = (plan of the first launch, word of calls read off TLC's state graph of Lifecycle.tla up to length 5) executed sequentially, "
                "or a random call list executed from two goroutines while the handshake line is delayed; distinct = distinct (plan, word, mode); non-trivial = at least two calls",
        "samples": [{"plan": c["plan"], "calls": c["calls"], "concurrent": c["concurrent"], "events": obs[c["name"]]["events"][:6]} for c in cases[:1] + cases[-1:] if c["name"] in obs],
        "exhaustive": False,
    })
    rep.assumptions += ["the plugin process is a scripted in-memory runner (plus an in-process RPCServer for plan ok); the command-runner path is covered by C05's process cases",
                        "concurrent cases are held to the property's invariants only (launch count, same address, same client), not to a linearisation"]
    return rep.finish()


def replay(path):
    payload = json.load(open(path))
    c = payload["case"]["case"]
    rep = vlib.Report(payload.get("property", PROP), "quick", payload.get("seed", 0), "model_checking")
    binary = vlib.go_build("test", "./drivers/", os.path.join(vlib.scratch(), "drivers.test"))
    obs, crashes = vlib.run_cases(binary, "TestLifecycleCases", [c], "c19r", shards=1)
    if crashes:
        rep.violation("c19:crash", "host died", {"case": c})
    for name, o in obs.items():
        evs = [{"ev": "reset", "concurrent": c["concurrent"], "name": name}] + o["events"]
        ok, rejected, st = vlib.validate_packed("TraceLifecycle", "trace_lifecycle_%s.cfg" % c["plan"], [(name, evs)], "c19r")
        for n, ev, detail in rejected:
            rep.violation("c19:replay", "observed %s -- %s" % (json.dumps(ev), detail), {"case": c, "events": o["events"]})
    rep.coverage.update({"states": 1, "transitions": 1, "traces_validated_against_impl": len(obs), "samples": [c]})
    return rep.finish()
