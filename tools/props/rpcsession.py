"""The net/rpc session layer (RPCSession.tla): model checking, cases, trace validation. Used by C06 (last clause:
each Dispense reaches the server object made for it), and contributes to C11 (net/rpc stdio roles, several hosts)
and C20 (ids unique with Dispense and the application allocating at once, DoneCh closed once)."""
import json, os, random
import vlib

NAMES_OK = ["a", "b", "c"]


def model_check():
    runs = [vlib.tlc_expect_ok("RPCSession", "rpcsession.cfg"), vlib.tlc_expect_ok("RPCSession", "rpcsession_stdio.cfg"),
            vlib.tlc_expect_ok("RPCSession", "rpcsession_live.cfg")]
    vlib.tlc_expect_violation("RPCSession", "rpcsession_sharedimpl.cfg", "OneImplPerDispense")
    vlib.tlc_expect_violation("RPCSession", "rpcsession_nonilcheck.cfg", "DoneOnce")
    vlib.tlc_expect_violation("RPCSession", "rpcsession_swapstd.cfg", "StdioNotCrossed")
    return runs


def make_cases(tier, rng):
    cases = []
    n = 24 if tier == "quick" else 400
    for i in range(n):
        conns = rng.choice([1, 2, 2, 3])
        ncalls = rng.randint(2, 8)
        early = conns > 1 and rng.random() < 0.2
        closes = list(range(1, conns + 1))
        rng.shuffle(closes)
        if rng.random() < 0.3:
            closes = closes[:rng.randint(1, len(closes))]
        calls = []
        for k in range(1, ncalls + 1):
            cn = rng.randint(1, conns)
            name = rng.choice(NAMES_OK * 3 + ["bad", "zz", "so"])
            delay = rng.choice([0, 0, 0, 1, 5, 20])
            if early and cn == closes[0]:
                delay = rng.choice([120, 150])      # after that connection has been closed: fails at once
            calls.append({"k": k, "conn": cn, "name": name, "delay_ms": delay})
        cases.append({"name": "rs%d" % i, "conns": conns, "calls": calls, "app_ids": rng.choice([0, 2, 5]), "tokens": rng.choice([0, 3, 8, 12]),
                      "hold_nth": rng.choice([0, 1, 2, 3]), "hold_ms": rng.choice([10, 40]), "closes": closes, "close_early": early})
    return cases


def project(events):
    """Rows for TraceRPCSession: a pure projection (object names -> small numbers, field selection)."""
    objs = {}
    rows = [{"ev": "reset"}]
    for e in events:
        ev = e["ev"]
        r = {"ev": ev}
        if ev in ("srvnew", "srvfail", "id", "appid"):
            r["obj"] = objs.setdefault(e["obj"], len(objs) + 1)
        if ev == "srvnew":
            r.update({"name": e["name"], "inst": e["a"]})
        elif ev == "srvfail":
            r["name"] = e["name"]
        elif ev in ("id", "appid"):
            r["id"] = e["id"]
        elif ev == "up" or ev == "close" or ev == "closed":
            r["c"] = e["c"]
        elif ev == "call":
            r.update({"k": e["k"], "c": e["c"], "name": e["name"]})
        elif ev == "ret":
            r.update({"k": e["k"], "ok": bool(e["ok"]), "rname": e.get("rname", ""), "inst": e.get("inst", 0)})
        elif ev == "write":
            r.update({"s": e["s"], "n": e["n"]})
        elif ev == "got":
            r.update({"c": e["c"], "s": e["s"], "ts": e["ts"], "tn": e["tn"]})
        elif ev == "end":
            r["complete"] = bool(e.get("complete"))
        rows.append(r)
    return rows, len(objs)


def run_and_validate(rep, binary, tier, rng, tag):
    cases = make_cases(tier, rng)
    obs, crashes = vlib.run_cases(binary, "TestRPCSessionCases", cases, tag, shards=min(8, vlib.NCPU), timeout=1800)
    by = {c["name"]: c for c in cases}
    for name in vlib.hung_cases(obs):
        rep.violation("rpcsession:hang", "net/rpc session case %s never finished: %s" % (name, json.dumps(by[name])[:300]), {"case": by[name], "dump": obs[name].get("dump", "")[:6000]})
        del obs[name]
    for name, out in crashes.items():
        rep.violation("rpcsession:crash", "the process died in net/rpc session case %s (a panic in a library goroutine, e.g. a channel closed twice): %s" % (name, out[-400:]),
                      {"case": by[name], "output": out})
    packed = []
    for c in cases:
        o = obs.get(c["name"])
        if not o:
            continue
        out = o["out"]
        if out.get("panic"):
            rep.violation("rpcsession:panic", "a call panicked in net/rpc session case %s: %s" % (c["name"], out.get("panic_msg")), {"case": c})
            continue
        if not out.get("setup_ok"):
            raise vlib.Inconclusive("net/rpc session case %s could not be set up: %s" % (c["name"], out.get("err")))
        rows, nobj = project(out["events"])
        if nobj > 4:
            raise vlib.Inconclusive("more broker objects than connections in %s" % c["name"])
        packed.append((c["name"], rows))
    ok, rejected, states = vlib.validate_packed("TraceRPCSession", "trace_rpcsession.cfg", packed, tag + ".tr", timeout=1200)
    for name, ev, detail in rejected:
        c = by[name]
        rep.violation("rpcsession:trace:%s" % ev.get("ev"), "net/rpc session, %d connection(s), calls %s%s: recorded event %s -- %s (RPCSession.tla)" % (
            c["conns"], [(x["conn"], x["name"]) for x in c["calls"]], ", first connection closed early" if c["close_early"] else "", json.dumps(ev), detail),
            {"case": c, "events": obs[name]["out"]["events"]})
    return cases, ok, sum(len(r) for _, r in packed), packed


def selftest(packed, tag):
    """Binding self-test: corrupted versions of an accepted trace must be rejected."""
    good = None
    for name, rows in packed:
        if sum(1 for r in rows if r["ev"] == "ret" and r["ok"]) >= 2 and any(r["ev"] == "got" for r in rows):
            good = rows
            break
    if good is None:
        return 0
    path = os.path.join(vlib.sub(tag + ".st"), "good.ndjson")
    vlib.write_ndjson(path, good)
    r = vlib.validate_trace("TraceRPCSession", "trace_rpcsession.cfg", path)
    if not r["accepted"]:
        return 0

    def wrong_name(rows):
        for r in rows:
            if r["ev"] == "ret" and r["ok"]:
                r["rname"] = "b" if r["rname"] != "b" else "a"
                return rows

    def wrong_inst(rows):
        oks = [r for r in rows if r["ev"] == "ret" and r["ok"]]
        if len(oks) >= 2 and oks[0]["inst"] != oks[1]["inst"]:
            oks[0]["inst"] = oks[1]["inst"]
            return rows

    def dup_id(rows):
        ids = [r for r in rows if r["ev"] in ("id", "appid")]
        for a in ids:
            for b in ids:
                if a is not b and a["obj"] == b["obj"] and a["id"] != b["id"]:
                    b["id"] = a["id"]
                    return rows

    def crossed(rows):
        for r in rows:
            if r["ev"] == "got":
                r["s"] = "err" if r["s"] == "out" else "out"
                return rows

    def twice(rows):
        for i, r in enumerate(rows):
            if r["ev"] == "got":
                return rows[:i + 1] + [dict(r)] + rows[i + 1:]

    def ok_for_unknown(rows):
        for r in rows:
            if r["ev"] == "ret" and not r["ok"]:
                r.update({"ok": True, "rname": "a", "inst": 1})
                return rows
    return vlib.selftest_trace("TraceRPCSession", "trace_rpcsession.cfg", path,
                               [("answered by an implementation of another name", wrong_name), ("two dispenses answered by one object", wrong_inst),
                                ("one id handed out twice", dup_id), ("record on the other stream", crossed), ("record delivered twice", twice),
                                ("a name that cannot be served was served", ok_for_unknown)], tag)
