"""C16 - the plugin serves only with the right cookie and announces one well-formed line."""
import itertools, json, os, random
import vlib
from props import c02

PROP = "C16"
CENV = ["unset", "empty", "prefix", "suffix", "case", "other", "spaced", "exact"]
CCFG = ["normal", "emptykey", "emptyvalue", "blankvalue"]
MUX = ["unset", "empty", "true", "false", "one", "garbage"]
TLS = ["none", "static", "auto"]


def make_cases(tier, rng):
    cases = []
    subs = c02.subsets()

    def add(cc, ce, mv, tls):
        S = rng.choice(subs)
        cases.append({"name": "s%d" % len(cases), "cookie_cfg": cc, "cookie_env": ce, "mux_var": mv, "tls": tls,
                      "served": [{"v": v, "proto": rng.choice(["netrpc", "grpc"])} for v in S],
                      "grpc_factory": rng.random() < 0.7, "offered": rng.choice(subs + [[]]),
                      # entries of the offered list that are not numbers: ignored, reported on stderr, never on stdout
                      "offered_junk": rng.sample(["", " 2", "v1", "two", "1.0", "0x1"], rng.choice([0, 0, 1, 2])),
                      # somebody connects to the socket before the line is out (every third case)
                      "early_connect": len(cases) % 3 == 1,
                      # the plugin's own code prints as soon as it serves (every other case)
                      "prints": len(cases) % 2 == 0})
    # every cookie combination (with a random serve configuration each)
    for cc in CCFG:
        for ce in CENV:
            if cc == "blankvalue" and ce in ("prefix", "suffix", "case"):
                continue        # for the value " " these classes coincide with empty / other / exact
            for _ in range((5 if ce == "spaced" else 1) if tier == "quick" else 100):
                add(cc, ce, rng.choice(MUX), rng.choice(TLS))
    # with the right cookie: every mux-variable class x TLS mode
    for mv in MUX:
        for tls in TLS:
            for _ in range(2 if tier == "quick" else 250):
                add("normal", "exact", mv, tls)
            # one more with an early connection, all served sets gRPC (so that a muxer, if any, is in place)
            add("normal", "exact", mv, tls)
            cases[-1]["early_connect"] = True
            for sv in cases[-1]["served"]:
                sv["proto"] = "grpc"
            cases[-1]["grpc_factory"] = True
    return cases


def run(tier, seed):
    rng = random.Random(seed * 134775813 % (1 << 31) + 16)
    rep = vlib.Report(PROP, tier, seed, "model_checking")
    b = c02.build()
    r1 = vlib.tlc_expect_ok("ServeStartup", "servestartup.cfg")
    cases = make_cases(tier, rng)
    obs, crashes = vlib.run_cases(b["drivers"], "TestServeCases", cases, "c16", env={"VERIF_VPLUGIN": b["vplugin"]}, shards=min(8, vlib.NCPU))
    by = {c["name"]: c for c in cases}
    nhung = len(vlib.hung_cases(obs))
    for name in vlib.hung_cases(obs):
        rep.violation("c16:hang", "case never finished", {"case": by[name]})
        del obs[name]
    obs_list = [obs[c["name"]] for c in cases if c["name"] in obs]
    if len(obs_list) + len(crashes) + nhung < len(cases):
        raise vlib.Inconclusive("missing observations")
    r2, dev = vlib.judge_observations("TraceServeStartup", "trace_servestartup.cfg", obs_list, "c16")
    for name in dev:
        o = obs[name]
        ok = o["cookie_cfg"] == "normal" and o["cookie_env"] == "exact"
        rep.violation("c16:%s" % ("serve:" + o["mux_var"] if ok else "refuse:%s:%s" % (o["cookie_cfg"], o["cookie_env"])),
                      "cookie configured %s, environment %s, mux variable %s, TLS %s: observed %s -- not what ServeStartup.tla allows" % (
                          o["cookie_cfg"], o["cookie_env"], o["mux_var"], o["tls"], json.dumps(o["out"])),
                      {"case": by[name], "observation": o})
    rep.coverage.update({
        "states": r1["distinct"], "transitions": r1["generated"], "traces_validated_against_impl": len(obs_list),
        "evaluations": len(cases), "distinct_nontrivial": len(set((c["cookie_cfg"], c["cookie_env"], c["mux_var"], c["tls"], json.dumps(c["served"]), c["grpc_factory"]) for c in cases)),
        "rule": "case = (configured cookie class, cookie environment class, multiplexing variable class, TLS mode, served versions/protocols, offered list); "
                "all 21 cookie combinations and all 18 (mux variable, TLS) combinations with the right cookie, each with random serve configurations",
        "exhaustive": False, "samples": obs_list[:1] + obs_list[-1:],
    })
    rep.assumptions += ["the order of startup steps is read from the plugin process's own hook events (listener opened / line printed / stdio swapped)",
                        "'nothing else on stdout' is observed for 150 ms after the line"]
    return rep.finish()


def replay(path):
    payload = json.load(open(path))
    c = payload["case"]["case"]
    rep = vlib.Report(PROP, "quick", payload.get("seed", 0), "model_checking")
    b = c02.build()
    obs, crashes = vlib.run_cases(b["drivers"], "TestServeCases", [c], "c16r", env={"VERIF_VPLUGIN": b["vplugin"]}, shards=1)
    r2, dev = vlib.judge_observations("TraceServeStartup", "trace_servestartup.cfg", list(obs.values()), "c16r")
    for name in dev:
        rep.violation("c16:replay", "observed %s" % json.dumps(obs[name]["out"]), {"case": c, "observation": obs[name]})
    rep.coverage.update({"states": 1, "transitions": 1, "traces_validated_against_impl": len(obs), "samples": [c]})
    return rep.finish()
