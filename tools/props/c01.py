"""C01 - handshake line accepted only when well-formed; never crashes or stalls the host."""
import json, os, random
import vlib

PROP = "C01"
FIELDS = ["n", "core", "ver", "net", "addr", "proto", "cert", "mux", "ws"]


def export_table():
    out = os.path.join(vlib.scratch(), "handshake_table.json")
    r = vlib.tlc("ExportHandshake", "export_handshake.cfg", workers=4, env={"VERIF_OUT": out}, timeout=600)
    if not os.path.exists(out):
        raise vlib.Inconclusive("TLC did not export the handshake table:\n" + r["out"][-2000:])
    return json.load(open(out))


def key(l):
    return tuple(l[f] for f in FIELDS)


def strata(table):
    rows = table["rows"]
    accepted = [r for r in rows if r["ok"]]
    acc_keys = set(key(r["line"]) for r in accepted)
    by_key = {key(r["line"]): r for r in rows}
    domains = {f: sorted(set(r["line"][f] for r in rows), key=str) for f in FIELDS}
    near = {}
    for r in accepted:
        k = key(r["line"])
        for i, f in enumerate(FIELDS):
            for v in domains[f]:
                if v == k[i]:
                    continue
                k2 = k[:i] + (v,) + k[i + 1:]
                if k2 in by_key and k2 not in acc_keys:
                    near[k2] = by_key[k2]
    short = [r for r in rows if r["line"]["n"] < 4]
    rest = [r for r in rows if key(r["line"]) not in acc_keys and key(r["line"]) not in near and r["line"]["n"] >= 4]
    return accepted, list(near.values()), rest, short


def make_cases(table, tier, rng):
    cfgs = table["cfgs"]
    accepted, near, rest, short = strata(table)
    cases = []

    def add(row, ci, stratum):
        # tls_pools: which certificate pools a caller-supplied (static) TLS configuration has -- both, roots only,
        # client CAs only, none; a line with a certificate is tried against all four
        pools = [rng.randrange(4)]
        if cfgs[ci].get("tls") == "static" and row["line"].get("cert") not in ("empty", None) and row["line"]["n"] >= 6:
            pools = [0, 1, 2, 3]
        for tp in pools:
            cases.append({"name": "h%d" % len(cases), "line": row["line"], "cfg": cfgs[ci], "variant": rng.randint(0, 59),
                          "offers": rng.choice(["legacy", "versioned"]), "stratum": stratum, "tls_pools": tp})
    # lines with fewer than four fields (incl. the blank line) are few: all of them, always
    for r in short:
        for ci in rng.sample(range(len(cfgs)), 2 if tier == "quick" else 6):
            add(r, ci, "short-line")
    if tier == "thorough":
        for r in accepted:
            for ci in range(len(cfgs)):
                add(r, ci, "accepted-line")
        for r in near:
            for ci in range(len(cfgs)):
                add(r, ci, "one-field-off")
        for r in rng.sample(rest, min(len(rest), 12000)):
            for ci in rng.sample(range(len(cfgs)), 3):
                add(r, ci, "rest")
    else:
        for r in accepted:
            for ci in rng.sample(range(len(cfgs)), 6):
                add(r, ci, "accepted-line")
        for r in rng.sample(near, min(len(near), 900)):
            for ci in rng.sample(range(len(cfgs)), 3):
                add(r, ci, "one-field-off")
        for r in rng.sample(rest, min(len(rest), 1200)):
            add(r, rng.randrange(len(cfgs)), "rest")
    # framing: (a) lines longer than 64 KiB whose first 64 KiB are a well-formed four-field line of their own and whose
    # fifth field names no known protocol; (b) accepted lines with a Unix address longer than a small PluginLogBufferSize
    longs = [r for r in near if r["line"]["proto"] == "other" and r["line"]["ws"] == "none" and r["line"]["n"] >= 5]
    for r in rng.sample(longs, min(len(longs), 10 if tier == "quick" else 200)):
        for ci in rng.sample(range(len(cfgs)), 2):
            add(r, ci, "overlong-line")
            cases[-1]["long"] = 1
    # a real child process launched with Cmd (the stock runner's address translation is in the path): accepted lines and
    # lines one field away, all spellings of the address field by variant
    reals = [r for r in accepted + near if r["line"]["net"] in ("unix", "tcp") and r["line"]["ws"] != "padded"]
    for r in rng.sample(reals, min(len(reals), 24 if tier == "quick" else 400)):
        add(r, rng.randrange(len(cfgs)), "real-process")
        cases[-1]["real"] = True
    unixacc = [r for r in accepted if r["line"]["net"] == "unix"]
    for r in rng.sample(unixacc, min(len(unixacc), 10 if tier == "quick" else 200)):
        for ci in rng.sample(range(len(cfgs)), 2):
            add(r, ci, "small-log-buffer")
            cases[-1]["log_buf"] = rng.choice([16, 32, 64])
    return cases, {"accepted_lines": len(accepted), "one_field_off_lines": len(near), "rest_lines": len(rest), "short_lines": len(short),
                   "line_classes": len(table["rows"]), "cfg_classes": len(cfgs)}


def run(tier, seed):
    rng = random.Random(seed * 31337 + 1)
    rep = vlib.Report(PROP, tier, seed, "model_checking")
    binary = os.path.join(vlib.scratch(), "drivers.test")
    vlib.go_build("test", "./drivers/", binary)
    # E1: the decision procedure agrees with the property's statement on every class
    r1 = vlib.tlc_expect_ok("Handshake", "handshake.cfg")
    table = export_table()
    cases, sizes = make_cases(table, tier, rng)
    obs, crashes = vlib.run_cases(binary, "TestHandshakeCases", cases, "c01")
    by = {c["name"]: c for c in cases}
    for name in vlib.hung_cases(obs):
        rep.violation("c01:hang", "case %s did not finish within %ss: a call never returned (%s)" % (name, obs[name].get("limit_s"), json.dumps({k: v for k, v in by[name].items() if k != "name"})[:300]),
                      {"case": by[name], "dump": obs[name].get("dump", "")[:8000]})
        del obs[name]
        cases = [c for c in cases if c["name"] != name]
    for name, out in crashes.items():
        rep.violation("c01:crash", "the host process died on handshake case %s" % name, {"case": by[name], "output": out})
    missing = [c["name"] for c in cases if c["name"] not in obs and c["name"] not in crashes]
    if missing:
        raise vlib.Inconclusive("%d cases produced no observation (e.g. %s)" % (len(missing), missing[:3]))
    obs_list = [obs[c["name"]] for c in cases if c["name"] in obs]
    # E3: TLC judges every observed Start call against Handshake!Decide and the property predicates
    r2, dev = vlib.judge_observations("TraceHandshake", "trace_handshake.cfg", obs_list, "c01")
    # a latency over the limit is a real-time verdict: it counts only if it reproduces when the case runs alone
    slow_names = [n for n in dev if not obs[n]["out"].get("panic") and obs[n]["out"]["ms"] > obs[n]["out"]["limit_ms"]]
    if slow_names:
        obs2, _ = vlib.run_cases(binary, "TestHandshakeCases", [by[n] for n in slow_names], "c01c", shards=1, env={"VERIF_WORKERS": "1"})
        ol2 = [o for o in obs2.values() if not o.get("hang")]
        dev2 = set(vlib.judge_observations("TraceHandshake", "trace_handshake.cfg", ol2, "c01c")[1]) if ol2 else set()
        for n in slow_names:
            if n in dev2 or obs2.get(n, {}).get("hang"):
                if n in obs2 and not obs2[n].get("hang"):
                    obs[n] = obs2[n]
            else:
                rep.coverage.setdefault("unconfirmed", []).append(n)
        dev = [n for n in dev if n not in slow_names or n in dev2 or obs2.get(n, {}).get("hang")]
    for name in dev:
        o = obs[name]
        out = o["out"]
        kind = ("panic" if out.get("panic") else "slow" if out["ms"] > out["limit_ms"] else
                "accepted-malformed" if out["ok"] else "rejected-wellformed-or-unkilled")
        rep.violation("c01:%s:%s" % (kind, by[name]["stratum"]),
                      "Client.Start on line %r with config %s: observed %s, which Handshake!Decide / the property do not allow"
                      % (o.get("raw"), json.dumps(o["cfg"]), json.dumps({k: out[k] for k in ("ok", "proto", "net", "addr_nonnil", "addr_matches", "version_matches", "killed", "panic", "ms", "hung")})),
                      {"case": by[name], "observation": o})
    def flip_ok(o):
        o["out"]["ok"] = not o["out"]["ok"]
        return o

    def slow(o):
        o["out"]["ms"] = o["out"]["limit_ms"] + 1
        return o

    def unkilled(o):
        if o["out"]["ok"]:
            return None
        o["out"]["killed"] = False
        return o
    rep.coverage["binding_selftest_mutations_flagged"] = vlib.selftest_judge("TraceHandshake", "trace_handshake.cfg", [o for o in obs_list if o["name"] not in dev][:50],
                                                                            [("ok flipped", flip_ok), ("latency over the limit", slow), ("runner not killed on error", unkilled)], "c01")
    distinct = len(set((tuple(sorted(c["line"].items())), tuple(sorted(c["cfg"].items()))) for c in cases))
    rep.coverage.update({
        "states": r1["distinct"], "transitions": r1["generated"], "traces_validated_against_impl": len(obs_list),
        "evaluations": len(cases), "distinct_nontrivial": distinct,
        "rule": "case = (abstract line class, client config class) from TLC's exported table of all canonical classes, concretised with a seeded variant; "
                "strata: lines some config accepts (all of them), lines one field away from those, random rest; distinct = distinct (line class, config class) pairs",
        "table": sizes, "exhaustive": False,
        "samples": [{"raw": obs[c["name"]].get("raw"), "cfg": c["cfg"], "out": obs[c["name"]]["out"]} for c in cases[:2] + cases[-2:] if c["name"] in obs],
    })
    rep.assumptions += ["the concretiser maps each abstract class to lines of that class (several spellings per class, seeded)",
                        "'dialable' = non-nil, well-formed address of the line's network; nothing needs to listen there"]
    return rep.finish()


def replay(path):
    payload = json.load(open(path))
    c = payload["case"]["case"]
    rep = vlib.Report(PROP, "quick", payload.get("seed", 0), "model_checking")
    binary = os.path.join(vlib.scratch(), "drivers.test")
    vlib.go_build("test", "./drivers/", binary)
    obs, crashes = vlib.run_cases(binary, "TestHandshakeCases", [c], "c01r", shards=1)
    if crashes:
        rep.violation("c01:crash", "the host process died", {"case": c})
    else:
        r2, dev = vlib.judge_observations("TraceHandshake", "trace_handshake.cfg", list(obs.values()), "c01r")
        for name in dev:
            rep.violation("c01:replay", "observation not allowed: %s" % json.dumps(obs[name]["out"]), {"case": c, "observation": obs[name]})
    rep.coverage.update({"states": 1, "transitions": 1, "traces_validated_against_impl": len(obs), "samples": [c]})
    return rep.finish()
