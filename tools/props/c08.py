"""C08 - the multiplexed gRPC broker routes each announced stream to its id's listener."""
import json, os, random
import vlib
from props import grpccommon as g

PROP = "C08"
GATES = [("mux.listener.enter", "A"), ("grpc.accept.slot", "A"), ("grpc.accept.listener", "A"), ("grpc.accept.lfk", "A"), ("grpc.lfk.took", "A"), ("grpc.lfk.accepted", "A"),
         ("grpc.knock.sent", "D"), ("grpc.knock.ack", "D"), ("grpc.muxdial.opened", "D"), ("smux.accept.conn", "P"), ("bcl.unblocked", "H")]


def make_cases(tier, rng):
    cases = []

    def add(pair, ests, fam, tls="", hold=None, launch="cmd"):
        c = {"name": "m%d" % len(cases), "mux": True, "pair": pair, "tls": tls, "launch": launch, "sequential": True, "ests": ests, "fam": fam}
        if hold:
            c["hold"] = hold
        cases.append(c)
    # sequences of correctly established connections: every direction x order, gaps inside the window
    nseq = 4 if tier == "quick" else 24
    for i in range(nseq):
        k = 3 if tier == "quick" else rng.randint(3, 5)
        ests = [g.est(rng, gap=rng.choice([0, 50, 1000, 3000]), keep=(j == 0)) for j in range(k)]
        add("inproc" if i % 2 == 0 else "process", ests, "sequence", tls="auto" if (i % 4 == 3) else "")
    for d in ["h2p", "p2h"]:
        for o in ["accept_first", "dial_first"]:
            add("process", [g.est(rng, d, o, gap=rng.choice([0, 1000])), g.est(rng, d, o, gap=0, keep=True), g.est(rng, gap=50)], "grid")
    # schedules inside one establishment: hold the goroutine at a hook point while the other side runs on
    # (every hook point in both tiers; a hold on the dialer's side is most telling when the accept is already
    # there, one on the acceptor's side when the dial is)
    for gate, who in GATES:
        for d in ["h2p", "p2h"]:
            for o in (["accept_first", "dial_first"] if tier == "thorough" or gate == GATES[0][0] else ["accept_first" if who == "D" else rng.choice(["accept_first", "dial_first"])]):
                ests = [g.est(rng, d, o, gap=rng.choice([0, 300])), g.est(rng, d, rng.choice(["accept_first", "dial_first"]), gap=0)]
                add("inproc", ests, "hold:" + gate, hold={"gate": gate, "side": "", "ms": rng.choice([150, 400])})
    # one number used as an id in both directions (each side's NextId starts at 1): the second establishment's dial
    # comes within 5 s of the first one's knock, its accept after those 5 s -- still well inside its own window
    for first in ["h2p", "p2h"]:
        e1 = g.est(rng, first, "accept_first", gap=0)
        e2 = dict(g.est(rng, "p2h" if first == "h2p" else "h2p", "dial_first", gap=4000, start=2000), id=e1["id"])
        add("inproc", [e1, e2, g.est(rng, gap=0)], "same-number-both-ways")
    # the ends of the id range: 0 (NextId never returns it, an application may pick it) and 2^32-1, each direction, either order
    for pair in ["inproc", "process"]:
        ests = []
        for d in ["h2p", "p2h"]:
            for id_ in [0, 4294967295]:
                ests.append(dict(g.est(rng, d, rng.choice(["accept_first", "dial_first"]), gap=rng.choice([0, 50])), id=id_))
        rng.shuffle(ests)
        add(pair, ests + [g.est(rng, gap=0)], "extreme-ids")
    # an unmatched dial, then correctly established connections
    add("inproc", [g.est(rng, nopeer="dial_only"), g.est(rng, gap=0), g.est(rng, gap=100)], "unmatched")
    # ... in the same direction as the unmatched dial (whose knock gRPC repeats when the first one timed out)
    # and dialled twice (the second knock for an id whose first knock nobody took must simply be dropped)
    for d in ["h2p", "p2h"]:
        e1 = g.est(rng, d, nopeer="dial_only")
        add("inproc", [e1, dict(e1), g.est(rng, d, gap=0), g.est(rng, d, rng.choice(["accept_first", "dial_first"]), gap=100)], "unmatched")
    # histories beyond the window: the accept comes after the dial gave up (5.5 s), then in-window establishments
    for d in ["h2p", "p2h"]:
        for _ in range(1 if tier == "quick" else 3):
            add("inproc", [g.est(rng, d, "dial_first", gap=5500), g.est(rng, d, rng.choice(["accept_first", "dial_first"]), gap=0),
                           g.est(rng, d, "accept_first", gap=100)], "late-accept:" + d)
    # a second and third connection to an id whose server is still serving (real processes: outcomes only)
    for d in ["h2p", "p2h"]:
        e1 = g.est(rng, d, rng.choice(["accept_first", "dial_first"]), gap=rng.choice([0, 100]), keep=True)
        again = [dict(g.est(rng, d, gap=0), id=e1["id"], nopeer="dial_again") for _ in range(2)]
        add("process", [e1] + again + [g.est(rng, gap=0)], "second-connection")
        cases[-1]["sequential"] = True
    # an accept the application abandons (raw Accept, listener closed unused, nobody dialled), then the same id accepted
    # again and dialled: the abandoned accept must leave nothing behind that the second one trips over (real processes)
    for d in ["h2p", "p2h"]:
        # (accept first: with the dial first the outcome on the unchanged tree depends on a race inside go-plugin, DESIGN section 7)
        e = dict(g.est(rng, d, "accept_first", gap=rng.choice([0, 100])), pre="abandoned_accept")
        add("process", [g.est(rng, gap=0), e, dict(g.est(rng, d, gap=0), id=e["id"], nopeer="dial_again"), g.est(rng, gap=0)], "reaccept")
    # the gRPC half of C09's last clause: closing the client ends the brokers' goroutines (a few in-process cases, it takes seconds)
    n = 0
    for c in cases:
        if c["pair"] == "inproc" and c["fam"] in ("unmatched", "sequence", "extreme-ids") and not c.get("hold") and n < (3 if tier == "quick" else 12):
            c["leak_check"] = True
            n += 1
    return cases


def run(tier, seed):
    rng = random.Random(seed * 6364136223846793005 % (1 << 31) + 8)
    rep = vlib.Report(PROP, tier, seed, "model_checking")
    runs = [vlib.tlc_expect_ok("GRPCMux", "grpcmux_plugin_inwindow.cfg"), vlib.tlc_expect_ok("GRPCMux", "grpcmux_host_inwindow.cfg")]
    # the model is sensitive: the pre-fix order breaks the main listener; and it reproduces the two
    # recorded findings (late accept after the dial gave up) as violations of FirstCallOK / Routing
    vlib.tlc_expect_violation("GRPCMux", "grpcmux_prefix_plugin.cfg", "MainAlive")
    vlib.tlc_expect_violation("GRPCMux", "grpcmux_f14_plugin_late.cfg", "FirstCallOK")
    vlib.tlc_expect_violation("GRPCMux", "grpcmux_f15_host_late.cfg", "Routing")
    # the same protocol with each Run loop and knock() split at the hook points: the model recorded traces are validated against
    runs += [vlib.tlc_expect_ok("GRPCMuxImpl", "grpcmuximpl_plugin_inwindow.cfg"), vlib.tlc_expect_ok("GRPCMuxImpl", "grpcmuximpl_host_inwindow.cfg")]
    vlib.tlc_expect_violation("GRPCMuxImpl", "grpcmuximpl_prefix_plugin.cfg", "MainAlive")
    vlib.tlc_expect_violation("GRPCMuxImpl", "grpcmuximpl_f14_plugin_late.cfg", "FirstCallOK")
    vlib.tlc_expect_violation("GRPCMuxImpl", "grpcmuximpl_f15_host_late.cfg", "Routing")
    cases = make_cases(tier, rng)
    obs_list = g.run_and_judge(rep, cases, "c08", PROP, "c08")
    rep.coverage["binding_selftest_mutations_rejected"] = g.mux_trace_selftest(obs_list, {c["name"]: c for c in cases}, "c08")
    rep.coverage.update({
        "states": sum(r["distinct"] for r in runs), "transitions": sum(r["generated"] for r in runs), "traces_validated_against_impl": len(obs_list),
        "evaluations": sum(len(c["ests"]) for c in cases),
        "distinct_nontrivial": len(set((c["pair"], c["tls"], json.dumps(c.get("hold")), e["dir"], e["order"], e["gap_ms"], e["nopeer"]) for c in cases for e in c["ests"])),
        "rule": "scenario = one multiplexed host/plugin pair with establishments made one at a time (direction, accept- or dial-first, gap), optionally with the goroutine "
                "reaching a given hook point held for 150-400 ms (schedules inside one establishment), unmatched dials, and late-accept histories; evaluations = establishments",
        "families": sorted(set(c["fam"] for c in cases)),
        "exhaustive": False, "samples": [{"pair": o["pair"], "hold": o.get("hold"), "ests": o["out"]["ests"][:3]} for o in obs_list[:2]],
    })
    rep.assumptions += ["documented discipline: brokered connections are established one at a time", "real time; holds are sleeps at hook points, so schedules are forced coarsely, not exhaustively",
                        "a deviation is reported only if it reproduces when the scenario runs alone"]
    return rep.finish()


def replay(path):
    payload = json.load(open(path))
    c = payload["case"]["case"]
    rep = vlib.Report(PROP, "quick", payload.get("seed", 0), "model_checking")
    obs_list = g.run_and_judge(rep, [c], "c08r", PROP, "c08", confirm=False)
    rep.coverage.update({"states": 1, "transitions": 1, "traces_validated_against_impl": len(obs_list), "samples": [c]})
    return rep.finish()
