"""MuxBroker (net/rpc broker) machinery shared by C06 and C09 (and the broker part of C20):
TLC on spec/MuxBroker.tla, scenario generation, the synctest-bubble driver, and trace
validation against spec/TraceMux.tla."""
import json, os, random, re, subprocess, time
import vlib

GATED_HOLD_POINTS = ["mux.accept.slot", "mux.accept.took", "mux.accept.closed", "mux.dial.opened",
                     "mux.dial.wrote"]


def mk(name, dials, accepts, mode="ctl", seed=0, lagpct=0, holds=None, endat=None, nextids=0, script=None, fam=""):
    last = max([c["at"] for c in dials + accepts] + [0])
    hold_max = max([h["until"] for h in (holds or [])] + [0])
    return {"name": name, "dials": dials, "accepts": accepts, "mode": mode, "seed": seed, "lagpct": lagpct,
            "holds": holds or [], "endat": endat or (max(last, hold_max) + 11000), "nextids": nextids,
            "script": script or [], "fam": fam}


def call(name, side, id_, at, abort=False):
    return {"name": name, "side": side, "id": id_, "at": at, "abort": abort}


def other(s):
    return "P" if s == "H" else "H"


GAPS = [0, 1, 100, 2500, 4900, 4999]


def fam_pairs(rng, n, prefix="pair"):
    """k ids, each a clean accept/dial pair issued inside the window (either order, either
    direction, the same numeric id may be used in both directions)."""
    out = []
    for i in range(n):
        k = rng.randint(1, 6)
        dials, accepts, used = [], [], set()
        for j in range(k):
            while True:
                # ids are arbitrary uint32 values: mostly small ones, sometimes ones that differ only in
                # their high bytes (kept below 2^31, TLC's integers are 32 bit)
                id_ = rng.randint(10, 14) if rng.random() < 0.7 else rng.choice([0, 65536, 65537, 0x00030007, 0x03030007, 0x01000000, 0x7FFFFFFF, 0x00010001])
                if i == 1 and j == 0:
                    id_ = 0  # NextId never returns it, an application may pick it
                dside = rng.choice("HP")
                if (id_, dside) not in used:
                    used.add((id_, dside))
                    break
            t0 = rng.choice([0, 0, 7, 1000, 3000])
            gap = rng.choice(GAPS)
            dial_first = rng.random() < 0.5
            dt, at = (t0, t0 + gap) if dial_first else (t0 + gap, t0)
            dials.append(call("d%d" % (j + 1), dside, id_, dt))
            accepts.append(call("a%d" % (j + 1), other(dside), id_, at))
        mode = rng.choice(["ctl", "ctl", "free"])
        sc = mk("%s%d" % (prefix, i), dials, accepts, mode=mode, seed=rng.randint(1, 1 << 30),
                nextids=rng.choice([0, 0, 4]), fam="pairs")
        if i % 5 == 0:
            # a large transfer long after the rendezvous, the reader starting late
            sc.update({"bulk_len": rng.choice([300000, 1 << 20]), "bulk_delay": rng.choice([100, 5500, 12000]),
                       "bulk_read_delay": rng.choice([0, 500]), "mode": "free"})
            sc["endat"] += 20000
        out.append(sc)
    return out


def fam_lookup_race(rng, n, prefix="lk"):
    """Accept(id) and the peer's Dial(id) issued at the same instant, free-running; the first goroutine
    that reaches the slot lookup (inside the broker's critical section) stays there for a while
    without blocking, so that the other one arrives meanwhile: lookup and insert must be one step."""
    out = []
    for i in range(n):
        k = rng.randint(1, 3)
        dials, accepts = [], []
        for j in range(k):
            dside = rng.choice("HP")
            dials.append(call("d%d" % (j + 1), dside, 40 + j, 0))
            accepts.append(call("a%d" % (j + 1), other(dside), 40 + j, 0))
        sc = mk("%s%d" % (prefix, i), dials, accepts, mode="free", seed=rng.randint(1, 1 << 30), fam="lookup-race")
        sc.update({"spin_id": 40 + rng.randrange(k), "spin_n": rng.choice([20000, 60000])})
        out.append(sc)
    return out


def fam_acceptor_first(rng, n, prefix="af"):
    """The accepting side speaks first: it writes a greeting the moment Accept returns. The dialer is held
    between writing the id and reading the acknowledgement, so that acknowledgement and greeting are both
    waiting when it reads: the greeting must reach it complete."""
    out = []
    for i in range(n):
        k = rng.randint(1, 3)
        dials, accepts, holds = [], [], []
        for j in range(k):
            dside = rng.choice("HP")
            id_ = rng.choice([50 + j, 50 + j, (1 << 24) + 50 + j])
            at = rng.choice([0, 1, 100])
            dials.append(call("d%d" % (j + 1), dside, id_, at))
            accepts.append(call("a%d" % (j + 1), other(dside), id_, rng.choice([0, at, at + 50])))
            holds.append({"g": "d%d" % (j + 1), "gate": "mux.dial.wrote", "until": at + rng.choice([200, 500, 1500])})
        sc = mk("%s%d" % (prefix, i), dials, accepts, mode="ctl", seed=rng.randint(1, 1 << 30), holds=holds, fam="acceptor-first")
        sc["acceptor_first"] = True
        out.append(sc)
    return out


def fam_down(rng, n, prefix="dn"):
    """Calls in flight when the connection under the session is cut (the peer process dies): every call
    must still return, nothing may be reported as established afterwards, no goroutine may stay."""
    out = []
    for i in range(n):
        nd, na = rng.randint(1, 3), rng.randint(0, 3)
        dials = [call("d%d" % (j + 1), rng.choice("HP"), rng.randint(10, 12), rng.choice([0, 1, 100, 2500, 4999, 5000, 5001])) for j in range(nd)]
        accepts, used = [], set()
        for j in range(na):
            side, id_ = rng.choice("HP"), rng.randint(10, 12)
            if (side, id_) in used:
                continue
            used.add((side, id_))
            accepts.append(call("a%d" % (j + 1), side, id_, rng.choice([0, 1, 100, 2500, 4999, 5000, 5001])))
        sc = mk("%s%d" % (prefix, i), dials, accepts, mode=rng.choice(["ctl", "ctl", "free"]), seed=rng.randint(1, 1 << 30),
                lagpct=rng.choice([0, 0, 20]), fam="down")
        sc.update({"down_at": rng.choice([1, 1, 50, 100, 2500, 4999, 5000, 5001, 7000]), "down_side": rng.choice("HP")})
        out.append(sc)
    return out


def history_piece(rng, kind, id_, side, t0, idx):
    """One abusive history element on (id_, dial side). Returns dials, accepts, holds, duration."""
    d, a, h = [], [], []
    n = lambda p, k: "%s%d%s" % (p, idx, k)
    if kind == "dial_noaccept":
        d.append(call(n("d", "a"), side, id_, t0))
    elif kind == "accept_nodial":
        a.append(call(n("a", "a"), other(side), id_, t0))
    elif kind == "double_dial":
        d += [call(n("d", "a"), side, id_, t0), call(n("d", "b"), side, id_, t0 + rng.choice([0, 1, 2000]))]
    elif kind == "double_dial_accept":
        d += [call(n("d", "a"), side, id_, t0), call(n("d", "b"), side, id_, t0 + rng.choice([0, 1, 2000]))]
        a.append(call(n("a", "a"), other(side), id_, t0 + rng.choice([0, 3000, 4999])))
    elif kind == "accept_at_expiry_hold":
        # the acceptor takes the parked stream just before it expires and is held between taking it
        # and closing doneCh while the expiry timer fires
        d.append(call(n("d", "a"), side, id_, t0))
        a.append(call(n("a", "a"), other(side), id_, t0 + 4999))
        h.append({"g": n("a", "a"), "gate": "mux.accept.took", "until": t0 + 5001 + rng.choice([0, 1000])})
    elif kind == "accept_at_expiry_instant":
        d.append(call(n("d", "a"), side, id_, t0))
        a.append(call(n("a", "a"), other(side), id_, t0 + 5000))
    elif kind == "late_accept":
        d.append(call(n("d", "a"), side, id_, t0))
        a.append(call(n("a", "a"), other(side), id_, t0 + rng.choice([5001, 7000])))
    elif kind == "late_dial":
        a.append(call(n("a", "a"), other(side), id_, t0))
        d.append(call(n("d", "a"), side, id_, t0 + rng.choice([5000, 5001, 7000])))
    elif kind == "peer_abort":
        # the peer opens a stream and closes it before writing the id
        d.append(call(n("x", "a"), side, id_, t0, abort=True))
    elif kind == "peer_abort_then_accept":
        d.append(call(n("x", "a"), side, id_, t0, abort=True))
        a.append(call(n("a", "a"), other(side), id_, t0 + rng.choice([0, 10])))
    elif kind == "second_dial_after_take":
        # a second dial is parked into the slot after the acceptor emptied it (acceptor held
        # before it closes doneCh, so the slot is still registered)
        d.append(call(n("d", "a"), side, id_, t0))
        a.append(call(n("a", "a"), other(side), id_, t0 + 10))
        h.append({"g": n("a", "a"), "gate": "mux.accept.took", "until": t0 + 500})
        d.append(call(n("d", "b"), side, id_, t0 + 100))
    return d, a, h


KINDS = ["dial_noaccept", "accept_nodial", "double_dial", "double_dial_accept", "accept_at_expiry_hold",
         "accept_at_expiry_instant", "late_accept", "late_dial", "second_dial_after_take", "peer_abort",
         "peer_abort_then_accept"]


def fam_histories(rng, n, maxlen=3, prefix="hist"):
    """Finite histories of abusive elements on a few ids, then a fresh matched pair (C09)."""
    out = []
    for i in range(n):
        dials, accepts, holds = [], [], []
        t = 0
        ln = rng.randint(1, maxlen)
        kinds = []
        for j in range(ln):
            kind = KINDS[(i + j * 7) % len(KINDS)] if i < len(KINDS) * 2 else rng.choice(KINDS)
            kinds.append(kind)
            id_ = 10 + (j % 2)           # histories share ids on purpose
            side = rng.choice("HP") if j else "HP"[i % 2]
            st = rng.getstate()
            d, a, h = history_piece(rng, kind, id_, side, t, j + 1)
            # the contract: no two Accepts for one id on one broker at the same time (an Accept can sit
            # for 5 s, longer if its goroutine is held) -- a piece that would break it gets an id of its own
            if any(x["side"] == y["side"] and x["id"] == y["id"] and abs(x["at"] - y["at"]) < 16000 for x in a for y in accepts):
                rng.setstate(st)
                d, a, h = history_piece(rng, kind, 20 + j, side, t, j + 1)
            dials += d; accepts += a; holds += h
            t += rng.choice([0, 100, 6000, 11000])
        # the fresh pair, after everything above has expired or while it is still pending
        tf = t + rng.choice([0, 6000, 12000])
        fside = rng.choice("HP")
        gap = rng.choice(GAPS)
        if rng.random() < 0.5:
            dials.append(call("dF", fside, 30, tf)); accepts.append(call("aF", other(fside), 30, tf + gap))
        else:
            dials.append(call("dF", fside, 30, tf + gap)); accepts.append(call("aF", other(fside), 30, tf))
        sc = mk("%s%d" % (prefix, i), dials, accepts, mode="ctl", seed=rng.randint(1, 1 << 30), holds=holds, fam="hist")
        sc["kinds"] = kinds
        out.append(sc)
    return out


def fam_random(rng, n, prefix="rnd"):
    """Random calls under a random controlled schedule with lag and random holds."""
    out = []
    for i in range(n):
        nd, na = rng.randint(1, 4), rng.randint(1, 4)
        dials = [call("d%d" % (j + 1), rng.choice("HP"), rng.randint(10, 12), rng.choice([0, 1, 2500, 4999, 5000, 6000])) for j in range(nd)]
        accepts, used = [], set()
        for j in range(na):
            side, id_ = rng.choice("HP"), rng.randint(10, 12)
            if (side, id_) in used:      # contract: one Accept per id at a time
                continue
            used.add((side, id_))
            accepts.append(call("a%d" % (j + 1), side, id_, rng.choice([0, 1, 2500, 4999, 5000, 6000])))
        holds = []
        if rng.random() < 0.5:
            cands = [c["name"] for c in dials + accepts]
            for _ in range(rng.randint(1, 2)):
                g = rng.choice(cands)
                gates = [x for x in GATED_HOLD_POINTS if ("accept" in x) == g.startswith("a")]
                holds.append({"g": g, "gate": rng.choice(gates), "until": rng.choice([100, 2500, 5000, 5001, 7500])})
        out.append(mk("%s%d" % (prefix, i), dials, accepts, mode=rng.choice(["ctl", "ctl", "ctl", "free"]),
                      seed=rng.randint(1, 1 << 30), lagpct=rng.choice([0, 5, 20, 40]), holds=holds, fam="random"))
    return out


# ----------------------------------------------------------------------------- TLC-derived schedules

def tlc_graph_scripts(rng, n, report_cov):
    """Dump the state graph of the small generation model (scenario C: two dials and one accept on
    one id) with action labels and turn random walks through it into driver scripts: the order in
    which calls are issued and goroutines released follows the TLC behaviour."""
    d = vlib._spec_copy()
    dot = os.path.join(vlib.scratch(), "muxgen.dot")
    r = vlib.tlc("MCMux", "mux_gen.cfg", extra=["-dump", "dot,actionlabels", dot], timeout=600)
    if not r["completed"] or not os.path.exists(dot):
        raise vlib.Inconclusive("generation model did not complete:\n" + r["out"][-2000:])
    edges, nodes = {}, {}
    init = None
    node_re = re.compile(r'^(-?\d+) \[label="((?:[^"\\]|\\.)*)"(,style = filled)?\]')
    edge_re = re.compile(r'^(-?\d+) -> (-?\d+) \[label="((?:[^"\\]|\\.)*)"')
    for line in open(dot):
        m = edge_re.match(line)
        if m:
            edges.setdefault(m.group(1), []).append((m.group(3), m.group(2)))
            continue
        m = node_re.match(line)
        if m:
            nodes[m.group(1)] = m.group(2)
            if m.group(3):
                init = m.group(1)
    if init is None or not edges:
        raise vlib.Inconclusive("could not parse the TLC graph dump")
    report_cov["gen_graph_states"] = len(set(edges) | {n for v in edges.values() for _, n in v})
    report_cov["gen_graph_edges"] = sum(len(v) for v in edges.values())
    visited_edges = set()
    out = []
    tick_ms = 2500  # W = 2 ticks = 5000 ms
    for i in range(n):
        cur, now, steps = init, 0, []
        issue = {}
        script = []
        for _ in range(200):
            outs = edges.get(cur, [])
            if not outs:
                break
            # prefer unvisited edges
            fresh = [e for e in outs if (cur, e) not in visited_edges]
            lab, nxt = rng.choice(fresh or outs)
            visited_edges.add((cur, (lab, nxt)))
            steps.append(lab)
            name = lab
            if lab.startswith("Tick"):
                now += tick_ms
            else:
                m = re.match(r"(\w+)(?:\((.*)\))?", lab)
                act, arg = m.group(1), (m.group(2) or "").replace('\\"', "").replace('"', "").strip()
                arg = arg.split(",")[0].strip()
                if act in ("EnvDial", "EnvAccept"):
                    issue[arg] = now
                    script.append(arg)
                elif act in ("DialWrite", "DialAck", "AcceptTake", "AcceptClose", "AcceptAck", "AcceptTimeout", "AcceptDelete"):
                    script.append(arg)
                elif act == "RunId":
                    script.append("@%s:mux.run.stream" % arg)
                elif act == "RunSlot":
                    script.append("@%s:mux.run.id" % arg)
                elif act == "RunPark":
                    script.append("@%s:mux.run.slot" % arg)
                elif act == "RunSpawn":
                    script.append("@%s:mux.run.park" % arg)
                elif act == "TWFinish":
                    script.append("@P:mux.tw.woke")
            cur = nxt
        tab = {"dH1a": ("H", 10), "dH1b": ("H", 10), "aP1a": ("P", 10)}
        dials = [call(k, tab[k][0], tab[k][1], t) for k, t in issue.items() if k.startswith("d")]
        accepts = [call(k, tab[k][0], tab[k][1], t) for k, t in issue.items() if k.startswith("a")]
        if not dials and not accepts:
            continue
        sc = mk("tlc%d" % i, dials, accepts, mode="ctl", seed=rng.randint(1, 1 << 30), script=script, fam="tlc")
        sc["lagpct"] = 0
        sc["tlc_steps"] = steps
        # a TLC-directed schedule may hold goroutines while time passes: not "strict"
        sc["holds"] = [{"g": "-", "gate": "-", "until": 0}]
        out.append(sc)
    report_cov["gen_graph_edges_walked"] = len(visited_edges)
    return out


# ----------------------------------------------------------------------------- running

def build_driver():
    out = os.path.join(vlib.scratch(), "drivers.test")
    if not os.path.exists(out):
        vlib.go_build("test", "./drivers/", out)
    return out


def run_driver(binary, scenarios, shards=None, tag="mux", test="TestMuxScenarios"):
    """Runs the scenarios in several processes, each with its own output directory. A process that
    hangs (exit 3), aborts after a bad scenario (exit 4) or crashes (a panic in a library goroutine)
    is restarted on the remaining scenarios. Returns (results by name, {name: trace path})."""
    outdir = vlib.sub(tag + ".out")
    shards = shards or min(vlib.NCPU, max(1, len(scenarios) // 8))
    parts = [scenarios[i::shards] for i in range(shards)]

    def work(arg):
        idx, part = arg
        sdir = os.path.join(outdir, "shard%d" % idx)
        os.makedirs(sdir, exist_ok=True)
        rp = os.path.join(sdir, "results.ndjson")
        remaining = list(part)
        rounds = 0
        while remaining and rounds < 60:
            rounds += 1
            inp = os.path.join(sdir, "in.%d.ndjson" % rounds)
            vlib.write_ndjson(inp, remaining)
            rc, out = vlib.run_cmd([binary, "-test.run", test, "-test.timeout", "20m"], cwd=sdir,
                                   env={"VERIF_IN": inp, "VERIF_OUT": sdir, "TMPDIR": vlib.sub("tmp")}, timeout=1500)
            done = set(r["name"] for r in vlib.read_ndjson(rp)) if os.path.exists(rp) else set()
            if rc == 0:
                break
            started = re.findall(r"^SCENARIO (\S+)$", out, re.M)
            cur = started[-1] if started else None
            if cur and cur not in done:
                # the process died while this scenario was running: a panic in a goroutine of the
                # code under test (or a fatal runtime error)
                kind = "crash" if ("panic:" in out or "fatal error:" in out) else "died"
                with open(rp, "a") as f:
                    f.write(json.dumps({"name": cur, "status": kind, "detail": out[-4000:], "rc": rc}) + "\n")
                done.add(cur)
            before = len(remaining)
            remaining = [s for s in remaining if s["name"] not in done]
            if len(remaining) == before:
                raise vlib.Inconclusive("driver died (rc=%s) without progress:\n%s" % (rc, out[-3000:]))
        return True

    vlib.pmap(work, list(enumerate(parts)), jobs=shards)
    res, traces = {}, {}
    for idx in range(shards):
        sdir = os.path.join(outdir, "shard%d" % idx)
        rp = os.path.join(sdir, "results.ndjson")
        if os.path.exists(rp):
            for r in vlib.read_ndjson(rp):
                res[r["name"]] = r
        for s in parts[idx]:
            p = os.path.join(sdir, s["name"] + ".ndjson")
            if os.path.exists(p):
                traces[s["name"]] = p
    return res, traces


def classify_and_validate(rep, scenarios, results, outdir, prop):
    """Driver verdicts + TLC trace validation. Adds violations to rep. Returns counters."""
    by = {s["name"]: s for s in scenarios}
    paths = []
    for s in scenarios:
        r = results.get(s["name"])
        if r is None:
            rep.inconclusive.append("no result for scenario %s" % s["name"])
            continue
        st = r["status"]
        if st == "hang":
            wedged = "timeoutWait" in r.get("dump", "")
            rep.violation("mux:hang:" + s.get("fam", ""), "scenario %s: the broker stopped making progress%s" %
                          (s["name"], " (a goroutine is blocked in timeoutWait holding the broker lock)" if wedged else ""),
                          {"scenario": s, "result": {k: v for k, v in r.items() if k != "dump"}, "dump": r.get("dump", "")[:6000]})
        elif st in ("incomplete", "leak"):
            rep.violation("mux:%s:%s" % (st, s.get("fam", "")), "scenario %s: %s" % (s["name"], r.get("detail")),
                          {"scenario": s, "result": {k: v for k, v in r.items() if k != "dump"}, "dump": r.get("dump", "")[:6000]})
        elif st == "died":
            rep.inconclusive.append("driver process died during scenario %s: %s" % (s["name"], str(r.get("detail"))[-300:]))
        elif st in ("panic", "crash"):
            rep.violation("mux:panic:" + s.get("fam", ""), "scenario %s: panic: %s" % (s["name"], str(r.get("detail"))[:300]),
                          {"scenario": s, "result": r})
        elif st == "dupid":
            rep.violation("mux:dupid", "scenario %s: %s" % (s["name"], r.get("detail")), {"scenario": s, "result": r})
        p = outdir.get(s["name"])
        if p:
            paths.append(p)
    vals = vlib.validate_traces("TraceMux", "trace_mux.cfg", paths)
    accepted = 0
    for p, v in vals.items():
        name = os.path.basename(p)[:-7]
        s = by[name]
        if v["accepted"]:
            accepted += 1
            continue
        if v.get("timeout") or v["highwater"] is None and not v.get("violated"):
            rep.inconclusive.append("trace validation of %s did not finish: %s" % (name, v["out"][-500:]))
            continue
        evs = vlib.read_ndjson(p)
        if v.get("violated"):
            what = "trace of scenario %s reaches a state violating invariant %s" % (name, v["violated"])
            sig = "mux:inv:%s" % v["violated"]
            bad = None
        else:
            hw = v["highwater"]
            bad = evs[hw - 1] if hw and hw - 1 < len(evs) else None
            what = "trace of scenario %s is not a behaviour of MuxBroker.tla: event %d %s" % (
                name, hw, json.dumps({k: bad[k] for k in bad if k not in ("seq",)}) if bad else "?")
            sig = "mux:reject:%s" % (bad["ev"] if bad else "?")
        rep.violation(sig, what, {"scenario": s, "rejected_event": bad, "trace": evs[:400]})
    return {"traces": len(paths), "accepted": accepted}


def binding_selftest(traces, scenarios):
    """E4: corrupt a known-good mux trace in three ways; each must be rejected by TraceMux."""
    good = None
    for s in scenarios:
        if s["mode"] == "ctl" and s["name"] in traces and not s.get("bulk_len") and not s.get("holds"):
            rows = vlib.read_ndjson(traces[s["name"]])
            if any(r.get("ev") == "xfer" for r in rows) and len(rows) < 200:
                r0 = vlib.validate_trace("TraceMux", "trace_mux.cfg", traces[s["name"]])
                if r0["accepted"]:
                    good = traces[s["name"]]
                    break
    if good is None:
        return 0

    def change_id(rows):
        for r in rows:
            if r.get("ev") == "mux.run.id" and r.get("b") == 1:
                r["a"] = r["a"] + 100
                return rows
        return None

    def drop_took(rows):
        for i, r in enumerate(rows):
            if r.get("ev") == "mux.accept.took":
                return rows[:i] + rows[i + 1:]
        return None

    def flip_ret(rows):
        for r in rows:
            if r.get("ev") == "ret.accept" and r.get("res") == "ok":
                r["res"] = "timeout"
                return rows
        return None

    def wrong_peer(rows):
        dials = [d["name"] for d in rows[0]["dials"]]
        for r in rows:
            if r.get("ev") == "xfer" and len(dials) > 1:
                r["dial"] = [d for d in dials if d != r["dial"]][0]
                return rows
        return None

    def early_timeout(rows):
        for r in rows:
            if r.get("ev") == "mux.getstream" and r.get("b") == 0:
                r["b"] = 1
                return rows
        return None
    return vlib.selftest_trace("TraceMux", "trace_mux.cfg", good,
                               [("id of a received stream changed", change_id), ("accept.took dropped", drop_took), ("accept result flipped", flip_ret),
                                ("data arrived at another acceptor", wrong_peer), ("getStream 'existed' flag flipped", early_timeout)], "mux")
