"""C20 - concurrent use of clients and brokers is free of data races and panics."""
import glob, json, os, random, re
import vlib
from props import muxcommon as mx, c19

PROP = "C20"


def build_race(bins={}):
    if not bins:
        bins["drivers"] = vlib.go_build("test", "./drivers/", os.path.join(vlib.scratch(), "drivers.race.test"), race=True, timeout=1800)
        bins["vplugin"] = vlib.go_build("bin", "./cmd/vplugin", os.path.join(vlib.scratch(), "vplugin.race"), race=True, timeout=1800)
    return bins


def race_reports(logdir):
    """Splits the race detector's log files into reports; returns (reports with a go-plugin frame, others)."""
    lib, other = [], []
    for f in glob.glob(os.path.join(logdir, "race*")):
        txt = open(f, errors="replace").read()
        for rep in re.split(r"(?m)^==================\n", txt):
            if "DATA RACE" not in rep:
                continue
            frames = re.findall(r"^\s+(\S+)\(\)\n\s+(\S+):\d+", rep, re.M)
            # Who made the two accesses: per access stack the first frame that is not the runtime's own
            # (sync.WaitGroup's race annotations show up as a bare runtime.racewrite/raceread); a stack
            # with nothing else is attributed to the place its goroutine was created at.
            secs = re.split(r"\n\n", rep)
            created = {}
            for sec in secs:
                m = re.match(r"\s*Goroutine (\d+) \([^)]*\) created at:", sec)
                if m:
                    created[m.group(1)] = re.findall(r"^\s+(\S+)\(\)\n\s+(\S+):\d+", sec, re.M)
            owners = []
            for sec in secs:
                m = re.match(r"(?:WARNING: DATA RACE\n)?\s*(?:Read|Write|Previous read|Previous write|Atomic [a-z]+|Previous atomic [a-z]+) at \S+ by (?:goroutine (\d+)|main goroutine)", sec)
                if not m:
                    continue
                st = [(fn, path) for fn, path in re.findall(r"^\s+(\S+)\(\)\n\s+(\S+):\d+", sec, re.M) if not fn.startswith("runtime.")]
                if not st:
                    st = [(fn, path) for fn, path in created.get(m.group(1) or "", []) if not fn.startswith("runtime.")]
                if st:
                    owners.append(st[0])
            in_lib = [fn for fn, path in owners if "/verif/harness" not in path and "/harness/" not in path]
            (lib if in_lib or not owners else other).append({"report": rep[:5000], "frames": ["%s %s" % (fn, os.path.basename(p)) for fn, p in frames][:12],
                                                             "owners": ["%s %s" % (fn, os.path.basename(p)) for fn, p in owners]})
    return lib, other


def sig_of(report):
    fr = [f for f in report.get("owners", []) + report["frames"] if "verifharness" not in f and not f.startswith("runtime.")]
    return "c20:race:" + (fr[0].split(" ")[0].split("/")[-1] if fr else "unknown")


def run(tier, seed):
    rng = random.Random(seed * 2147483629 % (1 << 31) + 20)
    rep = vlib.Report(PROP, tier, seed, "exploration")
    b = build_race()
    # the specification's contribution: close-once / unique ids as invariants, and the schedules
    runs = [vlib.tlc_expect_ok("MCMux", "mux_C_safety.cfg"), vlib.tlc_expect_ok("Lifecycle", "lifecycle_ok.cfg")]
    vlib.tlc_expect_violation("MCMux", "mux_D_contract.cfg", "NoPanic")
    cov = rep.coverage
    logdir = vlib.sub("c20.racelogs")
    gorace = "halt_on_error=0 log_path=%s/race" % logdir
    # (1) MuxBroker schedules (gate-controlled and free) in the bubble, under the race detector
    n = {"quick": (30, 30, 20), "thorough": (300, 400, 300)}[tier]
    scs = mx.fam_pairs(rng, n[0]) + mx.fam_random(rng, n[1]) + mx.tlc_graph_scripts(rng, n[2], cov)
    for s in scs:
        s["nextids"] = rng.choice([4, 16])
    old_env = os.environ.get("GORACE")
    os.environ["GORACE"] = gorace
    try:
        results, traces = mx.run_driver(b["drivers"], scs, tag="c20mux")
        c = mx.classify_and_validate(rep, scs, results, traces, PROP)
        # (2) two goroutines on one Client (Lifecycle call mixes)
        lc_cases = []
        for i in range(60 if tier == "quick" else 800):
            plan = rng.choice(["ok", "ok", "badline", "exitearly", "silent"])
            lc_cases.append({"name": "rl%d" % i, "plan": plan, "calls": [rng.choice(c19.OPS[:3] + c19.OPS) for _ in range(rng.randint(3, 6))],
                             "concurrent": True, "line_delay_ms": rng.choice([0, 30, 120])})
        obs_lc, crashes_lc = vlib.run_cases(b["drivers"], "TestLifecycleCases", lc_cases, "c20lc", shards=min(8, vlib.NCPU))
        # (3) n goroutines against a real pair (plugin built with -race too), shutdown racing with operations in flight
        rc_cases = []
        protos = ["netrpc", "grpc", "grpcmux"]
        for i in range(6 if tier == "quick" else 60):
            rc_cases.append({"name": "rc%d" % i, "proto": protos[i % 3], "n": rng.choice([4, 8]), "seed": rng.randint(1, 1 << 30),
                             "kill_after_ms": rng.choice([0, 0, 150, 400]) if i >= 3 else 0, "tls": rng.choice(["", "", "auto"])})
        # the plugin dies between Start and the first Client(); then the goroutines use the client
        for i, pr in enumerate(protos if tier == "quick" else protos * 4):
            rc_cases.append({"name": "rcf%d" % i, "proto": pr, "n": 6, "seed": rng.randint(1, 1 << 30), "kill_after_ms": 0, "tls": "", "crash_first": True})
        obs_rc, crashes_rc = vlib.run_cases(b["drivers"], "TestRaceCases", rc_cases, "c20rc", env={"VERIF_VPLUGIN": b["vplugin"], "VERIF_CASE_TIMEOUT_S": "150"},
                                            shards=min(6, len(rc_cases)), serial=True, timeout=3000)
        # (4) shutdown while a broker message is inside the stream's send goroutine (held at a hook point)
        from props import grpccommon as g
        gb_cases = [{"name": "cs%d" % i, "mux": mux, "pair": "inproc", "tls": "", "launch": "cmd", "sequential": True, "ests": [], "fam": "close-during-send",
                     "close_during_send": d} for i, (mux, d) in enumerate([(False, "h2p"), (False, "p2h"), (True, "h2p"), (True, "p2h")])]
        # (4b) shutdown while a dial waits for its peer (multiplexed: the knock is out, no acknowledgement yet)
        gb_cases += [{"name": "cd%d" % i, "mux": mux, "pair": "inproc", "tls": "", "launch": "cmd", "sequential": True, "ests": [], "fam": "close-during-dial",
                      "close_during_dial": d} for i, (mux, d) in enumerate([(True, "h2p"), (True, "p2h"), (False, "h2p"), (False, "p2h")] * (1 if tier == "quick" else 6))]
        # (5) the owner of a server stops it at the moment the host's shutdown request does
        gb_cases += [{"name": "sr%d" % i, "mux": i % 2 == 1, "pair": "inproc", "tls": "", "launch": "cmd", "sequential": True, "ests": [], "fam": "stop-race",
                      "stop_race": True} for i in range(4 if tier == "quick" else 24)]
        # (6) several goroutines close one protocol client at once (all held at the entry of GRPCBroker.Close until the last arrives)
        gb_cases += [{"name": "cr%d" % i, "mux": i % 2 == 1, "pair": "inproc", "tls": "", "launch": "cmd", "sequential": True, "ests": [], "fam": "close-race",
                      "close_race": 2 + i % 3} for i in range(40 if tier == "quick" else 400)]
        obs_gb, crashes_gb = vlib.run_cases(b["drivers"], "TestGRPCBrokerCases", gb_cases, "c20gb", env={"VERIF_VPLUGIN": b["vplugin"], "VERIF_CASE_TIMEOUT_S": "60"},
                                            shards=min(len(gb_cases), 8), serial=True, timeout=600)
    finally:
        if old_env is None:
            os.environ.pop("GORACE", None)
        else:
            os.environ["GORACE"] = old_env
    by_lc = {c_["name"]: c_ for c_ in lc_cases}
    by_rc = {c_["name"]: c_ for c_ in rc_cases}
    by_gb = {c_["name"]: c_ for c_ in gb_cases}
    for name in vlib.hung_cases(obs_gb):
        rep.violation("c20:hang:%s" % by_gb[name]["fam"], "shutdown racing with a broker operation (%s) never finished" % by_gb[name]["fam"], {"case": by_gb[name]})
    for name, o in obs_gb.items():
        if not o.get("hang") and (o.get("out") or {}).get("dial_never_returned"):
            rep.violation("c20:stuck-dial", "a dial in flight when client and server were closed never returned: %s" % json.dumps(by_gb[name])[:300], {"case": by_gb[name]})
    for name, out in list(crashes_lc.items()) + list(crashes_rc.items()) + list(crashes_gb.items()):
        case = by_lc.get(name) or by_rc.get(name) or by_gb.get(name)
        kind = "double-close" if "close of closed channel" in out else "panic"
        rep.violation("c20:%s" % kind, "the process died (%s) during concurrent use: %s" % (kind, out[-400:]), {"case": case, "output": out})
    for name in vlib.hung_cases(obs_lc) + vlib.hung_cases(obs_rc):
        case = by_lc.get(name) or by_rc.get(name)
        rep.violation("c20:hang", "concurrent mix never finished: %s" % json.dumps(case)[:300], {"case": case})
    for name, o in obs_lc.items():
        if o.get("hang"):
            continue
        for ev in o["events"]:
            if ev.get("res") in ("panic", "ok-different-address", "different-client") or ev.get("launches", 0) > 1:
                rep.violation("c20:lifecycle:%s" % ev.get("res"), "two goroutines on one Client, calls %s: %s" % (by_lc[name]["calls"], json.dumps(ev)), {"case": by_lc[name], "events": o["events"]})
                break
    for name, o in obs_rc.items():
        if o.get("hang"):
            continue
        out = o["out"]
        if out.get("panic"):
            rep.violation("c20:panic", "%s: a call panicked under concurrent use: %s" % (o["proto"], out.get("panic_msg")), {"case": by_rc[name], "observation": o})
        if out.get("dup_ids"):
            rep.violation("c20:dupid", "%s: %s" % (o["proto"], out.get("dup")), {"case": by_rc[name], "observation": o})
        if out.get("plugin_race"):
            frames = re.findall(r"^\s+(\S+)\(\)", out.get("plugin_race_report", ""), re.M)
            lib = [f for f in frames if "hashicorp/go-plugin" in f and "verifharness" not in f]
            if lib:
                rep.violation("c20:race:plugin:" + lib[0].split("/")[-1], "%s: data race in the plugin process: %s" % (o["proto"], out["plugin_race_report"][:1500]), {"case": by_rc[name], "observation": o})
    lib, other = race_reports(logdir)
    seen = set()
    for r in lib:
        s = sig_of(r)
        if s in seen:
            continue
        seen.add(s)
        rep.violation(s, "data race with a go-plugin frame (host side): %s\n%s" % (r["frames"][:6], r["report"][:1500]), {"report": r})
    cov.update({
        "evaluations": len(scs) + len(lc_cases) + len(rc_cases) + len(gb_cases),
        "distinct_nontrivial": len(scs) + len(lc_cases) + len(rc_cases) + len(gb_cases),
        "rule": "schedule = (a) a MuxBroker scenario from the C06/C09 generators incl. TLC graph walks, with concurrent NextId callers; (b) a random call mix on one Client from two goroutines with a delayed "
                "handshake; (c) 4-8 goroutines issuing Client methods, Dispense, NextId (host and plugin), brokered accept/dial on distinct ids and calls against a real pair whose plugin is also built "
                "with -race, with Kill from two goroutines racing the operations; all distinct by seeded construction",
        "race_reports_with_library_frames": len(lib), "race_reports_harness_only": len(other),
        "mux_traces_validated": c["accepted"], "tlc_states": sum(r["distinct"] for r in runs),
        "operations": sum(o["out"].get("ops", 0) for o in obs_rc.values() if not o.get("hang")),
        "samples": [rc_cases[0], {"calls": lc_cases[0]["calls"], "plan": lc_cases[0]["plan"]}],
    })
    rep.assumptions += ["data-race freedom is judged by Go's race detector on the schedules run; the specification contributes the schedules and the close-once / unique-id invariants",
                        "multiplexed brokered connections are established one at a time, as documented", "race reports without a go-plugin frame (harness only) are counted, not reported"]
    return rep.finish()


def replay(path):
    print("C20 replays are re-runs of the whole check with the same seed: ./check C20 quick")
    return run("quick", json.load(open(path)).get("seed", 1))
