"""C04 - Kill always ends the plugin process in bounded time, gracefully if possible."""
import json, os, random
import vlib
from props import c02

PROP = "C04"
PROTOS = ["netrpc", "grpc", "grpcmux"]
LAUNCHES = ["cmd", "runner", "reattach", "foreign"]   # foreign: reattached to a process that is not a child of the host
BEHAVIOURS = ["prompt", "busy", "delay", "ignore", "frozen", "crashed", "failedhandshake", "brokerbusy_h", "brokerbusy_p"]
MODEL_CFGS = ["kill_prompt.cfg", "kill_delay.cfg", "kill_ignore.cfg", "kill_crashed.cfg", "kill_frozen_ok.cfg", "kill_frozen_err.cfg", "kill_unconnected.cfg"]


def valid(proto, launch, beh, tier):
    if launch in ("reattach", "foreign") and proto == "grpcmux":
        return False                       # multiplexing is not supported with Reattach
    if launch in ("reattach", "foreign") and beh == "failedhandshake":
        return False
    if beh == "frozen" and proto == "netrpc" and tier == "quick":
        return False                       # bounded only by the yamux keep-alive (~40 s): thorough tier
    return True


def make_cases(tier, rng):
    cases = []

    def add(proto, launch, beh, pattern, n=1):
        cases.append({"name": "k%d" % len(cases), "proto": proto, "launch": launch, "behaviour": beh,
                      "delay_ms": rng.choice([300, 700, 1200]) if beh == "delay" else 0, "pattern": pattern, "n": n,
                      # a Kill before the client was ever started (a no-op) on every other case
                      "early_kill": len(cases) % 2 == 1 and launch in ("cmd", "runner")})
    combos = [(p, l, b) for p in PROTOS for l in LAUNCHES for b in BEHAVIOURS if valid(p, l, b, tier)]
    if tier == "quick":
        # every behaviour x protocol once (launch method rotating), every pattern on the graceful ones
        for i, b in enumerate(BEHAVIOURS):
            for j, p in enumerate(PROTOS):
                l = LAUNCHES[(i + j) % 3]
                if not valid(p, l, b, tier):
                    l = "cmd"
                if valid(p, l, b, tier):
                    add(p, l, b, "single")
        for p in PROTOS:
            add(p, rng.choice(["cmd", "runner"]), "delay", "concurrent", rng.choice([2, 3, 4]))
            add(p, "cmd", "prompt", "repeated")
            add(p, rng.choice(["cmd", "runner"]), "ignore", "concurrent", 2)
        add("netrpc", "reattach", "delay", "concurrent", 3)
        for p, b_ in (("netrpc", "delay"), ("grpc", "ignore"), ("grpc", "prompt"), ("netrpc", "crashed")):
            add(p, "foreign", b_, "single")
        add("grpc", "cmd", "delay", "cleanup", 3)
        add("netrpc", "cmd", "ignore", "cleanup", 2)
        add("grpc", "reattach", "delay", "cleanup", 2)        # managed clients that were reattached, not launched
        add("netrpc", "foreign", "prompt", "cleanup", 2)
    else:
        for p, l, b in combos:
            add(p, l, b, "single")
            add(p, l, b, "repeated")
            add(p, l, b, "concurrent", rng.choice([2, 3, 4]))
        for p in PROTOS:
            for b in ["prompt", "delay", "ignore", "crashed"]:
                add(p, "cmd", b, "cleanup", 3)
                if p != "grpcmux":
                    add(p, rng.choice(["reattach", "foreign"]), b, "cleanup", 2)
    return cases


MODEL_BEHAVIOUR = {"prompt": "prompt", "busy": "prompt", "brokerbusy_h": "prompt", "brokerbusy_p": "prompt", "delay": "delay", "ignore": "ignore", "crashed": "crashed", "failedhandshake": "unconnected"}


def kill_trace_rows(o):
    """The recorded events of one Kill case as rows for TraceKillImpl (hook events are attributed to the
    call of the goroutine they ran in)."""
    rows = [{"ev": "reset", "t": 0}]
    who = {}
    for e in o["out"].get("events") or []:
        if e["ev"] == "call.kill":
            who[e["g"]] = e["c"]
        c = e.get("c") or who.get(e["g"])
        if c is None:
            return None
        r = {"ev": e["ev"], "c": c, "a": e["a"], "b": e["b"], "t": e["t"]}
        if e["ev"] == "ret.kill":
            r.update({"gone": bool(e.get("gone")), "exited": bool(e.get("exited"))})
        rows.append(r)
    rows.append({"ev": "end", "marker": bool(o["out"].get("marker")), "t": rows[-1]["t"]})
    return rows


def validate_kill_traces(obs, by, tag):
    """Hook-level conformance: the events of every Kill call are a behaviour of Kill.tla. Returns (accepted, {name: (event, detail)}, events)."""
    groups, nev = {}, 0
    for name, o in obs.items():
        c = by.get(name)
        if c is None or o.get("hang") or c["pattern"] == "cleanup" or c["behaviour"] not in MODEL_BEHAVIOUR or not o["out"].get("start_ok"):
            continue
        rows = kill_trace_rows(o)
        if not rows or len(rows) < 4 or sum(1 for r in rows if r["ev"] == "call.kill") > 5:
            continue
        # a reattached client learns of the exit from a pid poll once a second
        lag = 1000 if c["launch"] in ("reattach", "foreign") else 0
        groups.setdefault((MODEL_BEHAVIOUR[c["behaviour"]], c.get("delay_ms", 0), lag), []).append((name, rows))
        nev += len(rows)
    ok_total, bad = 0, {}
    for (beh, delay, lag), packed in sorted(groups.items()):
        ok, rejected, _ = vlib.validate_packed("TraceKillImpl", "trace_killimpl.cfg", packed, "%s.ktr.%s%d.%d" % (tag, beh, delay, lag),
                                               header={"ev": "header", "behaviour": beh, "delay": delay, "lag": lag, "t": 0})
        ok_total += ok
        for n, ev, detail in rejected:
            bad.setdefault(n, (ev, detail))
    return ok_total, bad, nev


def kill_trace_selftest(obs_list, by, tag):
    """Binding self-test: corrupted versions of accepted Kill traces must be rejected by TraceKillImpl."""
    total = 0
    for want_beh, want_pat in (("prompt", "single"), ("delay", "concurrent")):
        for o in obs_list:
            c = by[o["name"]]
            if c["behaviour"] != want_beh or c["pattern"] != want_pat or c["launch"] in ("reattach", "foreign") or o.get("hang"):
                continue
            rows = kill_trace_rows(o)
            if not rows or not any(r["ev"] == "client.kill.graceful" for r in rows):
                continue
            hdr = {"ev": "header", "behaviour": MODEL_BEHAVIOUR[c["behaviour"]], "delay": c.get("delay_ms", 0), "lag": 0, "t": 0}
            path = os.path.join(vlib.sub("%s.kst.%s" % (tag, want_beh)), "good.ndjson")
            vlib.write_ndjson(path, [hdr] + rows)
            if not vlib.validate_trace("TraceKillImpl", "trace_killimpl.cfg", path)["accepted"]:
                continue

            def first(rs, ev, **kw):
                return next(i for i, r in enumerate(rs) if r["ev"] == ev and all(r.get(k) == v for k, v in kw.items()))

            def no_graceful(rs):
                del rs[first(rs, "client.kill.graceful")]
                return rs

            def close_failed(rs):
                rs[first(rs, "client.kill.closed")]["a"] = 0
                return rs

            def not_gone(rs):
                rs[first(rs, "ret.kill")]["gone"] = False
                return rs

            def forced_instead(rs):
                rs[first(rs, "client.kill.graceful")]["ev"] = "client.kill.force"
                return rs

            def no_marker(rs):
                rs[-1]["marker"] = not rs[-1]["marker"]
                return rs

            def early_grace_expiry(rs):
                i = first(rs, "client.kill.graceful")
                rs[i]["ev"] = "client.kill.graceexpired"
                return rs

            def second_caller_inside(rs):
                # a second caller reads the client's fields while the first call is still between its read and its end
                try:
                    i = first(rs, "client.kill.read", c="k1")
                    j = first(rs, "client.kill.read", c="k2")
                except StopIteration:
                    return None
                lo, hi = (i, j) if i < j else (j, i)
                e = rs.pop(hi)
                e["t"] = rs[lo]["t"]
                rs.insert(lo + 1, e)
                return rs
            total += vlib.selftest_trace("TraceKillImpl", "trace_killimpl.cfg", path,
                                         [("graceful exit not logged", no_graceful), ("close reported failed", close_failed), ("process not gone at return", not_gone),
                                          ("force kill instead of graceful exit", forced_instead), ("cleanup marker flipped", no_marker),
                                          ("grace period expired early", early_grace_expiry), ("second caller inside the first call", second_caller_inside)],
                                         "%s.kst.%s" % (tag, want_beh))
            break
    return total


def strip_events(o):
    return dict(o, out={k: v for k, v in o["out"].items() if k != "events"}) if isinstance(o.get("out"), dict) else o


def run(tier, seed):
    rng = random.Random(seed * 16807 + 4)
    rep = vlib.Report(PROP, tier, seed, "model_checking")
    b = c02.build()
    runs = [vlib.tlc_expect_ok("Kill", c) for c in MODEL_CFGS]
    vlib.tlc_expect_violation("Kill", "kill_prefix.cfg", "GracefulRespected")
    cases = make_cases(tier, rng)
    obs, crashes = vlib.run_cases(b["drivers"], "TestKillCases", cases, "c04", env={"VERIF_VPLUGIN": b["vplugin"], "VERIF_CASE_TIMEOUT_S": "90"},
                                  shards=min(6, vlib.NCPU), timeout=2400)
    by = {c["name"]: c for c in cases}
    for name in vlib.hung_cases(obs):
        c = by[name]
        rep.violation("c04:hang:%s:%s" % (c["behaviour"], c["proto"]), "Kill did not return within 90 s: %s" % json.dumps(c), {"case": c, "dump": obs[name].get("dump", "")[:8000]})
        del obs[name]
    for name, out in crashes.items():
        rep.violation("c04:crash", "host died: %s" % json.dumps(by[name]), {"case": by[name], "output": out})
    obs_list = [obs[c["name"]] for c in cases if c["name"] in obs]
    if len(obs_list) + len(crashes) + sum(1 for c in cases if c["name"] not in obs and c["name"] not in crashes) != len(cases):
        raise vlib.Inconclusive("bookkeeping")
    r2, dev = vlib.judge_observations("TraceKill", "trace_kill.cfg", [strip_events(o) for o in obs_list], "c04")
    dev = list(dev)
    tr_ok, tr_bad, tr_events = validate_kill_traces(obs, by, "c04")
    rep.coverage.update({"kill_traces_validated": tr_ok, "kill_trace_events": tr_events})
    dev += [n for n in tr_bad if n not in dev]
    confirmed = []
    for name in dev:
        confirmed.append(by[name])
    # timing-sensitive verdicts are confirmed by re-running the case alone
    if confirmed:
        obs2, crashes2 = vlib.run_cases(b["drivers"], "TestKillCases", confirmed, "c04c", env={"VERIF_VPLUGIN": b["vplugin"], "VERIF_WORKERS": "1"}, shards=1, timeout=2400)
        ol2 = [obs2[c["name"]] for c in confirmed if c["name"] in obs2 and not obs2[c["name"]].get("hang")]
        dev2 = set()
        tr_bad2 = {}
        if ol2:
            _, d2 = vlib.judge_observations("TraceKill", "trace_kill.cfg", [strip_events(o) for o in ol2], "c04c")
            dev2 = set(d2)
            _, tr_bad2, _ = validate_kill_traces({o["name"]: o for o in ol2}, by, "c04c")
            dev2 |= set(tr_bad2)
        for c in confirmed:
            name = c["name"]
            if name in dev2 or name in crashes2 or obs2.get(name, {}).get("hang"):
                o = obs2.get(name, obs[name])
                trd = ""
                if name in tr_bad2 or (name in tr_bad and name not in obs2):
                    ev, detail = (tr_bad2.get(name) or tr_bad[name])
                    trd = "; recorded event %s -- %s (TraceKillImpl)" % (json.dumps(ev), detail)
                rep.violation("c04:%s:%s:%s:%s" % (c["behaviour"], c["proto"], c["launch"], c["pattern"]),
                              "%s plugin (%s, launched by %s), Kill pattern %s x%d: observed %s%s -- not what Kill.tla allows (confirmed by a second run)" % (
                                  c["behaviour"], c["proto"], c["launch"], c["pattern"], c["n"], json.dumps(strip_events(o).get("out")), trd),
                              {"case": c, "observation": o, "first_observation": obs[name]})
            else:
                rep.coverage.setdefault("unconfirmed", []).append(name)
    rep.coverage["binding_selftest_mutations_rejected"] = kill_trace_selftest([o for o in obs_list if o["name"] not in dev], by, "c04")
    rep.coverage.update({
        "states": sum(r["distinct"] for r in runs), "transitions": sum(r["generated"] for r in runs), "traces_validated_against_impl": len(obs_list),
        "evaluations": len(cases), "distinct_nontrivial": len(set((c["proto"], c["launch"], c["behaviour"], c["pattern"], c["n"]) for c in cases)),
        "rule": "case = (protocol, launch method, plugin shutdown behaviour, Kill pattern, number of concurrent callers / managed clients); distinct tuples; "
                "each runs a real vplugin process",
        "exhaustive": tier == "thorough", "samples": obs_list[:2],
    })
    rep.assumptions += ["bounds: model ticks in ms with 1.5 s slack; grace 2 s; frozen gRPC close 2 s; frozen net/rpc bounded by the yamux keep-alive (45 s, thorough tier only)",
                        "'not force-killed' is observed through a marker file the plugin writes after its cleanup delay",
                        "a deviation is reported only if it reproduces when the case is re-run alone"]
    return rep.finish()


def replay(path):
    payload = json.load(open(path))
    c = payload["case"]["case"]
    rep = vlib.Report(PROP, "quick", payload.get("seed", 0), "model_checking")
    b = c02.build()
    obs, crashes = vlib.run_cases(b["drivers"], "TestKillCases", [c], "c04r", env={"VERIF_VPLUGIN": b["vplugin"]}, shards=1, timeout=2400)
    ol = [o for o in obs.values() if not o.get("hang")]
    if len(ol) < 1:
        rep.violation("c04:replay", "hang or crash", {"case": c})
    else:
        r2, dev = vlib.judge_observations("TraceKill", "trace_kill.cfg", [strip_events(o) for o in ol], "c04r")
        dev = list(dev) + [n for n in validate_kill_traces({o["name"]: o for o in ol}, {c["name"]: c}, "c04r")[1] if n not in dev]
        for name in dev:
            rep.violation("c04:replay", "observed %s" % json.dumps(obs[name]["out"]), {"case": c, "observation": obs[name]})
    rep.coverage.update({"states": 1, "transitions": 1, "traces_validated_against_impl": len(ol), "samples": [c]})
    return rep.finish()
