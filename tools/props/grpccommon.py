"""gRPC broker machinery shared by C07 (plain) and C08 (multiplexed)."""
import json, os, random
import vlib
from props import c02

GAPS_IN = [0, 50, 1000, 3000, 4500]
_next_id = [1000]


def nid():
    _next_id[0] += 1
    return _next_id[0]


def est(rng, dir_=None, order=None, gap=None, start=0, keep=False, nopeer=""):
    return {"id": nid(), "dir": dir_ or rng.choice(["h2p", "p2h"]), "order": order or rng.choice(["accept_first", "dial_first"]),
            "gap_ms": rng.choice(GAPS_IN) if gap is None else gap, "start_ms": start, "keep": keep, "nopeer": nopeer}


ACC_EVS = {"grpc.accept.listening", "grpc.accept.sent"}
DIAL_EVS = {"grpc.run.recv", "grpc.run.park", "grpc.getclientstream", "grpc.tw.deleted", "grpc.dial.slot", "grpc.dial.took", "grpc.dial.timeout"}
DRV_EVS = {"call.accept", "ret.accept", "call.dial", "ret.dial"}


def project_plain_trace(events, direction):
    """The events of one direction of a plain in-process pair, ids renumbered 1..k (a bijection), as
    rows for TraceGRPCPlainImpl. Pure projection: nothing is reordered or inferred."""
    acc_side, dial_side = ("P", "H") if direction == "h2p" else ("H", "P")
    ids = {}

    def rn(x):
        if x not in ids:
            ids[x] = len(ids) + 1
        return ids[x]
    rows = [{"ev": "reset", "a": 0, "b": 0, "t": 0}]
    for e in events:
        ev = e["ev"]
        if ev in DRV_EVS:
            if e.get("dir") != direction:
                continue
            r = {"ev": ev, "a": rn(e["a"]), "b": 0, "t": e["t"]}
            if ev == "ret.dial":
                sb = e.get("served_by", -1)
                r.update({"ok": bool(e.get("ok")), "timeout": bool(e.get("timeout")), "served_by": -1 if sb == -1 else ids.get(sb, 999)})
            rows.append(r)
        elif (ev in ACC_EVS and e["obj"] == acc_side) or (ev in DIAL_EVS and e["obj"] == dial_side):
            if ev == "grpc.run.recv" and e["b"] != 0:
                continue
            b = e["b"]
            if ev == "grpc.dial.took":
                b = ids.get(b, 999)
            rows.append({"ev": ev, "a": rn(e["a"]), "b": b, "t": e["t"]})
    rows.append({"ev": "end", "a": 0, "b": 0, "t": rows[-1]["t"]})
    return rows, len(ids)


MUX_D_EVS = {"grpc.knock.sent", "grpc.knock.ack", "grpc.knock.timeout", "grpc.muxdial.opened", "grpc.getclientstream", "grpc.tw.deleted"}
MUX_A_EVS = {"grpc.accept.slot", "grpc.accept.listener", "grpc.accept.lfk", "grpc.lfk.took", "grpc.lfk.accepted", "grpc.lfk.acked"}
MUX_MUXER_EVS = {"h2p": {"smux.listener", "smux.acceptknock", "smux.accept.conn", "smux.route"}, "p2h": {"cmux.listener", "cmux.acceptknock", "bcl.unblocked"}}


def project_mux_trace(events, direction, est_ids):
    """The events of one direction of a multiplexed in-process pair as rows for TraceGRPCMuxImpl: ids of
    that direction renumbered 1..k in the order their establishments start, the two Run loops' events
    named by role (d.run.* on the dialer's side, a.run.* on the acceptor's). Pure projection."""
    acc_side, dial_side = ("P", "H") if direction == "h2p" else ("H", "P")
    mine = set(est_ids)
    ids = {}
    kind = {}

    def rn(x):
        if x not in ids:
            ids[x] = len(ids) + 1
        return ids[x]
    rows = [{"ev": "reset", "a": 0, "b": 0, "t": 0}]
    for e in events:
        ev, a = e["ev"], e["a"]
        if ev in DRV_EVS:
            if e.get("dir") != direction:
                continue
            r = {"ev": ev, "a": rn(a), "b": 0, "t": e["t"]}
            if ev == "ret.dial":
                sb = e.get("served_by", -1)
                r.update({"ok": bool(e.get("ok")), "served_by": -1 if sb == -1 else ids.get(sb, 999)})
            rows.append(r)
        elif ev in MUX_MUXER_EVS[direction]:
            if a != 0 and a not in mine:
                continue
            rows.append({"ev": ev, "a": rn(a) if a != 0 else 0, "b": e["b"], "t": e["t"]})
        elif a in mine and ((ev in MUX_D_EVS and e["obj"] == dial_side) or (ev in MUX_A_EVS and e["obj"] == acc_side)):
            rows.append({"ev": ev, "a": rn(a), "b": e["b"], "t": e["t"]})
        elif ev in ("grpc.run.recv", "grpc.run.park") and e["obj"] in (dial_side, acc_side):
            # a Run loop receives knocks (its side accepts) and knock acknowledgements (its side dials); the
            # park that follows in the same goroutine belongs to the message just received
            if ev == "grpc.run.recv":
                kind[e["g"]] = {1: "a", 2: "d"}.get(e["b"])
            role = kind.get(e["g"])
            if a in mine and role == ("d" if e["obj"] == dial_side else "a"):
                rows.append({"ev": role + ev[4:], "a": rn(a), "b": 1 if ev == "grpc.run.recv" else e["b"], "t": e["t"]})
    rows.append({"ev": "end", "a": 0, "b": 0, "t": rows[-1]["t"]})
    return rows, len(ids)


def validate_mux_traces(obs, by, tag):
    """Validates the event logs of the multiplexed in-process pairs in obs against GRPCMuxImpl.tla (per
    direction; the late-accept histories with the non-strict configuration). Returns (accepted, {case: (dir, event, detail)}, events)."""
    groups = {}
    nev = 0
    for name, o in obs.items():
        evs = (o.get("out") or {}).get("events")
        c = by.get(name)
        if not evs or not o.get("mux") or o.get("pair") != "inproc" or c is None or not c.get("sequential"):
            continue
        late = str(c.get("fam", "")).startswith("late-accept")
        for d in ("h2p", "p2h"):
            est_ids = [e["id"] for e in c["ests"] if e["dir"] == d]
            # (the muxer's hook points use 0 for "no id": a case that brokers id 0 is judged by its outcomes only)
            if not est_ids or len(est_ids) > 6 or 0 in est_ids:
                continue
            rows, k = project_mux_trace(evs, d, est_ids)
            if len(rows) > 2:
                groups.setdefault((d, late), []).append(("%s/%s" % (name, d), rows))
                nev += len(rows)
    ok_total, bad = 0, {}
    for (d, late), packed in sorted(groups.items()):
        ok, rejected, _ = vlib.validate_packed("TraceGRPCMuxImpl", "trace_grpcmuximpl_%s%s.cfg" % (d, "_late" if late else ""), packed, "%s.mtr.%s%s" % (tag, d, "l" if late else ""))
        ok_total += ok
        for n, ev, detail in rejected:
            bad.setdefault(n.split("/")[0], (n.split("/")[1], ev, detail))
    return ok_total, bad, nev


def validate_plain_traces(obs, tag):
    """Validates the event logs of the plain in-process pairs in obs against GRPCPlainImpl.tla.
    Returns (number of (case, direction) traces accepted, {case name: (rejected event, detail)}, events validated)."""
    packed = []
    nev = 0
    for name, o in obs.items():
        evs = (o.get("out") or {}).get("events")
        if not evs or o.get("mux") or o.get("pair") != "inproc":
            continue
        for d in ("h2p", "p2h"):
            rows, k = project_plain_trace(evs, d)
            if len(rows) > 2 and k <= 12:
                packed.append(("%s/%s" % (name, d), rows))
                nev += len(rows)
    if not packed:
        return 0, {}, 0
    ok, rejected, _ = vlib.validate_packed("TraceGRPCPlainImpl", "trace_grpcplainimpl.cfg", packed, tag + ".tr")
    bad = {}
    for n, ev, detail in rejected:
        bad.setdefault(n.split("/")[0], (n.split("/")[1], ev, detail))
    return ok, bad, nev


def mux_trace_selftest(obs_list, by, tag):
    """Binding self-test for TraceGRPCMuxImpl: corrupted versions of an accepted trace must be rejected."""
    total = 0
    done = set()
    for o in obs_list:
        evs = (o.get("out") or {}).get("events")
        c = by.get(o["name"])
        if not evs or not o.get("mux") or o.get("pair") != "inproc" or c is None or str(c.get("fam", "")).startswith("late-accept") or c.get("hold"):
            continue
        for d in ("h2p", "p2h"):
            if d in done:
                continue
            est_ids = [e["id"] for e in c["ests"] if e["dir"] == d]
            rows, k = project_mux_trace(evs, d, est_ids)
            names = [r["ev"] for r in rows]
            if k < 2 or "grpc.knock.ack" not in names or not any(r["ev"] == "ret.dial" and r.get("ok") for r in rows):
                continue
            cfg = "trace_grpcmuximpl_%s.cfg" % d
            path = os.path.join(vlib.sub("%s.mst.%s" % (tag, d)), "good.ndjson")
            vlib.write_ndjson(path, rows)
            if not vlib.validate_trace("TraceGRPCMuxImpl", cfg, path)["accepted"]:
                continue

            def first(rs, ev, **kw):
                return next(i for i, r in enumerate(rs) if r["ev"] == ev and all(r.get(k_) == v for k_, v in kw.items()))

            def ack_before_knock(rs):
                i, j = first(rs, "a.run.recv"), first(rs, "grpc.lfk.acked")
                e = rs.pop(j)
                e["t"] = rs[i]["t"]
                rs.insert(max(1, i - 2), e)
                return rs

            def no_registration(rs):
                del rs[first(rs, "smux.listener" if d == "h2p" else "cmux.listener")]
                return rs

            def served_by_other(rs):
                for r in rs:
                    if r["ev"] == "ret.dial" and r.get("ok"):
                        r["served_by"] = r["served_by"] % k + 1
                        return rs
                return None

            def opened_without_ack(rs):
                del rs[first(rs, "grpc.knock.ack")]
                return rs

            def ack_error_flag(rs):
                i = first(rs, "grpc.knock.ack")
                rs[i]["b"] = 1 - rs[i]["b"]
                return rs

            def routed_elsewhere(rs):
                if d != "h2p":
                    return None
                i = first(rs, "smux.route", b=1)
                rs[i]["a"] = rs[i]["a"] % k + 1
                return rs

            def slot_flag(rs):
                i = first(rs, "grpc.getclientstream")
                rs[i]["b"] = 1 - rs[i]["b"]
                return rs

            def second_id_overlaps(rs):
                # the second establishment's dial starts before the first one is over (against the one-at-a-time discipline)
                i1 = first(rs, "call.dial", a=1)
                j = first(rs, "call.dial", a=2)
                e = rs.pop(j)
                e["t"] = rs[i1]["t"]
                rs.insert(i1 + 1, e)
                return rs
            total += vlib.selftest_trace("TraceGRPCMuxImpl", cfg, path,
                                         [("ack sent before the knock was received", ack_before_knock), ("listener registration removed", no_registration),
                                          ("served by another id's listener", served_by_other), ("stream opened without an ack", opened_without_ack),
                                          ("ack error flag flipped", ack_error_flag), ("stream routed to another id", routed_elsewhere),
                                          ("slot-existed flag flipped", slot_flag), ("second dial overlaps the first", second_id_overlaps)], "%s.mst.%s" % (tag, d))
            done.add(d)
    return total


def plain_trace_selftest(obs_list, tag):
    """Binding self-test: corrupted versions of an accepted plain-broker trace must be rejected."""
    for o in obs_list:
        evs = (o.get("out") or {}).get("events")
        if not evs or o.get("mux") or o.get("pair") != "inproc":
            continue
        for d in ("h2p", "p2h"):
            rows, k = project_plain_trace(evs, d)
            names = [r["ev"] for r in rows]
            if k < 2 or k > 12 or "grpc.dial.took" not in names or "grpc.tw.deleted" not in names:
                continue
            path = os.path.join(vlib.sub(tag + ".st"), "good.ndjson")
            vlib.write_ndjson(path, rows)
            if not vlib.validate_trace("TraceGRPCPlainImpl", "trace_grpcplainimpl.cfg", path)["accepted"]:
                continue

            def first(rs, ev):
                return next(i for i, r in enumerate(rs) if r["ev"] == ev)

            def flip_existed(rs):
                i = first(rs, "grpc.getclientstream")
                rs[i]["b"] = 1 - rs[i]["b"]
                return rs

            def drop_park(rs):
                del rs[first(rs, "grpc.run.park")]
                return rs

            def misroute(rs):
                i = first(rs, "grpc.dial.took")
                rs[i]["b"] = rs[i]["b"] % k + 1
                return rs

            def served_by_other(rs):
                for r in rs:
                    if r["ev"] == "ret.dial" and r.get("ok"):
                        r["served_by"] = r["served_by"] % k + 1
                        return rs
                return None

            def failed_in_window(rs):
                for r in rs:
                    if r["ev"] == "ret.dial" and r.get("ok"):
                        r["ok"], r["served_by"] = False, -1
                        return rs
                return None

            def deleted_before_took(rs):
                i = first(rs, "grpc.dial.took")
                j = next((x for x in range(i, len(rs)) if rs[x]["ev"] == "grpc.tw.deleted" and rs[x]["a"] == rs[i]["a"]), None)
                if j is None or rs[j]["t"] - rs[i]["t"] > 1000:
                    return None
                e = rs.pop(j)
                e["t"] = rs[i]["t"]
                rs.insert(i, e)
                return rs

            def early_timeout(rs):
                i = first(rs, "grpc.dial.took")
                rs[i]["ev"], rs[i]["b"] = "grpc.dial.timeout", 0
                return rs
            return vlib.selftest_trace("TraceGRPCPlainImpl", "trace_grpcplainimpl.cfg", path,
                                       [("slot-existed flag flipped", flip_existed), ("park event removed", drop_park), ("message of another id taken", misroute),
                                        ("served by another id's listener", served_by_other), ("in-window dial reported failed", failed_in_window),
                                        ("slot deleted before the take", deleted_before_took), ("timeout before the deadline", early_timeout)], tag + ".st")
    return 0


def run_and_judge(rep, cases, tag, prop, sigprefix, confirm=True):
    b = c02.build()
    env = {"VERIF_VPLUGIN": b["vplugin"], "VERIF_CASE_TIMEOUT_S": "150", "VERIF_WORKERS": "3"}
    # in-process pairs install a process-wide hook handler: they run in driver processes of their own, so that
    # no event of another pair's host side ends up in their traces
    inproc = [c for c in cases if c["pair"] == "inproc"]
    procs = [c for c in cases if c["pair"] != "inproc"]

    def part(args):
        cs, t = args
        if not cs:
            return {}, {}
        return vlib.run_cases(b["drivers"], "TestGRPCBrokerCases", cs, t, env=env, shards=min(vlib.NCPU // 2 or 1, max(1, len(cs) // 2)), timeout=2400)
    (obs, crashes), (obs_p, crashes_p) = vlib.pmap(part, [(inproc, tag + "i"), (procs, tag + "p")], jobs=2)
    obs.update(obs_p)
    crashes.update(crashes_p)
    by = {c["name"]: c for c in cases}
    for name in vlib.hung_cases(obs):
        rep.violation("%s:hang" % sigprefix, "scenario did not finish: %s" % json.dumps(by[name])[:400], {"case": by[name], "dump": obs[name].get("dump", "")[:8000]})
        del obs[name]
    for name, out in crashes.items():
        rep.violation("%s:crash" % sigprefix, "host process died: %s" % out[-300:], {"case": by[name], "output": out})
    for o in obs.values():
        o["out"]["setup_ok"] = "setup_err" not in o["out"]
        o["out"].setdefault("ests", [])
        o["out"].setdefault("listener_before_ack", True)
        o["out"].setdefault("leftover_goroutines", 0)
    obs_list = [obs[c["name"]] for c in cases if c["name"] in obs]
    r2, dev = vlib.judge_observations("TraceGRPCBroker", "trace_grpcbroker.cfg", obs_list, tag)
    dev = list(dev)
    # hook-level conformance: the event logs of plain in-process pairs are behaviours of GRPCPlainImpl.tla
    tr_ok, tr_bad, tr_events = validate_plain_traces(obs, tag)
    rep.coverage["plain_broker_traces_validated"] = rep.coverage.get("plain_broker_traces_validated", 0) + tr_ok
    rep.coverage["plain_broker_trace_events"] = rep.coverage.get("plain_broker_trace_events", 0) + tr_events
    mtr_ok, mtr_bad, mtr_events = validate_mux_traces(obs, by, tag)
    rep.coverage["mux_broker_traces_validated"] = rep.coverage.get("mux_broker_traces_validated", 0) + mtr_ok
    rep.coverage["mux_broker_trace_events"] = rep.coverage.get("mux_broker_trace_events", 0) + mtr_events
    tr_bad.update(mtr_bad)
    dev += [n for n in tr_bad if n not in dev]
    tr_bad0 = dict(tr_bad)
    if dev and confirm:
        # real-time scenarios: a deviation counts only if it reproduces when the scenario runs alone
        again = [by[n] for n in dev]
        env2 = dict(env, VERIF_WORKERS="1")
        obs2, crashes2 = vlib.run_cases(b["drivers"], "TestGRPCBrokerCases", again, tag + "c", env=env2, shards=min(4, len(again)), timeout=2400)
        for o in obs2.values():
            if not o.get("hang"):
                o["out"]["setup_ok"] = "setup_err" not in o["out"]
                o["out"].setdefault("ests", [])
                o["out"].setdefault("listener_before_ack", True)
                o["out"].setdefault("leftover_goroutines", 0)
        ol2 = [o for o in obs2.values() if not o.get("hang")]
        dev2 = set()
        if ol2:
            _, d2 = vlib.judge_observations("TraceGRPCBroker", "trace_grpcbroker.cfg", ol2, tag + "c")
            dev2 = set(d2)
            _, tb2, _ = validate_plain_traces({o["name"]: o for o in ol2}, tag + "c")
            tb2.update(validate_mux_traces({o["name"]: o for o in ol2}, by, tag + "c")[1])
            for n in list(tr_bad):
                if n in obs2 and not obs2[n].get("hang") and n not in tb2:
                    del tr_bad[n]
            tr_bad.update(tb2)
            dev2 |= set(tb2)
        keep = []
        for n in dev:
            if n in dev2 or n in crashes2 or obs2.get(n, {}).get("hang"):
                if n in obs2 and not obs2[n].get("hang"):
                    obs[n] = obs2[n]
                keep.append(n)
            else:
                why = ("trace %s at %s" % (tr_bad0[n][0], json.dumps(tr_bad0[n][1]))) if n in tr_bad0 else "outcome"
                rep.coverage.setdefault("unconfirmed", []).append("%s (%s, %s)" % (n, by[n].get("fam"), why))
        dev = keep
    for name in dev:
        o, c = obs[name], by[name]
        if name in tr_bad:
            d, ev, detail = tr_bad[name]
            rep.violation("%s:trace:%s:%s" % (sigprefix, c.get("fam", ""), ev.get("ev")),
                          "in-process %s pair, scenario family %s%s, direction %s: recorded event %s -- %s (%s); establishments %s" % (
                              "multiplexed" if c.get("mux") else "plain", c.get("fam", ""), (", hold %s" % json.dumps(c["hold"])) if c.get("hold") else "", d, json.dumps(ev), detail,
                              "GRPCMuxImpl.tla" if c.get("mux") else "GRPCPlainImpl.tla",
                              json.dumps([{k: e[k] for k in ("id", "dir", "order", "gap_ms", "nopeer", "dial_ok", "served_by", "err") if k in e} for e in o["out"].get("ests", [])])[:600]),
                          {"case": c, "observation": {k: v for k, v in o.items() if k != "out"} | {"out": {k: v for k, v in o["out"].items() if k != "events"}},
                           "trace": (project_mux_trace(o["out"].get("events") or [], d, [e["id"] for e in c["ests"] if e["dir"] == d]) if c.get("mux")
                                     else project_plain_trace(o["out"].get("events") or [], d))[0][:600]})
            continue
        bad = [e for e in o["out"].get("ests", []) if not (e["main_ok"] and (e["served_by"] in (-1, e["id"])) and (e["dial_ok"] or e["nopeer"] or e["gap_ms"] >= 5000)
                                                              and (not e["keep"] or not e["dial_ok"] or e["kept_ok"]))]
        kinds = set()
        for e in bad:
            if e["served_by"] not in (-1, e["id"]):
                kinds.add("misrouted:" + e["dir"])
            elif not e["main_ok"]:
                kinds.add("main-broken:" + e["dir"])
            elif e["keep"] and e["dial_ok"] and not e["kept_ok"]:
                kinds.add("kept-broken:" + e["dir"])
            else:
                kinds.add("first-call-failed:" + e["dir"])
        if not o["out"].get("listener_before_ack", True):
            kinds.add("knock-acked-before-listener")
        if not o["out"].get("setup_ok", True):
            kinds.add("setup")
        fam = c.get("fam", "")
        sig = "%s:%s:%s" % (sigprefix, fam, "+".join(sorted(kinds)) or "other")
        if fam.startswith("late-accept:"):
            # the recorded findings: after a dial that gave up and a late accept on the same id, later
            # establishments in that direction fail (host dials plugin) / are served by the previous
            # id's listener (plugin dials host). Anything beyond that is a different violation.
            d = fam.split(":")[1]
            expected = {"first-call-failed:" + d} if d == "h2p" else {"first-call-failed:" + d, "misrouted:" + d}
            extra = kinds - expected
            sig = "%s:%s" % (sigprefix, fam) + ("".join(":" + k for k in sorted(extra)))
        rep.violation(sig, "%s pair, %s, scenario family %s%s: establishments %s -- not what the broker specification allows%s" % (
            c["pair"], "multiplexed" if c["mux"] else "plain", fam, (", hold %s" % json.dumps(c["hold"])) if c.get("hold") else "",
            json.dumps([{k: e[k] for k in ("id", "dir", "order", "gap_ms", "nopeer", "dial_ok", "served_by", "main_ok", "kept_ok", "err") if k in e} for e in o["out"].get("ests", [])])[:900],
            ("" if o["out"].get("listener_before_ack", True) else " (a knock was acknowledged before the listener was registered)")
            + ("" if not o["out"].get("leftover_goroutines") else " (%d goroutines of the brokers remain after client and server were closed, e.g. %s)" % (
                o["out"]["leftover_goroutines"], (o["out"].get("goroutine_sample") or [""])[0][:300]))),
            {"case": c, "observation": o})
    return obs_list
