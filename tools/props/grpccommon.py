"""gRPC broker machinery shared by C07 (plain) and C08 (multiplexed)."""
import json, os, random
import vlib
from props import c02

GAPS_IN = [0, 50, 1000, 3000, 4500]
_next_id = [1000]


def nid():
    _next_id[0] += 1
    return _next_id[0]


def est(rng, dir_=None, order=None, gap=None, start=0, keep=False, nopeer=""):
    return {"id": nid(), "dir": dir_ or rng.choice(["h2p", "p2h"]), "order": order or rng.choice(["accept_first", "dial_first"]),
            "gap_ms": rng.choice(GAPS_IN) if gap is None else gap, "start_ms": start, "keep": keep, "nopeer": nopeer}


def run_and_judge(rep, cases, tag, prop, sigprefix, confirm=True):
    b = c02.build()
    env = {"VERIF_VPLUGIN": b["vplugin"], "VERIF_CASE_TIMEOUT_S": "150", "VERIF_WORKERS": "3"}
    obs, crashes = vlib.run_cases(b["drivers"], "TestGRPCBrokerCases", cases, tag, env=env, shards=min(vlib.NCPU, max(1, len(cases) // 2)), timeout=2400)
    by = {c["name"]: c for c in cases}
    for name in vlib.hung_cases(obs):
        rep.violation("%s:hang" % sigprefix, "scenario did not finish: %s" % json.dumps(by[name])[:400], {"case": by[name], "dump": obs[name].get("dump", "")[:8000]})
        del obs[name]
    for name, out in crashes.items():
        rep.violation("%s:crash" % sigprefix, "host process died: %s" % out[-300:], {"case": by[name], "output": out})
    for o in obs.values():
        o["out"]["setup_ok"] = "setup_err" not in o["out"]
        o["out"].setdefault("ests", [])
        o["out"].setdefault("listener_before_ack", True)
    obs_list = [obs[c["name"]] for c in cases if c["name"] in obs]
    r2, dev = vlib.judge_observations("TraceGRPCBroker", "trace_grpcbroker.cfg", obs_list, tag)
    dev = list(dev)
    if dev and confirm:
        # real-time scenarios: a deviation counts only if it reproduces when the scenario runs alone
        again = [by[n] for n in dev]
        env2 = dict(env, VERIF_WORKERS="1")
        obs2, crashes2 = vlib.run_cases(b["drivers"], "TestGRPCBrokerCases", again, tag + "c", env=env2, shards=min(4, len(again)), timeout=2400)
        for o in obs2.values():
            if not o.get("hang"):
                o["out"]["setup_ok"] = "setup_err" not in o["out"]
                o["out"].setdefault("ests", [])
                o["out"].setdefault("listener_before_ack", True)
        ol2 = [o for o in obs2.values() if not o.get("hang")]
        dev2 = set()
        if ol2:
            _, d2 = vlib.judge_observations("TraceGRPCBroker", "trace_grpcbroker.cfg", ol2, tag + "c")
            dev2 = set(d2)
        keep = []
        for n in dev:
            if n in dev2 or n in crashes2 or obs2.get(n, {}).get("hang"):
                if n in obs2 and not obs2[n].get("hang"):
                    obs[n] = obs2[n]
                keep.append(n)
            else:
                rep.coverage.setdefault("unconfirmed", []).append(n)
        dev = keep
    for name in dev:
        o, c = obs[name], by[name]
        bad = [e for e in o["out"].get("ests", []) if not (e["main_ok"] and (e["served_by"] in (-1, e["id"])) and (e["dial_ok"] or e["nopeer"] or e["gap_ms"] >= 5000)
                                                              and (not e["keep"] or not e["dial_ok"] or e["kept_ok"]))]
        kinds = set()
        for e in bad:
            if e["served_by"] not in (-1, e["id"]):
                kinds.add("misrouted:" + e["dir"])
            elif not e["main_ok"]:
                kinds.add("main-broken:" + e["dir"])
            elif e["keep"] and e["dial_ok"] and not e["kept_ok"]:
                kinds.add("kept-broken:" + e["dir"])
            else:
                kinds.add("first-call-failed:" + e["dir"])
        if not o["out"].get("listener_before_ack", True):
            kinds.add("knock-acked-before-listener")
        if not o["out"].get("setup_ok", True):
            kinds.add("setup")
        fam = c.get("fam", "")
        sig = "%s:%s:%s" % (sigprefix, fam, "+".join(sorted(kinds)) or "other")
        if fam.startswith("late-accept:"):
            # the recorded findings: after a dial that gave up and a late accept on the same id, later
            # establishments in that direction fail (host dials plugin) / are served by the previous
            # id's listener (plugin dials host). Anything beyond that is a different violation.
            d = fam.split(":")[1]
            expected = {"first-call-failed:" + d} if d == "h2p" else {"first-call-failed:" + d, "misrouted:" + d}
            extra = kinds - expected
            sig = "%s:%s" % (sigprefix, fam) + ("".join(":" + k for k in sorted(extra)))
        rep.violation(sig, "%s pair, %s, scenario family %s%s: establishments %s -- not what the broker specification allows%s" % (
            c["pair"], "multiplexed" if c["mux"] else "plain", fam, (", hold %s" % json.dumps(c["hold"])) if c.get("hold") else "",
            json.dumps([{k: e[k] for k in ("id", "dir", "order", "gap_ms", "nopeer", "dial_ok", "served_by", "main_ok", "kept_ok", "err") if k in e} for e in o["out"].get("ests", [])])[:900],
            "" if o["out"].get("listener_before_ack", True) else " (a knock was acknowledged before the listener was registered)"),
            {"case": c, "observation": o})
    return obs_list
