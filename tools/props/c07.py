"""C07 - GRPCBroker (no multiplexing) connects Dial(id) only to the server accepted on that id."""
import json, os, random
import vlib
from props import grpccommon as g

PROP = "C07"


def make_cases(tier, rng):
    cases = []

    def add(pair, ests, fam, tls="", launch="cmd", sequential=False):
        cases.append({"name": "g%d" % len(cases), "mux": False, "pair": pair, "tls": tls, "launch": launch, "sequential": sequential, "ests": ests, "fam": fam})
    n = 3 if tier == "quick" else 14
    for i in range(n):
        # k ids outstanding at once, both directions, every order, gaps inside the window
        k = rng.randint(4, 10)
        ests = [g.est(rng, start=rng.choice([0, 0, 100, 700]), keep=rng.random() < 0.3) for _ in range(k)]
        add("inproc" if i % 2 == 0 else "process", ests, "concurrent")
    for i in range(2 if tier == "quick" else 8):
        # all accepts first (several ConnInfo pending at once), then the dials in another order
        k = rng.randint(3, 6)
        ests = [g.est(rng, order="accept_first", gap=rng.choice([1500, 2500, 3500]), start=j * 40) for j in range(k)]
        add(rng.choice(["inproc", "process"]), ests, "accepts-pending")
    # in-process pairs with the goroutine that reaches a hook point held there for a while (perturbed
    # interleavings inside an establishment; the recorded trace must still be a behaviour of the model)
    gates = ["grpc.run.recv", "grpc.getclientstream", "grpc.run.park", "grpc.dial.slot", "grpc.accept.listening", "grpc.dial.took", "grpc.stream.send"]
    # (the slot lookup is always among them: it is the critical section both Run and Dial go through)
    for gate in (["grpc.getclientstream"] + rng.sample([x for x in gates if x != "grpc.getclientstream"], 2) if tier == "quick" else gates * 2):
        ests = [g.est(rng, gap=rng.choice([0, 0, 50, 300]), start=j * rng.choice([0, 30, 200])) for j in range(rng.randint(3, 5))]
        add("inproc", ests, "held")
        cases[-1]["hold"] = {"gate": gate, "side": "", "ms": rng.choice([150, 300, 400])}
    for tls, launch in ([("auto", "cmd"), ("", "runner")] if tier == "quick" else [("auto", "cmd"), ("", "runner"), ("auto", "runner")] * 3):
        add("process", [g.est(rng, keep=True) for _ in range(5)], "tls-or-runner", tls=tls, launch=launch)
        if launch == "runner":
            # ... and a runner whose address translation is not the identity (Unix sockets published across as TCP forwards)
            add("process", [g.est(rng, keep=True) for _ in range(5)], "translating-runner", tls=tls, launch=launch)
            cases[-1]["translate"] = "tcpforward"
            # ... or a bind mount: the plugin sees the socket directory under another path; each direction has its own translation
            add("process", [g.est(rng, keep=True) for _ in range(5)], "translating-runner", tls=tls, launch=launch)
            cases[-1]["translate"] = "symlink"
    # two ids on one dialling broker whose waits overlap: one dial sits out most of its window (its accept comes late)
    # while another id, accepted early, is dialled meanwhile -- dials of different ids must not wait for each other
    for pair in (["inproc", "process"] if tier == "quick" else ["inproc", "process"] * 3):
        for d in ["h2p", "p2h"]:
            ests = [g.est(rng, d, "accept_first", gap=rng.choice([2500, 3000]), start=0), g.est(rng, d, "dial_first", gap=4500, start=700)]
            add(pair, ests, "overlapping-dials")
    # the ends of the id range (0: NextId never returns it, an application may pick it; 2^32-1), each direction
    for pair in ["inproc", "process"]:
        ests = [dict(g.est(rng, d, rng.choice(["accept_first", "dial_first"]), gap=rng.choice([0, 50])), id=id_) for d in ["h2p", "p2h"] for id_ in [0, 4294967295]]
        add(pair, ests + [g.est(rng)], "extreme-ids")
    # a dial that found nobody (gives up after 5 s), then the accept for that id, then the dial again 300 ms later:
    # the second dial is well inside the window of the accept and has to succeed
    for pair in ["inproc", "process"]:
        for d in ["h2p", "p2h"]:
            e1 = g.est(rng, d, nopeer="dial_only")
            e2 = dict(g.est(rng, d, "accept_first", gap=300, start=5400), id=e1["id"])
            add(pair, [e1, e2, g.est(rng, d, gap=0, start=6000)], "redial")
    # one number accepted as an id on both sides at once (each side's NextId starts at 1), then dialled from both sides
    for pair in ["inproc", "process"]:
        for k in range(1 if tier == "quick" else 4):
            e1 = g.est(rng, "h2p", "accept_first", gap=rng.choice([600, 900]), start=0)
            e2 = dict(g.est(rng, "p2h", "accept_first", gap=rng.choice([600, 900]), start=rng.choice([50, 150])), id=e1["id"])
            ests = [e1, e2] if k % 2 == 0 else [e2, e1]
            add(pair, ests + [g.est(rng, start=1800)], "same-number-both-ways")
    # unmatched peers followed by fresh pairs (the gRPC half of C09)
    for _ in range(1 if tier == "quick" else 6):
        ests = [g.est(rng, nopeer="dial_only"), g.est(rng, nopeer="accept_only"), g.est(rng, start=200), g.est(rng, start=5600)]
        add(rng.choice(["inproc", "process"]), ests, "unmatched")
    # the gRPC half of C09's last clause: closing the client ends the brokers' goroutines (a few in-process cases, it takes seconds)
    n = 0
    for c in cases:
        if c["pair"] == "inproc" and c["fam"] in ("unmatched", "sequence", "extreme-ids") and not c.get("hold") and n < (3 if tier == "quick" else 12):
            c["leak_check"] = True
            n += 1
    return cases


def run(tier, seed):
    rng = random.Random(seed * 25214903917 % (1 << 31) + 7)
    rep = vlib.Report(PROP, tier, seed, "model_checking")
    r1 = vlib.tlc_expect_ok("GRPCPlain", "grpcplain.cfg", timeout=1800)
    vlib.tlc_expect_violation("GRPCPlain", "grpcplain_shared.cfg", "Routing")
    # the same protocol at the grain of the code's critical sections (the model the recorded traces are validated against)
    r1b = vlib.tlc_expect_ok("GRPCPlainImpl", "grpcplainimpl.cfg", timeout=1800)
    if tier == "thorough":
        vlib.tlc_expect_ok("GRPCPlainImpl", "grpcplainimpl_redial.cfg", timeout=1800)
    vlib.tlc_expect_violation("GRPCPlainImpl", "grpcplainimpl_shared.cfg", "Routing")
    vlib.tlc_expect_violation("GRPCPlainImpl", "grpcplainimpl_mapentry.cfg", "NoMapEntryLeft")
    cases = make_cases(tier, rng)
    obs_list = g.run_and_judge(rep, cases, "c07", PROP, "c07")
    rep.coverage["binding_selftest_mutations_rejected"] = g.plain_trace_selftest(obs_list, "c07")
    rep.coverage.update({
        "states": r1["distinct"] + r1b["distinct"], "transitions": r1["generated"] + r1b["generated"], "traces_validated_against_impl": len(obs_list),
        "evaluations": sum(len(c["ests"]) for c in cases), "distinct_nontrivial": len(set((c["pair"], c["tls"], c["launch"], e["dir"], e["order"], e["gap_ms"], e["nopeer"]) for c in cases for e in c["ests"])),
        "rule": "scenario = one host/plugin pair (in-process or real process; plain, AutoMTLS, custom runner) with k establishments (direction, accept- or dial-first, gap inside the 5 s "
                "window, some kept open) running concurrently; evaluations = establishments; distinct = distinct (pair kind, direction, order, gap, peer) tuples",
        "exhaustive": False, "samples": [{"pair": o["pair"], "ests": o["out"]["ests"][:3]} for o in obs_list[:2]],
    })
    rep.assumptions += ["real time: gaps up to 4.5 s inside the 5 s window", "each accepted id serves a service that answers with its id; the first call on the dialled connection must return it",
                        "a deviation is reported only if it reproduces when the scenario runs alone"]
    return rep.finish()


def replay(path):
    payload = json.load(open(path))
    c = payload["case"]["case"]
    rep = vlib.Report(payload.get("property", PROP), "quick", payload.get("seed", 0), "model_checking")
    obs_list = g.run_and_judge(rep, [c], "c07r", PROP, "c07", confirm=False)
    rep.coverage.update({"states": 1, "transitions": 1, "traces_validated_against_impl": len(obs_list), "samples": [c]})
    return rep.finish()
