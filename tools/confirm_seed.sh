#!/bin/sh
# usage: confirm_seed.sh <seed dir with patch.diff and demo_test.go>
# Confirms in a scratch worktree: demo passes on HEAD; with the patch the library builds, the
# existing suite passes and the demo fails.
D="$1"; N=$(basename "$D"); WT=/var/tmp/wt-confirm-$N
git -C /repo worktree remove --force $WT 2>/dev/null
git -C /repo worktree add -q --detach $WT HEAD || exit 2
DEMO=$(ls $D/*_test.go 2>/dev/null | head -1)
cp "$DEMO" $WT/zz_demo_test.go
cd $WT
RUNRE=$(grep -o '^func Test[A-Za-z0-9_]*' zz_demo_test.go | sed 's/func //' | paste -sd'|')
echo "demo tests: $RUNRE"
go test -vet=off -count=1 -run "^($RUNRE)\$" . > /var/tmp/confirm-$N-clean.log 2>&1 && echo "CLEAN: demo passes" || echo "CLEAN: demo FAILS (bad seed)"
git apply $D/patch.diff || { echo "patch does not apply"; }
go build ./... && echo "PATCHED: builds" || echo "PATCHED: does not build"
mv zz_demo_test.go /var/tmp/zz_demo_$N.go
ok=0; for i in 1 2 3; do go test -vet=off -count=1 -timeout 25m ./... > /var/tmp/confirm-$N-suite.log 2>&1 && { ok=1; break; }; done
[ $ok = 1 ] && echo "PATCHED: suite passes" || { echo "PATCHED: suite FAILS 3x"; grep -E "^--- FAIL" /var/tmp/confirm-$N-suite.log | head; }
mv /var/tmp/zz_demo_$N.go zz_demo_test.go
go test -vet=off -count=1 -run "^($RUNRE)\$" . > /var/tmp/confirm-$N-patched.log 2>&1 && echo "PATCHED: demo passes (bad seed)" || echo "PATCHED: demo fails (good)"
cd /; git -C /repo worktree remove --force $WT
