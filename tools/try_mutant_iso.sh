#!/bin/sh
# usage: try_mutant_iso.sh <patch.diff> <tier> <property id>...
# Like try_mutant.sh but leaves /repo alone: the patch is applied to a scratch worktree of /repo, the
# checks run from a scratch copy of /verif whose harness module replaces go-plugin with that worktree.
# (For trying seeded changes while other checks are building from /repo.)  Everything is removed afterwards.
P=$(readlink -f "$1"); TIER="$2"; shift 2
N=$$; WT=/var/tmp/mutrepo-$N; VC=/var/tmp/mutverif-$N
git -C /repo worktree add -q --detach $WT HEAD || exit 2
cleanup() { rm -rf $VC; git -C /repo worktree remove --force $WT 2>/dev/null; }
trap cleanup EXIT
( cd $WT && { git apply --3way "$P" 2>/dev/null || git apply "$P"; } ) || { echo "patch does not apply"; exit 2; }
( cd $WT && git reset -q && go build ./... ) || { echo "does not build"; exit 2; }
mkdir -p $VC && ( cd /verif && git ls-files -z --cached --others --exclude-standard | grep -zv '^seeded/' | xargs -0 cp --parents -t $VC ) || exit 2
sed -i "s#=> /repo#=> $WT#" $VC/harness/go.mod
cd $VC
if [ -n "$ISO_CMD" ]; then
  # run an arbitrary command in the scratch copy instead of checks (debugging a seeded change)
  VERIF_REPO=$WT sh -c "$ISO_CMD"
  exit $?
fi
for id in "$@"; do
  echo "=== $id ($TIER) on $(basename $(dirname $P)) [isolated]"
  VERIF_REPO=$WT ./check "$id" "$TIER" 2>&1 | grep -E "^(VIOLATION|OK|INCONCLUSIVE|KNOWN|  what)" | cut -c1-420 | head -8
done
