#!/bin/sh
# usage: try_mutant.sh <patch.diff> <tier> <property id>...   -- applies the patch to /repo, runs the checks, restores /repo.
P="$1"; TIER="$2"; shift 2
cd /repo || exit 2
if [ -n "$(git status --porcelain)" ]; then echo "/repo not clean"; exit 2; fi
git apply --3way "$P" 2>/dev/null || git apply "$P" || { echo "patch does not apply"; git checkout -- . ; exit 2; }
git reset -q 2>/dev/null
go build ./... || { echo "does not build"; git checkout -- .; exit 2; }
cd /verif
for id in "$@"; do
  echo "=== $id ($TIER) on $(basename $(dirname $P))"
  ./check "$id" "$TIER" 2>&1 | grep -E "^(VIOLATION|OK|INCONCLUSIVE|KNOWN|  what)" | cut -c1-420 | head -8
done
git -C /repo checkout -- . ; git -C /repo status --short | head -3
